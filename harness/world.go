package main

// The implementation side of the correspondence check: the real keeper, message server and
// query server of /repo running in-process on a real IAVL multistore, with a fake bank and a
// fake fiat-token-factory whose balances live in a sibling store (so that a real CacheContext
// rolls both back together, exactly as bank and FTF state would be on chain).

import (
	"context"
	"fmt"
	"math/big"
	"sort"
	"strings"

	"cosmossdk.io/core/store"
	errorsmod "cosmossdk.io/errors"
	"cosmossdk.io/log"
	"cosmossdk.io/math"
	sdkstore "cosmossdk.io/store"
	"cosmossdk.io/store/metrics"
	storetypes "cosmossdk.io/store/types"
	cmtproto "github.com/cometbft/cometbft/proto/tendermint/types"
	db "github.com/cosmos/cosmos-db"
	"github.com/cosmos/cosmos-sdk/codec"
	codectypes "github.com/cosmos/cosmos-sdk/codec/types"
	"github.com/cosmos/cosmos-sdk/runtime"
	sdk "github.com/cosmos/cosmos-sdk/types"
	sdkerrors "github.com/cosmos/cosmos-sdk/types/errors"
	authtypes "github.com/cosmos/cosmos-sdk/x/auth/types"

	"github.com/circlefin/noble-cctp/x/cctp/keeper"
	"github.com/circlefin/noble-cctp/x/cctp/types"
	ftftypes "github.com/circlefin/noble-fiattokenfactory/x/fiattokenfactory/types"
)

const bech32Prefix = "noble"

type write struct {
	key []byte
	del bool
}

// World is one chain instance.
type World struct {
	cms       storetypes.CommitMultiStore
	cctpKey   *storetypes.KVStoreKey
	ledgerKey *storetypes.KVStoreKey
	ctx       sdk.Context
	cdc       codec.BinaryCodec
	k         *keeper.Keeper
	discard   bool // the current delivery runs on a branch that will be thrown away

	// an open multi-message transaction (baseapp.runTx): ctx is its branch, baseCtx the chain state to return to
	inBatch     bool
	batchFailed bool
	baseCtx     sdk.Context
	batchCommit func()
	msgSrv    types.MsgServer

	mintingDenom string
	faults       []bool
	faultSeq     int // which registered error type the next injected failure carries
	deps         []string
	writes       []write
}

// ---- recorder around the KVStoreService handed to the keeper (C15 observation) ----

type recService struct {
	inner store.KVStoreService
	w     *World
}

func (r recService) OpenKVStore(ctx context.Context) store.KVStore {
	return recStore{KVStore: r.inner.OpenKVStore(ctx), w: r.w}
}

type recStore struct {
	store.KVStore
	w *World
}

func (s recStore) Set(k, v []byte) error {
	s.w.writes = append(s.w.writes, write{key: append([]byte{}, k...)})
	return s.KVStore.Set(k, v)
}

func (s recStore) Delete(k []byte) error {
	s.w.writes = append(s.w.writes, write{key: append([]byte{}, k...), del: true})
	return s.KVStore.Delete(k)
}

// ---- fake bank / fiat-token-factory on the ledger store ----

type fakeBank struct{ w *World }
type fakeFTF struct{ w *World }

// typedFault: an injected dependency failure carries, in turn, each of the registered error types the real bank and
// fiat-token-factory return (and a bare error): a handler must treat them all alike -- as a failure.
func (w *World) typedFault(which string) error {
	w.faultSeq++
	pools := map[string][]error{
		"bank": {sdkerrors.ErrInsufficientFunds, sdkerrors.ErrInvalidCoins, sdkerrors.ErrUnauthorized, sdkerrors.ErrInvalidAddress, nil},
		"burn": {ftftypes.ErrBurn, ftftypes.ErrUnauthorized, ftftypes.ErrPaused, ftftypes.ErrInvalidCoins, ftftypes.ErrUserNotFound, ftftypes.ErrUserBlacklisted, ftftypes.ErrDenomNotRegistered, nil},
		"mint": {ftftypes.ErrMint, ftftypes.ErrUnauthorized, ftftypes.ErrPaused, ftftypes.ErrSendCoinsToAccount, ftftypes.ErrUserNotFound, ftftypes.ErrInvalidCoins, ftftypes.ErrUserBlacklisted, ftftypes.ErrDenomNotRegistered, nil},
	}
	p := pools[which]
	e := p[w.faultSeq%len(p)]
	if e == nil {
		return fmt.Errorf("injected %s failure", which)
	}
	return errorsmod.Wrapf(e, "injected %s failure", which)
}

func (w *World) popFault() bool {
	if len(w.faults) == 0 {
		return false
	}
	f := w.faults[0]
	w.faults = w.faults[1:]
	return f
}

func balKey(addr []byte, denom string) []byte {
	return []byte(fmt.Sprintf("b/%x/%x", addr, []byte(denom)))
}
func supKey(denom string) []byte { return []byte(fmt.Sprintf("s/%x", []byte(denom))) }

// ledger amounts are unbounded big integers (math.Int would panic above 256 bits, which is an
// artefact the real modules avoid through allowances; the model's ledger is unbounded too).
type amt struct{ *big.Int }

func (a amt) Add(b math.Int) amt { return amt{new(big.Int).Add(a.Int, b.BigInt())} }
func (a amt) Sub(b math.Int) amt { return amt{new(big.Int).Sub(a.Int, b.BigInt())} }
func (a amt) LT(b math.Int) bool { return a.Int.Cmp(b.BigInt()) < 0 }

func (w *World) ledgerGet(ctx context.Context, key []byte) amt {
	st := sdk.UnwrapSDKContext(ctx).KVStore(w.ledgerKey)
	bz := st.Get(key)
	if bz == nil {
		return amt{new(big.Int)}
	}
	v, ok := new(big.Int).SetString(string(bz), 10)
	if !ok {
		panic("ledger corrupt")
	}
	return amt{v}
}

func (w *World) ledgerSet(ctx context.Context, key []byte, v amt) {
	st := sdk.UnwrapSDKContext(ctx).KVStore(w.ledgerKey)
	st.Set(key, []byte(v.Int.String()))
}

func okStr(err error) string {
	if err == nil {
		return "1"
	}
	return "0"
}

func intStr(i math.Int) string {
	if i.IsNil() {
		return "-"
	}
	return i.String()
}

func (b fakeBank) GetBalance(ctx context.Context, addr sdk.AccAddress, denom string) sdk.Coin {
	// the fake ledger is unbounded (like the model's); math.Int is not: a balance beyond 2^256-1 is reported as 2^256-1
	bal := b.w.ledgerGet(ctx, balKey(addr, denom)).Int
	if bal.BitLen() > 256 {
		bal = new(big.Int).Sub(new(big.Int).Lsh(big.NewInt(1), 256), big.NewInt(1))
	}
	return sdk.Coin{Denom: denom, Amount: math.NewIntFromBigInt(bal)}
}

func (b fakeBank) SendCoinsFromAccountToModule(ctx context.Context, sender sdk.AccAddress, module string, amt sdk.Coins) (err error) {
	w := b.w
	var parts []string
	for _, c := range amt {
		parts = append(parts, fmt.Sprintf("x%x,%s", []byte(c.Denom), intStr(c.Amount)))
	}
	defer func() {
		w.deps = append(w.deps, fmt.Sprintf("Transfer{x%x,x%x,%s}=%s", []byte(sender), []byte(module), strings.Join(parts, ","), okStr(err)))
	}()
	if w.popFault() {
		return w.typedFault("bank")
	}
	modAddr := authtypes.NewModuleAddress(module)
	for _, c := range amt {
		if c.Amount.IsNil() || !c.Amount.IsPositive() {
			return errorsmod.Wrap(sdkerrors.ErrInvalidCoins, "invalid coins")
		}
		bal := w.ledgerGet(ctx, balKey(sender, c.Denom))
		if bal.LT(c.Amount) {
			return errorsmod.Wrapf(sdkerrors.ErrInsufficientFunds, "spendable balance is smaller than %s", c)
		}
	}
	for _, c := range amt {
		w.ledgerSet(ctx, balKey(sender, c.Denom), w.ledgerGet(ctx, balKey(sender, c.Denom)).Sub(c.Amount))
		w.ledgerSet(ctx, balKey(modAddr, c.Denom), w.ledgerGet(ctx, balKey(modAddr, c.Denom)).Add(c.Amount))
	}
	return nil
}

func (f fakeFTF) GetMintingDenom(ctx context.Context) ftftypes.MintingDenom {
	return ftftypes.MintingDenom{Denom: f.w.mintingDenom}
}

func (f fakeFTF) Burn(ctx sdk.Context, msg *ftftypes.MsgBurn) (resp *ftftypes.MsgBurnResponse, err error) {
	w := f.w
	defer func() {
		w.deps = append(w.deps, fmt.Sprintf("Burn{x%x,x%x,%s}=%s", []byte(msg.From), []byte(msg.Amount.Denom), intStr(msg.Amount.Amount), okStr(err)))
	}()
	if w.popFault() {
		return nil, w.typedFault("burn")
	}
	if msg.From != types.ModuleAddress.String() {
		return nil, errorsmod.Wrap(ftftypes.ErrUnauthorized, "you are not a minter")
	}
	if msg.Amount.Denom != w.mintingDenom {
		return nil, errorsmod.Wrap(ftftypes.ErrBurn, "burning denom is incorrect")
	}
	if msg.Amount.Amount.IsNil() || !msg.Amount.Amount.IsPositive() {
		return nil, errorsmod.Wrap(ftftypes.ErrBurn, "burning amount is invalid")
	}
	bal := w.ledgerGet(ctx, balKey(types.ModuleAddress, msg.Amount.Denom))
	if bal.LT(msg.Amount.Amount) {
		return nil, errorsmod.Wrap(ftftypes.ErrBurn, "insufficient funds")
	}
	w.ledgerSet(ctx, balKey(types.ModuleAddress, msg.Amount.Denom), bal.Sub(msg.Amount.Amount))
	w.ledgerSet(ctx, supKey(msg.Amount.Denom), w.ledgerGet(ctx, supKey(msg.Amount.Denom)).Sub(msg.Amount.Amount))
	return &ftftypes.MsgBurnResponse{}, nil
}

func (f fakeFTF) Mint(ctx sdk.Context, msg *ftftypes.MsgMint) (resp *ftftypes.MsgMintResponse, err error) {
	w := f.w
	defer func() {
		w.deps = append(w.deps, fmt.Sprintf("Mint{x%x,x%x,x%x,%s}=%s", []byte(msg.From), []byte(msg.Address), []byte(msg.Amount.Denom), intStr(msg.Amount.Amount), okStr(err)))
	}()
	if w.popFault() {
		return nil, w.typedFault("mint")
	}
	if msg.From != types.ModuleAddress.String() {
		return nil, errorsmod.Wrap(ftftypes.ErrUnauthorized, "you are not a minter")
	}
	to, aerr := sdk.AccAddressFromBech32(msg.Address)
	if aerr != nil {
		return nil, aerr
	}
	if msg.Amount.Denom != w.mintingDenom {
		return nil, errorsmod.Wrap(ftftypes.ErrMint, "minting denom is incorrect")
	}
	if msg.Amount.Amount.IsNil() || !msg.Amount.Amount.IsPositive() {
		return nil, errorsmod.Wrap(ftftypes.ErrMint, "minting amount is invalid")
	}
	w.ledgerSet(ctx, balKey(to, msg.Amount.Denom), w.ledgerGet(ctx, balKey(to, msg.Amount.Denom)).Add(msg.Amount.Amount))
	w.ledgerSet(ctx, supKey(msg.Amount.Denom), w.ledgerGet(ctx, supKey(msg.Amount.Denom)).Add(msg.Amount.Amount))
	return &ftftypes.MsgMintResponse{}, nil
}

// ---- construction ----

func NewWorld(mintingDenom string) *World {
	w := &World{mintingDenom: mintingDenom}
	logger := log.NewNopLogger()
	w.cctpKey = storetypes.NewKVStoreKey(types.StoreKey)
	w.ledgerKey = storetypes.NewKVStoreKey("ledger")
	w.cms = sdkstore.NewCommitMultiStore(db.NewMemDB(), logger, metrics.NewNoOpMetrics())
	w.cms.MountStoreWithDB(w.cctpKey, storetypes.StoreTypeIAVL, nil)
	w.cms.MountStoreWithDB(w.ledgerKey, storetypes.StoreTypeIAVL, nil)
	if err := w.cms.LoadLatestVersion(); err != nil {
		panic(err)
	}
	registry := codectypes.NewInterfaceRegistry()
	w.cdc = codec.NewProtoCodec(registry)
	w.k = keeper.NewKeeper(w.cdc, logger, recService{inner: runtime.NewKVStoreService(w.cctpKey), w: w}, fakeBank{w}, fakeFTF{w})
	w.msgSrv = keeper.NewMsgServerImpl(w.k)
	w.ctx = sdk.NewContext(w.cms, cmtproto.Header{}, false, logger)
	return w
}

func (w *World) jsonCdc() codec.JSONCodec { return w.cdc.(codec.JSONCodec) }

// Fund credits an account out of thin air (test set-up, not a chain operation).
func (w *World) Fund(addr []byte, denom string, amt math.Int) {
	w.ledgerSet(w.ctx, balKey(addr, denom), w.ledgerGet(w.ctx, balKey(addr, denom)).Add(amt))
	w.ledgerSet(w.ctx, supKey(denom), w.ledgerGet(w.ctx, supKey(denom)).Add(amt))
}

// Begin opens a multi-message transaction: every op until End runs on one branch of the chain state.
func (w *World) Begin() string {
	if w.inBatch {
		return "out=ok open=1"
	}
	w.baseCtx = w.ctx
	c, commit := w.ctx.CacheContext()
	w.ctx, w.batchCommit, w.inBatch, w.batchFailed = c, commit, true, false
	return "out=ok"
}

// End closes it: the branch is written back iff every message delivered on it succeeded.
func (w *World) End() string {
	if !w.inBatch {
		return "out=none"
	}
	w.ctx, w.inBatch = w.baseCtx, false
	commit := w.batchCommit
	w.batchCommit = nil
	if w.batchFailed {
		return "out=discarded"
	}
	commit()
	return "out=committed"
}

// Commit commits the multistore and returns the app hash (C18).
func (w *World) Commit() []byte {
	if w.inBatch {
		// a block is not committed in the middle of a transaction
		return nil
	}
	id := w.cms.Commit()
	w.ctx = sdk.NewContext(w.cms, cmtproto.Header{}, false, log.NewNopLogger())
	return id.Hash
}

// ---- dumps ----

var rolesKeys = map[string]bool{"owner": true, "pending-owner": true, "attester-manager": true, "pauser": true, "token-controller": true}

func (w *World) decodeVal(key, val []byte) string {
	raw := fmt.Sprintf("RAW:%x", val)
	ks := string(key)
	if rolesKeys[ks] {
		return fmt.Sprintf("role:%x", val)
	}
	scalar := func(p string) bool { return ks == p+p }
	switch {
	case scalar(types.BurningAndMintingPausedKey):
		var v types.BurningAndMintingPaused
		if w.cdc.Unmarshal(val, &v) != nil {
			return raw
		}
		return "flag:" + b01(v.Paused)
	case scalar(types.SendingAndReceivingMessagesPausedKey):
		var v types.SendingAndReceivingMessagesPaused
		if w.cdc.Unmarshal(val, &v) != nil {
			return raw
		}
		return "flag:" + b01(v.Paused)
	case scalar(types.MaxMessageBodySizeKey):
		var v types.MaxMessageBodySize
		if w.cdc.Unmarshal(val, &v) != nil {
			return raw
		}
		return fmt.Sprintf("size:%d", v.Amount)
	case scalar(types.NextAvailableNonceKey):
		var v types.Nonce
		if w.cdc.Unmarshal(val, &v) != nil {
			return raw
		}
		return showNonce(v)
	case scalar(types.SignatureThresholdKey):
		var v types.SignatureThreshold
		if w.cdc.Unmarshal(val, &v) != nil {
			return raw
		}
		return fmt.Sprintf("thr:%d", v.Amount)
	case strings.HasPrefix(ks, types.AttesterKeyPrefix):
		var v types.Attester
		if w.cdc.Unmarshal(val, &v) != nil {
			return raw
		}
		return showAttester(v)
	case strings.HasPrefix(ks, types.PerMessageBurnLimitKeyPrefix):
		var v types.PerMessageBurnLimit
		if w.cdc.Unmarshal(val, &v) != nil {
			return raw
		}
		return showLimit(v)
	case strings.HasPrefix(ks, types.RemoteTokenMessengerKeyPrefix):
		var v types.RemoteTokenMessenger
		if w.cdc.Unmarshal(val, &v) != nil {
			return raw
		}
		return showMessenger(v)
	case strings.HasPrefix(ks, types.TokenPairKeyPrefix):
		var v types.TokenPair
		if w.cdc.Unmarshal(val, &v) != nil {
			return raw
		}
		return showPair(v)
	case strings.HasPrefix(ks, types.UsedNonceKeyPrefix):
		var v types.Nonce
		if w.cdc.Unmarshal(val, &v) != nil {
			return raw
		}
		return showNonce(v)
	}
	return raw
}

func b01(b bool) string {
	if b {
		return "1"
	}
	return "0"
}
func showNonce(v types.Nonce) string       { return fmt.Sprintf("nonce:%d:%d", v.SourceDomain, v.Nonce) }
func showAttester(v types.Attester) string { return fmt.Sprintf("att:%x", []byte(v.Attester)) }
func showLimit(v types.PerMessageBurnLimit) string {
	return fmt.Sprintf("limit:%x:%s", []byte(v.Denom), intStr(v.Amount))
}
func showMessenger(v types.RemoteTokenMessenger) string {
	return fmt.Sprintf("msgr:%d:%x", v.DomainId, v.Address)
}
func showPair(v types.TokenPair) string {
	return fmt.Sprintf("pair:%d:%x:%x", v.RemoteDomain, v.RemoteToken, []byte(v.LocalToken))
}

func joinOr(sep string, l []string) string {
	if len(l) == 0 {
		return "-"
	}
	return strings.Join(l, sep)
}

// Dump prints the raw cctp store and the ledger in the canonical format of the model driver.
func (w *World) Dump() string {
	var ents []string
	it := w.ctx.KVStore(w.cctpKey).Iterator(nil, nil)
	for ; it.Valid(); it.Next() {
		ents = append(ents, fmt.Sprintf("%x=%s", it.Key(), w.decodeVal(it.Key(), it.Value())))
	}
	it.Close()
	var bals, sups []string
	it = w.ctx.KVStore(w.ledgerKey).Iterator(nil, nil)
	for ; it.Valid(); it.Next() {
		k := string(it.Key())
		v := string(it.Value())
		if v == "0" {
			continue
		}
		if strings.HasPrefix(k, "b/") {
			bals = append(bals, k[2:]+"="+v)
		} else if strings.HasPrefix(k, "s/") {
			sups = append(sups, k[2:]+"="+v)
		}
	}
	it.Close()
	sort.Strings(bals)
	sort.Strings(sups)
	return fmt.Sprintf("store=%s ledger=%s supply=%s", joinOr(";", ents), joinOr(";", bals), joinOr(";", sups))
}
