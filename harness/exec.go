package main

// Line protocol: parsing of op lines and execution against the implementation.
// The observation lines are printed in exactly the canonical format of the Lean driver
// (/verif/lean/Main.lean).

import (
	"context"
	"encoding/hex"
	"fmt"
	"hash/fnv"
	"sort"
	"strconv"
	"strings"
	"time"

	"cosmossdk.io/core/header"
	"cosmossdk.io/math"
	abci "github.com/cometbft/cometbft/abci/types"
	"github.com/cosmos/btcutil/base58"
	sdk "github.com/cosmos/cosmos-sdk/types"
	"github.com/cosmos/cosmos-sdk/types/bech32"
	"github.com/cosmos/cosmos-sdk/types/query"
	"github.com/cosmos/gogoproto/proto"
	"github.com/ethereum/go-ethereum/common"
	"github.com/ethereum/go-ethereum/crypto"

	cctp "github.com/circlefin/noble-cctp/x/cctp"
	"github.com/circlefin/noble-cctp/x/cctp/client/cli"
	"github.com/circlefin/noble-cctp/x/cctp/keeper"
	"github.com/circlefin/noble-cctp/x/cctp/types"
)

type KV struct {
	keys []string
	m    map[string]string
}

func newKV() *KV { return &KV{m: map[string]string{}} }
func (kv *KV) set(k, v string) *KV {
	if _, ok := kv.m[k]; !ok {
		kv.keys = append(kv.keys, k)
	}
	kv.m[k] = v
	return kv
}
func (kv *KV) get(k string) string { return kv.m[k] }
func (kv *KV) bytes(k string) []byte {
	b, err := hex.DecodeString(kv.m[k])
	if err != nil {
		return []byte{}
	}
	return b
}
func (kv *KV) str(k string) string { return string(kv.bytes(k)) }
func (kv *KV) u64(k string) uint64 {
	n, _ := strconv.ParseUint(kv.m[k], 10, 64)
	return n
}
func (kv *KV) u32(k string) uint32 { return uint32(kv.u64(k)) }
func (kv *KV) optInt(k string) math.Int {
	s := kv.m[k]
	if s == "-" || s == "" {
		return math.Int{}
	}
	v, ok := math.NewIntFromString(s)
	if !ok {
		return math.Int{}
	}
	return v
}

// Op is one line of the protocol.
type Op struct {
	Kind string
	Sub  string // tx type / query name
	KV   *KV
}

func (o Op) String() string {
	var sb strings.Builder
	sb.WriteString(o.Kind)
	if o.Sub != "" {
		sb.WriteString(" " + o.Sub)
	}
	for _, k := range o.KV.keys {
		sb.WriteString(" " + k + "=" + o.KV.m[k])
	}
	return sb.String()
}

func ParseOp(line string) Op {
	parts := strings.Fields(line)
	op := Op{KV: newKV()}
	if len(parts) == 0 {
		return op
	}
	op.Kind = parts[0]
	rest := parts[1:]
	if (op.Kind == "tx" || op.Kind == "query" || op.Kind == "sim") && len(rest) > 0 {
		op.Sub = rest[0]
		rest = rest[1:]
	}
	for _, p := range rest {
		i := strings.IndexByte(p, '=')
		if i < 0 {
			op.KV.set(p, "")
		} else {
			op.KV.set(p[:i], p[i+1:])
		}
	}
	return op
}

func listItems(s string) []string {
	if s == "-" {
		return nil
	}
	return strings.Split(s, ",")
}

func unhex(s string) []byte {
	b, err := hex.DecodeString(s)
	if err != nil {
		return []byte{}
	}
	return b
}

// ---- building messages ----

func buildMsg(ty string, kv *KV) sdk.Msg {
	f := kv.str("from")
	switch ty {
	case "AcceptOwner":
		return &types.MsgAcceptOwner{From: f}
	case "AddRemoteTokenMessenger":
		return &types.MsgAddRemoteTokenMessenger{From: f, DomainId: kv.u32("domain"), Address: kv.bytes("address")}
	case "DepositForBurn":
		return &types.MsgDepositForBurn{From: f, Amount: kv.optInt("amount"), DestinationDomain: kv.u32("dest"), MintRecipient: kv.bytes("mintRecipient"), BurnToken: kv.str("burnToken")}
	case "DepositForBurnWithCaller":
		return &types.MsgDepositForBurnWithCaller{From: f, Amount: kv.optInt("amount"), DestinationDomain: kv.u32("dest"), MintRecipient: kv.bytes("mintRecipient"), BurnToken: kv.str("burnToken"), DestinationCaller: kv.bytes("caller")}
	case "DisableAttester":
		return &types.MsgDisableAttester{From: f, Attester: kv.str("attester")}
	case "EnableAttester":
		return &types.MsgEnableAttester{From: f, Attester: kv.str("attester")}
	case "LinkTokenPair":
		return &types.MsgLinkTokenPair{From: f, RemoteDomain: kv.u32("domain"), RemoteToken: kv.bytes("token"), LocalToken: kv.str("localToken")}
	case "PauseBurningAndMinting":
		return &types.MsgPauseBurningAndMinting{From: f}
	case "PauseSendingAndReceivingMessages":
		return &types.MsgPauseSendingAndReceivingMessages{From: f}
	case "ReceiveMessage":
		return &types.MsgReceiveMessage{From: f, Message: kv.bytes("message"), Attestation: kv.bytes("attestation")}
	case "RemoveRemoteTokenMessenger":
		return &types.MsgRemoveRemoteTokenMessenger{From: f, DomainId: kv.u32("domain")}
	case "ReplaceDepositForBurn":
		return &types.MsgReplaceDepositForBurn{From: f, OriginalMessage: kv.bytes("message"), OriginalAttestation: kv.bytes("attestation"), NewDestinationCaller: kv.bytes("newCaller"), NewMintRecipient: kv.bytes("newMintRecipient")}
	case "ReplaceMessage":
		return &types.MsgReplaceMessage{From: f, OriginalMessage: kv.bytes("message"), OriginalAttestation: kv.bytes("attestation"), NewMessageBody: kv.bytes("newBody"), NewDestinationCaller: kv.bytes("newCaller")}
	case "SendMessage":
		return &types.MsgSendMessage{From: f, DestinationDomain: kv.u32("dest"), Recipient: kv.bytes("recipient"), MessageBody: kv.bytes("body")}
	case "SendMessageWithCaller":
		return &types.MsgSendMessageWithCaller{From: f, DestinationDomain: kv.u32("dest"), Recipient: kv.bytes("recipient"), MessageBody: kv.bytes("body"), DestinationCaller: kv.bytes("caller")}
	case "UnlinkTokenPair":
		return &types.MsgUnlinkTokenPair{From: f, RemoteDomain: kv.u32("domain"), RemoteToken: kv.bytes("token"), LocalToken: kv.str("localToken")}
	case "UnpauseBurningAndMinting":
		return &types.MsgUnpauseBurningAndMinting{From: f}
	case "UnpauseSendingAndReceivingMessages":
		return &types.MsgUnpauseSendingAndReceivingMessages{From: f}
	case "UpdateOwner":
		return &types.MsgUpdateOwner{From: f, NewOwner: kv.str("new")}
	case "UpdateAttesterManager":
		return &types.MsgUpdateAttesterManager{From: f, NewAttesterManager: kv.str("new")}
	case "UpdateTokenController":
		return &types.MsgUpdateTokenController{From: f, NewTokenController: kv.str("new")}
	case "UpdatePauser":
		return &types.MsgUpdatePauser{From: f, NewPauser: kv.str("new")}
	case "UpdateMaxMessageBodySize":
		return &types.MsgUpdateMaxMessageBodySize{From: f, MessageSize: kv.u64("size")}
	case "SetMaxBurnAmountPerMessage":
		return &types.MsgSetMaxBurnAmountPerMessage{From: f, LocalToken: kv.str("localToken"), Amount: kv.optInt("amount")}
	case "UpdateSignatureThreshold":
		return &types.MsgUpdateSignatureThreshold{From: f, Amount: kv.u32("amount")}
	}
	return nil
}

// callMsg routes a message to the real message server and renders the response.
func callMsg(srv types.MsgServer, ctx context.Context, m sdk.Msg) (string, error) {
	switch msg := m.(type) {
	case *types.MsgAcceptOwner:
		_, err := srv.AcceptOwner(ctx, msg)
		return "-", err
	case *types.MsgAddRemoteTokenMessenger:
		_, err := srv.AddRemoteTokenMessenger(ctx, msg)
		return "-", err
	case *types.MsgDepositForBurn:
		r, err := srv.DepositForBurn(ctx, msg)
		if err != nil {
			return "-", err
		}
		return fmt.Sprintf("nonce:%d", r.Nonce), nil
	case *types.MsgDepositForBurnWithCaller:
		r, err := srv.DepositForBurnWithCaller(ctx, msg)
		if err != nil {
			return "-", err
		}
		return fmt.Sprintf("nonce:%d", r.Nonce), nil
	case *types.MsgDisableAttester:
		_, err := srv.DisableAttester(ctx, msg)
		return "-", err
	case *types.MsgEnableAttester:
		_, err := srv.EnableAttester(ctx, msg)
		return "-", err
	case *types.MsgLinkTokenPair:
		_, err := srv.LinkTokenPair(ctx, msg)
		return "-", err
	case *types.MsgPauseBurningAndMinting:
		_, err := srv.PauseBurningAndMinting(ctx, msg)
		return "-", err
	case *types.MsgPauseSendingAndReceivingMessages:
		_, err := srv.PauseSendingAndReceivingMessages(ctx, msg)
		return "-", err
	case *types.MsgReceiveMessage:
		r, err := srv.ReceiveMessage(ctx, msg)
		if err != nil {
			return "-", err
		}
		if r.Success {
			return "success", nil
		}
		return "failure", nil
	case *types.MsgRemoveRemoteTokenMessenger:
		_, err := srv.RemoveRemoteTokenMessenger(ctx, msg)
		return "-", err
	case *types.MsgReplaceDepositForBurn:
		_, err := srv.ReplaceDepositForBurn(ctx, msg)
		return "-", err
	case *types.MsgReplaceMessage:
		_, err := srv.ReplaceMessage(ctx, msg)
		return "-", err
	case *types.MsgSendMessage:
		r, err := srv.SendMessage(ctx, msg)
		if err != nil {
			return "-", err
		}
		return fmt.Sprintf("nonce:%d", r.Nonce), nil
	case *types.MsgSendMessageWithCaller:
		r, err := srv.SendMessageWithCaller(ctx, msg)
		if err != nil {
			return "-", err
		}
		return fmt.Sprintf("nonce:%d", r.Nonce), nil
	case *types.MsgUnlinkTokenPair:
		_, err := srv.UnlinkTokenPair(ctx, msg)
		return "-", err
	case *types.MsgUnpauseBurningAndMinting:
		_, err := srv.UnpauseBurningAndMinting(ctx, msg)
		return "-", err
	case *types.MsgUnpauseSendingAndReceivingMessages:
		_, err := srv.UnpauseSendingAndReceivingMessages(ctx, msg)
		return "-", err
	case *types.MsgUpdateOwner:
		_, err := srv.UpdateOwner(ctx, msg)
		return "-", err
	case *types.MsgUpdateAttesterManager:
		_, err := srv.UpdateAttesterManager(ctx, msg)
		return "-", err
	case *types.MsgUpdateTokenController:
		_, err := srv.UpdateTokenController(ctx, msg)
		return "-", err
	case *types.MsgUpdatePauser:
		_, err := srv.UpdatePauser(ctx, msg)
		return "-", err
	case *types.MsgUpdateMaxMessageBodySize:
		_, err := srv.UpdateMaxMessageBodySize(ctx, msg)
		return "-", err
	case *types.MsgSetMaxBurnAmountPerMessage:
		_, err := srv.SetMaxBurnAmountPerMessage(ctx, msg)
		return "-", err
	case *types.MsgUpdateSignatureThreshold:
		_, err := srv.UpdateSignatureThreshold(ctx, msg)
		return "-", err
	}
	return "-", fmt.Errorf("unknown message")
}

// ---- events ----

func showEvent(ev sdk.Event) string {
	pm, err := sdk.ParseTypedEvent(abci.Event(ev))
	if err != nil {
		return "UNPARSED{" + ev.Type + "}"
	}
	x := func(b []byte) string { return fmt.Sprintf("x%x", b) }
	s := func(b string) string { return fmt.Sprintf("x%x", []byte(b)) }
	name := strings.TrimPrefix(proto.MessageName(pm), "circle.cctp.v1.")
	var f []string
	switch e := pm.(type) {
	case *types.AttesterEnabled:
		f = []string{s(e.Attester)}
	case *types.AttesterDisabled:
		f = []string{s(e.Attester)}
	case *types.SignatureThresholdUpdated:
		f = []string{fmt.Sprint(e.OldSignatureThreshold), fmt.Sprint(e.NewSignatureThreshold)}
	case *types.OwnerUpdated:
		f = []string{s(e.PreviousOwner), s(e.NewOwner)}
	case *types.OwnershipTransferStarted:
		f = []string{s(e.PreviousOwner), s(e.NewOwner)}
	case *types.PauserUpdated:
		f = []string{s(e.PreviousPauser), s(e.NewPauser)}
	case *types.AttesterManagerUpdated:
		f = []string{s(e.PreviousAttesterManager), s(e.NewAttesterManager)}
	case *types.TokenControllerUpdated:
		f = []string{s(e.PreviousTokenController), s(e.NewTokenController)}
	case *types.BurningAndMintingPausedEvent, *types.BurningAndMintingUnpausedEvent, *types.SendingAndReceivingPausedEvent, *types.SendingAndReceivingUnpausedEvent:
		f = nil
	case *types.DepositForBurn:
		f = []string{fmt.Sprint(e.Nonce), s(e.BurnToken), intStr(e.Amount), s(e.Depositor), x(e.MintRecipient), fmt.Sprint(e.DestinationDomain), x(e.DestinationTokenMessenger), x(e.DestinationCaller)}
	case *types.MintAndWithdraw:
		f = []string{x(e.MintRecipient), intStr(e.Amount), s(e.MintToken)}
	case *types.TokenPairLinked:
		f = []string{s(e.LocalToken), fmt.Sprint(e.RemoteDomain), x(e.RemoteToken)}
	case *types.TokenPairUnlinked:
		f = []string{s(e.LocalToken), fmt.Sprint(e.RemoteDomain), x(e.RemoteToken)}
	case *types.MessageSent:
		f = []string{x(e.Message)}
	case *types.MessageReceived:
		f = []string{s(e.Caller), fmt.Sprint(e.SourceDomain), fmt.Sprint(e.Nonce), x(e.Sender), x(e.MessageBody)}
	case *types.MaxMessageBodySizeUpdated:
		f = []string{fmt.Sprint(e.NewMaxMessageBodySize)}
	case *types.RemoteTokenMessengerAdded:
		f = []string{fmt.Sprint(e.Domain), x(e.RemoteTokenMessenger)}
	case *types.RemoteTokenMessengerRemoved:
		f = []string{fmt.Sprint(e.Domain), x(e.RemoteTokenMessenger)}
	case *types.SetBurnLimitPerMessage:
		f = []string{s(e.Token), intStr(e.BurnLimitPerMessage)}
	default:
		return "UNKNOWN{" + name + "}"
	}
	return name + "{" + strings.Join(f, ",") + "}"
}

// ---- deliver: the SDK's branch-and-commit-iff-ok contract, for real ----

type txObs struct {
	out    string
	resp   string
	events []string
	deps   []string
	writes []string // keys written/deleted by the call, even when it failed (C15 observation)
	errTag string   // evidence only: registered error / panic text, never compared
}

func parseFaults(s string) []bool {
	var f []bool
	for _, c := range s {
		if c == '1' {
			f = append(f, true)
		} else if c == '0' {
			f = append(f, false)
		}
	}
	return f
}

// Simulate runs the message on a branch that is discarded whatever the outcome (a gas simulation, a CheckTx, or an
// earlier message of a transaction whose later message fails): nothing of it may influence what follows.
func (w *World) Simulate(m sdk.Msg, faults []bool) (obs txObs) {
	w.discard = true
	defer func() { w.discard = false }()
	return w.Deliver(m, faults)
}

func (w *World) Deliver(m sdk.Msg, faults []bool) (obs txObs) {
	cacheCtx, commit := w.ctx.CacheContext()
	cacheCtx = cacheCtx.WithEventManager(sdk.NewEventManager())
	w.faults = faults
	w.deps = nil
	w.writes = nil
	finish := func() {
		obs.deps = w.deps
		for _, wr := range w.writes {
			obs.writes = append(obs.writes, hex.EncodeToString(wr.key))
		}
		w.faults = nil
	}
	defer func() {
		if r := recover(); r != nil {
			obs = txObs{out: "panic", resp: "-", errTag: errTag(fmt.Errorf("%v", r)) + " #msg=" + errMsg(fmt.Errorf("%v", r))}
			finish()
		}
	}()
	resp, err := callMsg(w.msgSrv, cacheCtx, m)
	if err != nil {
		obs = txObs{out: "err", resp: "-", errTag: errTag(err) + " #msg=" + errMsg(err)}
		finish()
		return obs
	}
	obs = txObs{out: "ok", resp: resp}
	for _, ev := range cacheCtx.EventManager().Events() {
		obs.events = append(obs.events, showEvent(ev))
	}
	if !w.discard {
		commit()
	}
	finish()
	return obs
}

// errMsg: the whole error text, sanitised (evidence only: which rejection branch was taken).
func errMsg(err error) string {
	s := strings.Map(func(r rune) rune {
		if r == ' ' || r == '=' {
			return '_'
		}
		if r < 33 || r > 126 {
			return -1
		}
		return r
	}, err.Error())
	if len(s) > 200 {
		s = s[:200]
	}
	return s
}

func errTag(err error) string {
	s := err.Error()
	if i := strings.LastIndex(s, ": "); i >= 0 {
		s = s[i+2:]
	}
	s = strings.Map(func(r rune) rune {
		if r == ' ' || r == '=' {
			return '_'
		}
		if r < 33 || r > 126 {
			return -1
		}
		return r
	}, s)
	if len(s) > 60 {
		s = s[:60]
	}
	return s
}

func (o txObs) line() string {
	if o.out != "ok" {
		return fmt.Sprintf("out=%s resp=- events=- deps=- writes=- #deps=%s #writes=%s #tag=%s", o.out, joinOr("|", o.deps), joinOr(",", o.writes), o.errTag)
	}
	return fmt.Sprintf("out=ok resp=%s events=%s deps=%s writes=%s", o.resp, joinOr("|", o.events), joinOr("|", o.deps), joinOr(",", o.writes))
}

// ---- genesis ----

func parseGenesis(kv *KV) types.GenesisState {
	gs := types.GenesisState{
		Owner:           kv.str("owner"),
		AttesterManager: kv.str("am"),
		Pauser:          kv.str("pauser"),
		TokenController: kv.str("tc"),
	}
	for _, a := range listItems(kv.get("attesters")) {
		gs.AttesterList = append(gs.AttesterList, types.Attester{Attester: string(unhex(a))})
	}
	for _, it := range listItems(kv.get("limits")) {
		p := strings.Split(it, ":")
		if len(p) == 2 {
			amt, _ := math.NewIntFromString(p[1])
			gs.PerMessageBurnLimitList = append(gs.PerMessageBurnLimitList, types.PerMessageBurnLimit{Denom: string(unhex(p[0])), Amount: amt})
		}
	}
	switch kv.get("burnPaused") {
	case "0":
		gs.BurningAndMintingPaused = &types.BurningAndMintingPaused{Paused: false}
	case "1":
		gs.BurningAndMintingPaused = &types.BurningAndMintingPaused{Paused: true}
	}
	switch kv.get("sendPaused") {
	case "0":
		gs.SendingAndReceivingMessagesPaused = &types.SendingAndReceivingMessagesPaused{Paused: false}
	case "1":
		gs.SendingAndReceivingMessagesPaused = &types.SendingAndReceivingMessagesPaused{Paused: true}
	}
	if s := kv.get("maxBody"); s != "-" && s != "" {
		gs.MaxMessageBodySize = &types.MaxMessageBodySize{Amount: kv.u64("maxBody")}
	}
	if p := strings.Split(kv.get("nextNonce"), ":"); len(p) == 2 {
		d, _ := strconv.ParseUint(p[0], 10, 32)
		n, _ := strconv.ParseUint(p[1], 10, 64)
		gs.NextAvailableNonce = &types.Nonce{SourceDomain: uint32(d), Nonce: n}
	}
	if s := kv.get("threshold"); s != "-" && s != "" {
		gs.SignatureThreshold = &types.SignatureThreshold{Amount: kv.u32("threshold")}
	}
	for _, it := range listItems(kv.get("pairs")) {
		p := strings.Split(it, ":")
		if len(p) == 3 {
			d, _ := strconv.ParseUint(p[0], 10, 32)
			gs.TokenPairList = append(gs.TokenPairList, types.TokenPair{RemoteDomain: uint32(d), RemoteToken: unhex(p[1]), LocalToken: string(unhex(p[2]))})
		}
	}
	for _, it := range listItems(kv.get("used")) {
		p := strings.Split(it, ":")
		if len(p) == 2 {
			d, _ := strconv.ParseUint(p[0], 10, 32)
			n, _ := strconv.ParseUint(p[1], 10, 64)
			gs.UsedNoncesList = append(gs.UsedNoncesList, types.Nonce{SourceDomain: uint32(d), Nonce: n})
		}
	}
	for _, it := range listItems(kv.get("messengers")) {
		p := strings.Split(it, ":")
		if len(p) == 2 {
			d, _ := strconv.ParseUint(p[0], 10, 32)
			gs.TokenMessengerList = append(gs.TokenMessengerList, types.RemoteTokenMessenger{DomainId: uint32(d), Address: unhex(p[1])})
		}
	}
	return gs
}

func showGenesis(g *types.GenesisState) string {
	ob := func(b *bool) string {
		if b == nil {
			return "-"
		}
		return b01(*b)
	}
	var bp, sp *bool
	if g.BurningAndMintingPaused != nil {
		bp = &g.BurningAndMintingPaused.Paused
	}
	if g.SendingAndReceivingMessagesPaused != nil {
		sp = &g.SendingAndReceivingMessagesPaused.Paused
	}
	var att, lim, pairs, used, msgrs []string
	for _, a := range g.AttesterList {
		att = append(att, fmt.Sprintf("%x", []byte(a.Attester)))
	}
	for _, l := range g.PerMessageBurnLimitList {
		lim = append(lim, fmt.Sprintf("%x:%s", []byte(l.Denom), intStr(l.Amount)))
	}
	for _, p := range g.TokenPairList {
		pairs = append(pairs, fmt.Sprintf("%d:%x:%x", p.RemoteDomain, p.RemoteToken, []byte(p.LocalToken)))
	}
	for _, u := range g.UsedNoncesList {
		used = append(used, fmt.Sprintf("%d:%d", u.SourceDomain, u.Nonce))
	}
	for _, m := range g.TokenMessengerList {
		msgrs = append(msgrs, fmt.Sprintf("%d:%x", m.DomainId, m.Address))
	}
	mb, nn, th := "-", "-", "-"
	if g.MaxMessageBodySize != nil {
		mb = fmt.Sprint(g.MaxMessageBodySize.Amount)
	}
	if g.NextAvailableNonce != nil {
		nn = fmt.Sprintf("%d:%d", g.NextAvailableNonce.SourceDomain, g.NextAvailableNonce.Nonce)
	}
	if g.SignatureThreshold != nil {
		th = fmt.Sprint(g.SignatureThreshold.Amount)
	}
	return fmt.Sprintf("owner=%x am=%x pauser=%x tc=%x attesters=%s limits=%s burnPaused=%s sendPaused=%s maxBody=%s nextNonce=%s threshold=%s pairs=%s used=%s messengers=%s",
		[]byte(g.Owner), []byte(g.AttesterManager), []byte(g.Pauser), []byte(g.TokenController),
		joinOr(",", att), joinOr(",", lim), ob(bp), ob(sp), mb, nn, th, joinOr(",", pairs), joinOr(",", used), joinOr(",", msgrs))
}

// ---- queries ----

func parsePage(kv *KV) *query.PageRequest {
	if kv.get("page") == "nil" {
		return nil
	}
	return &query.PageRequest{Key: kv.bytes("key"), Offset: kv.u64("offset"), Limit: kv.u64("limit"), CountTotal: kv.get("countTotal") == "1", Reverse: kv.get("reverse") == "1"}
}

func showPage(items []string, p *query.PageResponse) string {
	nk, tot := "", uint64(0)
	if p != nil {
		nk = hex.EncodeToString(p.NextKey)
		tot = p.Total
	}
	return fmt.Sprintf("page:[%s]:next=%s:total=%d", strings.Join(items, ";"), nk, tot)
}

func (w *World) Query(name string, kv *KV) (line string) {
	defer func() {
		if r := recover(); r != nil {
			line = "out=panic #tag=" + errTag(fmt.Errorf("%v", r)) + " #msg=" + errMsg(fmt.Errorf("%v", r))
		}
	}()
	nilReq := kv.get("nil") == "1"
	k := w.k
	ctx := w.ctx
	var resp string
	var err error
	w.writes = nil
	switch name {
	case "Attester":
		var rq *types.QueryGetAttesterRequest
		if !nilReq {
			rq = &types.QueryGetAttesterRequest{Attester: kv.str("attester")}
		}
		r, e := k.Attester(ctx, rq)
		err = e
		if e == nil {
			resp = showAttester(r.Attester)
		}
	case "Attesters":
		var rq *types.QueryAllAttestersRequest
		if !nilReq {
			rq = &types.QueryAllAttestersRequest{Pagination: parsePage(kv)}
		}
		r, e := k.Attesters(ctx, rq)
		err = e
		if e == nil {
			var it []string
			for _, a := range r.Attesters {
				it = append(it, showAttester(a))
			}
			resp = showPage(it, r.Pagination)
		}
	case "PerMessageBurnLimit":
		var rq *types.QueryGetPerMessageBurnLimitRequest
		if !nilReq {
			rq = &types.QueryGetPerMessageBurnLimitRequest{Denom: kv.str("denom")}
		}
		r, e := k.PerMessageBurnLimit(ctx, rq)
		err = e
		if e == nil {
			resp = showLimit(r.BurnLimit)
		}
	case "PerMessageBurnLimits":
		var rq *types.QueryAllPerMessageBurnLimitsRequest
		if !nilReq {
			rq = &types.QueryAllPerMessageBurnLimitsRequest{Pagination: parsePage(kv)}
		}
		r, e := k.PerMessageBurnLimits(ctx, rq)
		err = e
		if e == nil {
			var it []string
			for _, a := range r.BurnLimits {
				it = append(it, showLimit(a))
			}
			resp = showPage(it, r.Pagination)
		}
	case "BurningAndMintingPaused":
		var rq *types.QueryGetBurningAndMintingPausedRequest
		if !nilReq {
			rq = &types.QueryGetBurningAndMintingPausedRequest{}
		}
		r, e := k.BurningAndMintingPaused(ctx, rq)
		err = e
		if e == nil {
			resp = "flag:" + b01(r.Paused.Paused)
		}
	case "SendingAndReceivingMessagesPaused":
		var rq *types.QueryGetSendingAndReceivingMessagesPausedRequest
		if !nilReq {
			rq = &types.QueryGetSendingAndReceivingMessagesPausedRequest{}
		}
		r, e := k.SendingAndReceivingMessagesPaused(ctx, rq)
		err = e
		if e == nil {
			resp = "flag:" + b01(r.Paused.Paused)
		}
	case "MaxMessageBodySize":
		var rq *types.QueryGetMaxMessageBodySizeRequest
		if !nilReq {
			rq = &types.QueryGetMaxMessageBodySizeRequest{}
		}
		r, e := k.MaxMessageBodySize(ctx, rq)
		err = e
		if e == nil {
			resp = fmt.Sprintf("size:%d", r.Amount.Amount)
		}
	case "NextAvailableNonce":
		var rq *types.QueryGetNextAvailableNonceRequest
		if !nilReq {
			rq = &types.QueryGetNextAvailableNonceRequest{}
		}
		r, e := k.NextAvailableNonce(ctx, rq)
		err = e
		if e == nil {
			resp = showNonce(r.Nonce)
		}
	case "SignatureThreshold":
		var rq *types.QueryGetSignatureThresholdRequest
		if !nilReq {
			rq = &types.QueryGetSignatureThresholdRequest{}
		}
		r, e := k.SignatureThreshold(ctx, rq)
		err = e
		if e == nil {
			resp = fmt.Sprintf("thr:%d", r.Amount.Amount)
		}
	case "TokenPair":
		var rq *types.QueryGetTokenPairRequest
		if !nilReq {
			rq = &types.QueryGetTokenPairRequest{RemoteDomain: kv.u32("domain"), RemoteToken: kv.str("token")}
		}
		r, e := k.TokenPair(ctx, rq)
		err = e
		if e == nil {
			resp = showPair(r.Pair)
		}
	case "TokenPairs":
		var rq *types.QueryAllTokenPairsRequest
		if !nilReq {
			rq = &types.QueryAllTokenPairsRequest{Pagination: parsePage(kv)}
		}
		r, e := k.TokenPairs(ctx, rq)
		err = e
		if e == nil {
			var it []string
			for _, a := range r.TokenPairs {
				it = append(it, showPair(a))
			}
			resp = showPage(it, r.Pagination)
		}
	case "UsedNonce":
		var rq *types.QueryGetUsedNonceRequest
		if !nilReq {
			rq = &types.QueryGetUsedNonceRequest{SourceDomain: kv.u32("domain"), Nonce: kv.u64("nonce")}
		}
		r, e := k.UsedNonce(ctx, rq)
		err = e
		if e == nil {
			resp = showNonce(r.Nonce)
		}
	case "UsedNonces":
		var rq *types.QueryAllUsedNoncesRequest
		if !nilReq {
			rq = &types.QueryAllUsedNoncesRequest{Pagination: parsePage(kv)}
		}
		r, e := k.UsedNonces(ctx, rq)
		err = e
		if e == nil {
			var it []string
			for _, a := range r.UsedNonces {
				it = append(it, showNonce(a))
			}
			resp = showPage(it, r.Pagination)
		}
	case "RemoteTokenMessenger":
		var rq *types.QueryRemoteTokenMessengerRequest
		if !nilReq {
			rq = &types.QueryRemoteTokenMessengerRequest{DomainId: kv.u32("domain")}
		}
		r, e := k.RemoteTokenMessenger(ctx, rq)
		err = e
		if e == nil {
			resp = showMessenger(r.RemoteTokenMessenger)
		}
	case "RemoteTokenMessengers":
		var rq *types.QueryRemoteTokenMessengersRequest
		if !nilReq {
			rq = &types.QueryRemoteTokenMessengersRequest{Pagination: parsePage(kv)}
		}
		r, e := k.RemoteTokenMessengers(ctx, rq)
		err = e
		if e == nil {
			var it []string
			for _, a := range r.RemoteTokenMessengers {
				it = append(it, showMessenger(a))
			}
			resp = showPage(it, r.Pagination)
		}
	case "Roles":
		var rq *types.QueryRolesRequest
		if !nilReq {
			rq = &types.QueryRolesRequest{}
		}
		r, e := k.Roles(ctx, rq)
		err = e
		if e == nil {
			resp = fmt.Sprintf("roles:%x:%x:%x:%x", []byte(r.Owner), []byte(r.AttesterManager), []byte(r.Pauser), []byte(r.TokenController))
		}
	case "BurnMessageVersion":
		var rq *types.QueryBurnMessageVersionRequest
		if !nilReq {
			rq = &types.QueryBurnMessageVersionRequest{}
		}
		r, e := k.BurnMessageVersion(ctx, rq)
		err = e
		if e == nil {
			resp = fmt.Sprintf("num:%d", r.Version)
		}
	case "LocalMessageVersion":
		var rq *types.QueryLocalMessageVersionRequest
		if !nilReq {
			rq = &types.QueryLocalMessageVersionRequest{}
		}
		r, e := k.LocalMessageVersion(ctx, rq)
		err = e
		if e == nil {
			resp = fmt.Sprintf("num:%d", r.Version)
		}
	case "LocalDomain":
		var rq *types.QueryLocalDomainRequest
		if !nilReq {
			rq = &types.QueryLocalDomainRequest{}
		}
		r, e := k.LocalDomain(ctx, rq)
		err = e
		if e == nil {
			resp = fmt.Sprintf("num:%d", r.DomainId)
		}
	default:
		return "bad-op"
	}
	wr := ""
	if len(w.writes) > 0 {
		var ks []string
		for _, x := range w.writes {
			ks = append(ks, hex.EncodeToString(x.key))
		}
		wr = " #qwrites=" + strings.Join(ks, ",")
	}
	if err != nil {
		return "out=err #tag=" + errTag(err) + " #msg=" + errMsg(err) + wr
	}
	return "out=ok resp=" + resp + wr
}

// ---- attestation oracle (computed on the inputs the model's specification names) ----

func normV(sig []byte) []byte {
	c := append([]byte{}, sig...)
	if len(c) > 0 && (c[len(c)-1] == 27 || c[len(c)-1] == 28) {
		c[len(c)-1] -= 27
	}
	return c
}

func ecrEntries(message, att []byte) string {
	digest := crypto.Keccak256(message)
	// one message in five carries NO entries: the model then recovers the keys with its own secp256k1
	// (lean/Cctp/Native/Secp256k1.lean), so on those ops the comparison is between the implementation and a model that
	// depends on nothing the implementation computed
	if digest[0]%5 == 0 {
		return ""
	}
	seen := map[string]bool{}
	var ents []string
	for i := 0; (i+1)*65 <= len(att); i++ {
		sig := normV(att[i*65 : (i+1)*65])
		key := hex.EncodeToString(sig)
		if seen[key] {
			continue
		}
		seen[key] = true
		pub, err := crypto.Ecrecover(digest, sig)
		r := "ERR"
		if err == nil {
			r = hex.EncodeToString(pub)
		}
		ents = append(ents, fmt.Sprintf("%x:%s:%s", digest, key, r))
	}
	return joinOr(",", ents)
}

// ---- Exec ----

// Session executes op lines against a World.
type Session struct {
	w         *World
	headerSet bool
	envStats  map[string]int // how often each environment variant was in force (evidence only; per session: sessions run concurrently in C18's replays)
	snaps map[string]map[string]string
}

func (s *Session) snapshot() map[string]string {
	m := map[string]string{}
	it := s.w.ctx.KVStore(s.w.cctpKey).Iterator(nil, nil)
	defer it.Close()
	for ; it.Valid(); it.Next() {
		m[hex.EncodeToString(it.Key())] = s.w.decodeVal(it.Key(), it.Value())
	}
	return m
}

// vary the block header per op: no property lets a result depend on block height, block time or chain id beyond the
// stored state, and the model ignores them, so any such dependence shows up as a disagreement.  The choice is a function
// of the op line itself (FNV hash), so it is stable under shrinking and identical across replays.
var headerHeights = []int64{0, 1, 2, 100, 999, 1000, 1 << 20, 1<<31 - 1, 1 << 31, 1 << 32, 1<<62 + 1, 1<<63 - 1}
var headerTimes = []int64{0, 1, 86399, 86400, 1700000000, 1767225600, 2000000000, 253402300799}

var expiredGoCtx, cancelledGoCtx = func() (context.Context, context.Context) {
	a, _ := context.WithDeadline(context.Background(), time.Unix(1, 0)) //nolint:govet
	b, cancel := context.WithCancel(context.Background())
	cancel()
	return a, b
}()

func (s *Session) envCount(k string) {
	if s.envStats == nil {
		s.envStats = map[string]int{}
	}
	s.envStats[k]++
}

func (s *Session) varyHeader(op Op) {
	if s.w == nil {
		return
	}
	h := fnv.New64a()
	h.Write([]byte(op.String()))
	x := h.Sum64()
	// the Go context under the sdk.Context: one op in eight runs under a context whose deadline has passed, one in eight
	// under a cancelled one (a gRPC query whose client went away, a node shutting down).  Chain state does not depend on
	// either, so no result may (C18: "no result depends on wall-clock time").
	switch (x >> 56) % 8 {
	case 0:
		s.w.ctx = s.w.ctx.WithContext(expiredGoCtx)
		s.envCount("env:go-context-deadline-passed/-")
	case 1:
		s.w.ctx = s.w.ctx.WithContext(cancelledGoCtx)
		s.envCount("env:go-context-cancelled/-")
	default:
		s.w.ctx = s.w.ctx.WithContext(context.Background())
		s.envCount("env:go-context-live/-")
	}
	// execution mode: messages are delivered by FinalizeBlock (ExecModeFinalize); the repository's own tests run under the
	// zero value (ExecModeCheck), so one op in four keeps that.  Nothing in the store depends on the mode, so no result may.
	if (x>>52)%4 == 0 {
		s.w.ctx = s.w.ctx.WithExecMode(sdk.ExecModeCheck)
		s.envCount("env:exec-mode-zero/-")
	} else {
		s.w.ctx = s.w.ctx.WithExecMode(sdk.ExecModeFinalize)
		s.envCount("env:exec-mode-finalize/-")
	}
	// a "block" is a run of ops under one header (transactions of one block share height and time, and so do the
	// messages of one transaction): a new header starts at about one op in four, never inside an open transaction
	if s.headerSet && (s.w.inBatch || x%4 != 0 || op.KV.get("blk") == "same") {
		return
	}
	s.headerSet = true
	s.envCount("env:blocks/-")
	x >>= 2
	height := headerHeights[x%uint64(len(headerHeights))]
	t := time.Unix(headerTimes[(x>>16)%uint64(len(headerTimes))], int64((x>>32)%1000)*1000000).UTC()
	chain := []string{"", "noble-1", "grand-1", "test"}[(x>>48)%4]
	s.w.ctx = s.w.ctx.WithBlockHeight(height).WithBlockTime(t).WithChainID(chain).
		WithHeaderInfo(header.Info{Height: height, Time: t, ChainID: chain})
}

func (s *Session) Exec(op Op) (line string) {
	kv := op.KV
	if op.Kind != "config" {
		s.varyHeader(op)
	}
	switch op.Kind {
	case "config":
		s.w = NewWorld(kv.str("mintingDenom"))
		return "out=ok"
	case "fund":
		amt, _ := math.NewIntFromString(kv.get("amount"))
		s.w.Fund(kv.bytes("addr"), kv.str("denom"), amt)
		return "out=ok"
	case "genesis-validate":
		gs := parseGenesis(kv)
		defer func() {
			if r := recover(); r != nil {
				line = "out=panic #msg=" + errMsg(fmt.Errorf("%v", r))
			}
		}()
		// through the module's own entry point (module.go): JSON-encode, AppModuleBasic.ValidateGenesis
		bz, jerr := s.w.jsonCdc().MarshalJSON(&gs)
		if jerr != nil {
			return "harness-json-error " + errMsg(jerr)
		}
		if err := (cctp.AppModuleBasic{}).ValidateGenesis(s.w.jsonCdc(), nil, bz); err != nil {
			return "out=err #tag=" + errTag(err) + " #msg=" + errMsg(err)
		}
		return "out=ok"
	case "genesis-init":
		gs := parseGenesis(kv)
		cacheCtx, commit := s.w.ctx.CacheContext()
		defer func() {
			if r := recover(); r != nil {
				line = "out=panic #msg=" + errMsg(fmt.Errorf("%v", r))
			}
		}()
		s.w.writes = nil
		bz, jerr := s.w.jsonCdc().MarshalJSON(&gs)
		if jerr != nil {
			return "harness-json-error " + errMsg(jerr)
		}
		cctp.NewAppModule(s.w.k).InitGenesis(cacheCtx, s.w.jsonCdc(), bz)
		commit()
		return "out=ok"
	case "genesis-default":
		// AppModuleBasic.DefaultGenesis (module.go) -> types.DefaultGenesis, through its JSON form
		defer func() {
			if r := recover(); r != nil {
				line = "out=panic #msg=" + errMsg(fmt.Errorf("%v", r))
			}
		}()
		var g types.GenesisState
		s.w.jsonCdc().MustUnmarshalJSON((cctp.AppModuleBasic{}).DefaultGenesis(s.w.jsonCdc()), &g)
		return "out=ok " + showGenesis(&g)
	case "genesis-export":
		defer func() {
			if r := recover(); r != nil {
				line = "out=panic #msg=" + errMsg(fmt.Errorf("%v", r))
			}
		}()
		s.w.writes = nil
		var g types.GenesisState
		s.w.jsonCdc().MustUnmarshalJSON(cctp.NewAppModule(s.w.k).ExportGenesis(s.w.ctx, s.w.jsonCdc()), &g)
		wr := ""
		if len(s.w.writes) > 0 {
			wr = fmt.Sprintf(" #qwrites=%d", len(s.w.writes))
		}
		return "out=ok " + showGenesis(&g) + wr
	case "tx":
		m := buildMsg(op.Sub, kv)
		if m == nil {
			return "bad-op"
		}
		o := s.w.Deliver(m, parseFaults(kv.get("faults")))
		if s.w.inBatch && o.out != "ok" {
			s.w.batchFailed = true
		}
		return o.line()
	case "begin":
		return s.w.Begin()
	case "end":
		return s.w.End()
	case "sim":
		m := buildMsg(op.Sub, kv)
		if m == nil {
			return "bad-op"
		}
		return s.w.Simulate(m, parseFaults(kv.get("faults"))).line()
	case "query":
		return s.w.Query(op.Sub, kv)
	case "verify":
		defer func() {
			if r := recover(); r != nil {
				line = "out=panic #msg=" + errMsg(fmt.Errorf("%v", r))
			}
		}()
		var atts []types.Attester
		for _, a := range listItems(kv.get("attesters")) {
			atts = append(atts, types.Attester{Attester: string(unhex(a))})
		}
		att := append([]byte{}, kv.bytes("attestation")...)
		if err := keeper.VerifyAttestationSignatures(kv.bytes("message"), att, atts, kv.u32("threshold")); err != nil {
			return "out=err #tag=" + errTag(err) + " #msg=" + errMsg(err)
		}
		return "out=ok"
	case "msg-parse":
		defer func() {
			if r := recover(); r != nil {
				line = "out=panic #msg=" + errMsg(fmt.Errorf("%v", r))
			}
		}()
		m, err := new(types.Message).Parse(kv.bytes("bz"))
		if err != nil {
			return "out=err #msg=" + errMsg(err)
		}
		return fmt.Sprintf("out=ok ver=%d src=%d dst=%d nonce=%d sender=%x recipient=%x caller=%x body=%x", m.Version, m.SourceDomain, m.DestinationDomain, m.Nonce, m.Sender, m.Recipient, m.DestinationCaller, m.MessageBody)
	case "msg-bytes":
		defer func() {
			if r := recover(); r != nil {
				line = "out=panic #msg=" + errMsg(fmt.Errorf("%v", r))
			}
		}()
		m := types.Message{Version: kv.u32("ver"), SourceDomain: kv.u32("src"), DestinationDomain: kv.u32("dst"), Nonce: kv.u64("nonce"), Sender: kv.bytes("sender"), Recipient: kv.bytes("recipient"), DestinationCaller: kv.bytes("caller"), MessageBody: kv.bytes("body")}
		bz, err := m.Bytes()
		if err != nil {
			return "out=err #msg=" + errMsg(err)
		}
		return fmt.Sprintf("out=ok bz=%x", bz)
	case "burn-parse":
		defer func() {
			if r := recover(); r != nil {
				line = "out=panic #msg=" + errMsg(fmt.Errorf("%v", r))
			}
		}()
		b, err := new(types.BurnMessage).Parse(kv.bytes("bz"))
		if err != nil {
			return "out=err #msg=" + errMsg(err)
		}
		return fmt.Sprintf("out=ok ver=%d token=%x recipient=%x amount=%s sender=%x", b.Version, b.BurnToken, b.MintRecipient, intStr(b.Amount), b.MessageSender)
	case "burn-bytes":
		defer func() {
			if r := recover(); r != nil {
				line = "out=panic #msg=" + errMsg(fmt.Errorf("%v", r))
			}
		}()
		b := types.BurnMessage{Version: kv.u32("ver"), BurnToken: kv.bytes("token"), MintRecipient: kv.bytes("recipient"), Amount: kv.optInt("amount"), MessageSender: kv.bytes("sender")}
		bz, err := b.Bytes()
		if err != nil {
			return "out=err #msg=" + errMsg(err)
		}
		return fmt.Sprintf("out=ok bz=%x", bz)
	case "cli-parse":
		defer func() {
			if r := recover(); r != nil {
				line = "out=panic #msg=" + errMsg(fmt.Errorf("%v", r))
			}
		}()
		bz, err := cli.ParseAddressForVerif(kv.str("s"))
		if err != nil {
			return "out=err #msg=" + errMsg(err)
		}
		return fmt.Sprintf("out=ok bz=%x", bz)
	case "key":
		var k []byte
		switch kv.get("fn") {
		case "attester":
			k = append(types.KeyPrefix(types.AttesterKeyPrefix), types.AttesterKey(kv.bytes("a"))...)
		case "limit":
			k = append(types.KeyPrefix(types.PerMessageBurnLimitKeyPrefix), types.PerMessageBurnLimitKey(kv.str("a"))...)
		case "usedNonce":
			k = append(types.KeyPrefix(types.UsedNonceKeyPrefix), types.UsedNonceKey(kv.u64("nonce"), kv.u32("domain"))...)
		case "tokenPair":
			k = append(types.KeyPrefix(types.TokenPairKeyPrefix), types.TokenPairKey(kv.u32("domain"), kv.bytes("a"))...)
		case "messenger":
			k = append(types.KeyPrefix(types.RemoteTokenMessengerKeyPrefix), types.RemoteTokenMessengerKey(kv.u32("domain"))...)
		}
		return fmt.Sprintf("out=ok key=%x", k)
	case "ext":
		a := kv.bytes("a")
		r := "?"
		switch kv.get("fn") {
		case "keccak":
			r = hex.EncodeToString(crypto.Keccak256(a))
		case "fromHex":
			r = hex.EncodeToString(common.FromHex(string(a)))
		case "accAddr":
			b, err := sdk.AccAddressFromBech32(string(a))
			if err != nil {
				r = "ERR"
			} else {
				r = hex.EncodeToString(b)
			}
		case "bech32":
			b, err := bech32.ConvertAndEncode(bech32Prefix, a)
			if err != nil {
				r = "ERR"
			} else {
				r = hex.EncodeToString([]byte(b))
			}
		case "ecrecover":
			pub, err := safeEcrecover(a, kv.bytes("b"))
			if err != nil {
				r = "ERR"
			} else {
				r = hex.EncodeToString(pub)
			}
		case "denom":
			r = b01(sdk.ValidateDenom(string(a)) == nil)
		case "base58":
			r = hex.EncodeToString(base58.Decode(string(a)))
		case "lower":
			r = hex.EncodeToString([]byte(strings.ToLower(string(a))))
		case "fold":
			r = b01(strings.EqualFold(string(a), kv.str("b")))
		case "tokenPadded":
			b, err := types.RemoteTokenPadded(string(a))
			if err != nil {
				r = "ERR"
			} else {
				r = hex.EncodeToString(b)
			}
		}
		return "out=ok r=" + r
	case "dump":
		return s.w.Dump()
	case "snap":
		if s.snaps == nil {
			s.snaps = map[string]map[string]string{}
		}
		s.snaps[kv.get("id")] = s.snapshot()
		return "out=ok"
	case "snapdiff":
		a, b := s.snaps[kv.get("a")], s.snaps[kv.get("b")]
		var ks []string
		for k, v := range a {
			if bv, ok := b[k]; !ok || bv != v {
				ks = append(ks, k)
			}
		}
		for k := range b {
			if _, ok := a[k]; !ok {
				ks = append(ks, k)
			}
		}
		sort.Strings(ks)
		return "out=ok diff=" + joinOr(",", ks)
	case "#":
		return "#"
	}
	return "bad-op"
}

// safeEcrecover: crypto.Ecrecover with a panic (none is expected) turned into an error.
func safeEcrecover(hash, sig []byte) (pub []byte, err error) {
	defer func() {
		if r := recover(); r != nil {
			err = fmt.Errorf("panic: %v", r)
		}
	}()
	return crypto.Ecrecover(hash, sig)
}
