package main

// Multi-message transactions (baseapp.runTx): `begin`, messages, `end`.  The messages run on ONE branch, each seeing the
// writes of the earlier ones; the branch is committed iff every message succeeded.  The deterministic preamble walks through
// the cases in which the result differs from delivering the same messages one transaction each.

import (
	"fmt"
	"math/big"

	"github.com/circlefin/noble-cctp/x/cctp/types"
)

func init() { scenarios["batch"] = scnBatch }

func (g *Gen) q(name string) { g.emit(Op{Kind: "query", Sub: name, KV: newKV()}) }

func (g *Gen) recvBurn(from string, src uint32, nonce uint64, tok []byte, amount int64, o attOpts) {
	body := buildBurnBody(0, tok, pad32(g.acctRaw[1]), big.NewInt(amount), g.rand32())
	msg := buildMessage(0, src, 4, nonce, messengerAddr(src), types.PaddedModuleAddress, make([]byte, 32), body)
	g.tx("ReceiveMessage", g.opReceive(from, msg, o))
}

func (g *Gen) recvOther(from string, src uint32, nonce uint64) []byte {
	msg := buildMessage(0, src, 4, nonce, g.rand32(), g.otherRecipient(), make([]byte, 32), g.randBytes(10))
	g.tx("ReceiveMessage", g.opReceive(from, msg, attOpts{}))
	return msg
}

func (g *Gen) failingSend() {
	ty, kv := g.opSend(g.acct[4], false)
	kv.set("recipient", hx(make([]byte, 32))) // all-zero recipient: rejected
	g.tx(ty, kv)
}

func (g *Gen) batchPreamble() {
	sim := g.simRate
	g.simRate = 0
	defer func() { g.simRate = sim }()
	a := g.acct

	// 1. several producers in one transaction: consecutive nonces, all committed
	g.beginBatch(3)
	g.validFlow(0)
	g.validFlow(2)
	g.validFlow(1)
	g.q("NextAvailableNonce")

	// 2. a deposit followed by a failing message: the burn, the debit and the nonce are undone with the transaction,
	//    and the next deposit draws the same nonce again
	g.beginBatch(2)
	g.validFlow(2)
	g.q("NextAvailableNonce") // on the branch: already advanced
	g.failingSend()
	g.q("NextAvailableNonce")
	g.validFlow(2)

	// 3. the same attested message twice in one transaction: the second fails, so the first is undone with it; the pair is
	//    still free afterwards, is consumed by the next single receive, and never again
	n := g.freshNonce(0)
	msg := g.inboundBurn(0, n, big.NewInt(5), 1)
	g.beginBatch(2)
	g.tx("ReceiveMessage", g.opReceive(a[1], msg, attOpts{}))
	g.tx("ReceiveMessage", g.opReceive(a[2], msg, attOpts{legacyV: 1}))
	g.emit(Op{Kind: "query", Sub: "UsedNonce", KV: newKV().set("domain", "0").set("nonce", fmt.Sprint(n))})
	g.tx("ReceiveMessage", g.opReceive(a[1], msg, attOpts{}))
	g.tx("ReceiveMessage", g.opReceive(a[1], msg, attOpts{}))

	// 4. two different pairs in one transaction: both consumed; a later transaction that repeats one of them fails as a whole
	n1, n2 := g.freshNonce(1), g.freshNonce(3)
	g.beginBatch(2)
	g.recvBurn(a[1], 1, n1, token(0), 7, attOpts{})
	other := g.recvOther(a[2], 3, n2)
	g.beginBatch(2)
	g.validFlow(0)
	g.tx("ReceiveMessage", g.opReceive(a[2], other, attOpts{}))
	g.q("NextAvailableNonce")

	// 5. nomination and acceptance in one transaction; the old owner is out at once
	g.beginBatch(3)
	g.tx("UpdateOwner", newKV().set("from", hs(g.role("owner"))).set("new", hs(a[4])))
	g.tx("AcceptOwner", newKV().set("from", hs(a[4])))
	g.tx("UpdatePauser", newKV().set("from", hs(a[4])).set("new", hs(a[2])))
	g.tx("UpdatePauser", newKV().set("from", hs(a[0])).set("new", hs(a[0])))
	g.q("Roles")

	// 6. the same, but the transaction fails at the end: nobody was nominated, nothing was accepted
	owner := g.role("owner")
	g.beginBatch(3)
	g.tx("UpdateOwner", newKV().set("from", hs(owner)).set("new", hs(a[5])))
	g.tx("AcceptOwner", newKV().set("from", hs(a[5])))
	g.failingSend()
	g.q("Roles")
	g.tx("AcceptOwner", newKV().set("from", hs(a[5])))
	g.tx("UpdateMaxMessageBodySize", newKV().set("from", hs(owner)).set("size", "8000"))

	// 7. pause + deposit in one transaction: the deposit fails, so the pause never happened
	g.beginBatch(2)
	g.pauseTx("BurningAndMinting", true)
	g.validFlow(2)
	g.q("BurningAndMintingPaused")
	g.validFlow(2)
	// 8. pause + unpause + deposit: fine
	g.beginBatch(3)
	g.pauseTx("SendingAndReceivingMessages", true)
	g.pauseTx("SendingAndReceivingMessages", false)
	g.validFlow(3)

	// 9. link a token pair and use it in the same transaction; unlink + use fails and leaves the pair linked
	tc := g.role("tc")
	g.beginBatch(2)
	g.tx("LinkTokenPair", newKV().set("from", hs(tc)).set("domain", "0").set("token", hx(token(11))).set("localToken", hs(mintDenom)))
	g.recvBurn(a[1], 0, g.freshNonce(0), token(11), 9, attOpts{})
	g.beginBatch(2)
	g.tx("UnlinkTokenPair", newKV().set("from", hs(tc)).set("domain", "0").set("token", hx(token(11))).set("localToken", hs(mintDenom)))
	g.recvBurn(a[1], 0, g.freshNonce(0), token(11), 9, attOpts{})
	g.recvBurn(a[1], 0, g.freshNonce(0), token(11), 9, attOpts{})

	// 10. a burn limit and a deposit above / at it in the same transaction
	g.beginBatch(2)
	g.tx("SetMaxBurnAmountPerMessage", newKV().set("from", hs(tc)).set("localToken", hs(mintDenom)).set("amount", "40"))
	ty, kv := g.opDeposit(a[1], "41", false)
	g.tx(ty, kv)
	g.beginBatch(2)
	g.tx("SetMaxBurnAmountPerMessage", newKV().set("from", hs(tc)).set("localToken", hs(mintDenom)).set("amount", "40"))
	ty, kv = g.opDeposit(a[1], "40", false)
	g.tx(ty, kv)
	g.tx("SetMaxBurnAmountPerMessage", newKV().set("from", hs(tc)).set("localToken", hs(mintDenom)).set("amount", "1000000000000000"))

	// 11. attester rotation inside a transaction: the receive that follows is judged by the set as the earlier messages left it
	am := g.role("am")
	spare := -1
	en := map[int]bool{}
	for _, k := range g.enabledKeys() {
		en[k] = true
	}
	for k := range g.keys {
		if !en[k] {
			spare = k
			break
		}
	}
	if spare >= 0 {
		t := int(g.threshold())
		g.beginBatch(3)
		g.tx("EnableAttester", newKV().set("from", hs(am)).set("attester", hs(g.pubHex[spare])))
		g.tx("UpdateSignatureThreshold", newKV().set("from", hs(am)).set("amount", fmt.Sprint(t+1)))
		g.recvOther(a[3], 1, g.freshNonce(1)) // attested by t+1 signers
		// and an attestation by the old quorum only, in the same transaction as the rotation that outdates it
		stale := g.enabledKeys()
		if len(stale) > t {
			stale = stale[:t]
		}
		g.beginBatch(2)
		g.tx("UpdateSignatureThreshold", newKV().set("from", hs(am)).set("amount", fmt.Sprint(t)))
		m := buildMessage(0, 1, 4, g.freshNonce(1), g.rand32(), g.otherRecipient(), make([]byte, 32), nil)
		g.tx("ReceiveMessage", g.opReceive(a[3], m, attOpts{signers: stale[:max(1, t-1)]}))
		g.q("SignatureThreshold")
	}

	// 12. a dependency failure in the LAST message undoes the funds moved by the first
	g.beginBatch(2)
	g.validFlow(2)
	ty, kv = g.opDeposit(a[2], "5", false)
	g.tx(ty, kv.set("faults", "01"))
	g.beginBatch(2)
	g.recvBurn(a[1], 0, g.freshNonce(0), token(0), 3, attOpts{})
	ty, kv = g.opDeposit(a[2], "5", true)
	g.tx(ty, kv.set("faults", "1"))

	// 13. a simulated message inside a transaction leaves the branch alone
	g.beginBatch(2)
	g.validFlow(0)
	_, kv = g.opSend(a[1], false)
	g.emit(Op{Kind: "sim", Sub: "SendMessage", KV: kv.set("faults", "-")})
	g.validFlow(0)
	g.q("NextAvailableNonce")
	g.emit(Op{Kind: "genesis-export", KV: newKV()})
}

// discardedChange: state that lives outside the store (a memo on the keeper, a package-level cache, a per-block cache)
// is not rolled back with a failed transaction.  One transaction, one block: a configuration change, a message that
// READS the changed configuration (and may memoise it), a receive with a garbage attestation and a send that fails --
// the whole transaction is discarded.  Then, still in the same block, the reader again: it must be judged by the
// configuration that was never changed.  Then the change committed on its own and the reader once more.
func (g *Gen) discardedChange(what string, change func(), reader func()) {
	g.initStandard(3, 2)
	g.hold = true
	defer func() { g.hold = false }()
	g.comment("discarded change: " + what)
	reader() // warms whatever caches there are with the original configuration
	g.beginBatch(5)
	change()
	reader()
	junk := buildMessage(0, 1, 4, g.freshNonce(1), g.rand32(), g.otherRecipient(), make([]byte, 32), nil)
	junkAtt := g.randBytes(130)
	g.tx("ReceiveMessage", newKV().set("from", hs(g.acct[1])).set("message", hx(junk)).set("attestation", hx(junkAtt)).set("ecr", ecrEntries(junk, junkAtt)))
	g.failingSend()
	g.endBatch()
	reader()
	change()
	reader()
}

func (g *Gen) discardedChanges() {
	sim := g.simRate
	g.simRate = 0
	defer func() { g.simRate = sim }()
	a := g.acct
	owner, am, pauser, tc := a[0], a[1], a[2], a[3] // standardGenesis
	signedBy := func(keys ...int) func() {
		return func() {
			m := buildMessage(0, 1, 4, g.freshNonce(1), g.rand32(), g.otherRecipient(), make([]byte, 32), g.randBytes(5))
			g.tx("ReceiveMessage", g.opReceive(a[4], m, attOpts{signers: g.sortedKeys(keys)}))
		}
	}
	send := func(n int) func() {
		return func() {
			ty, kv := g.opSend(a[4], false)
			g.tx(ty, kv.set("body", hx(g.randBytes(n))))
		}
	}
	deposit := func(amount string, dest uint32) func() {
		return func() {
			ty, kv := g.opDeposit(a[4], amount, false)
			g.tx(ty, kv.set("dest", fmt.Sprint(dest)))
		}
	}
	burnFrom := func(tok []byte) func() {
		return func() { g.recvBurn(a[4], 0, g.freshNonce(0), tok, 6, attOpts{}) }
	}
	admin := func(ty string, kv *KV) func() { return func() { g.tx(ty, kv) } }
	from := func(who string) *KV { return newKV().set("from", hs(who)) }

	g.discardedChange("enable an attester", admin("EnableAttester", from(am).set("attester", hs(g.pubHex[3]))), signedBy(3, 0))
	g.discardedChange("disable an attester", admin("DisableAttester", from(am).set("attester", hs(g.pubHex[2]))), signedBy(2, 0))
	g.discardedChange("lower the threshold", admin("UpdateSignatureThreshold", from(am).set("amount", "1")), signedBy(1))
	g.discardedChange("raise the threshold", admin("UpdateSignatureThreshold", from(am).set("amount", "3")), signedBy(0, 1))
	g.discardedChange("pause sending", admin("PauseSendingAndReceivingMessages", from(pauser)), send(3))
	g.discardedChange("pause burning", admin("PauseBurningAndMinting", from(pauser)), deposit("5", 0))
	g.discardedChange("pause burning (inbound)", admin("PauseBurningAndMinting", from(pauser)), burnFrom(token(0)))
	g.discardedChange("shrink the body size", admin("UpdateMaxMessageBodySize", from(owner).set("size", "4")), send(10))
	g.discardedChange("link a pair", admin("LinkTokenPair", from(tc).set("domain", "0").set("token", hx(token(12))).set("localToken", hs(mintDenom))), burnFrom(token(12)))
	g.discardedChange("unlink a pair", admin("UnlinkTokenPair", from(tc).set("domain", "0").set("token", hx(token(0))).set("localToken", hs(mintDenom))), burnFrom(token(0)))
	g.discardedChange("add a messenger", admin("AddRemoteTokenMessenger", from(owner).set("domain", "9").set("address", hx(messengerAddr(9)))), deposit("5", 9))
	g.discardedChange("remove a messenger", admin("RemoveRemoteTokenMessenger", from(owner).set("domain", "1")), deposit("5", 1))
	g.discardedChange("remove a messenger (inbound)", admin("RemoveRemoteTokenMessenger", from(owner).set("domain", "0")), burnFrom(token(0)))
	g.discardedChange("set a burn limit", admin("SetMaxBurnAmountPerMessage", from(tc).set("localToken", hs(mintDenom)).set("amount", "3")), deposit("5", 0))
	g.discardedChange("new pauser", admin("UpdatePauser", from(owner).set("new", hs(a[5]))), admin("PauseBurningAndMinting", from(a[5])))
	g.discardedChange("new attester manager", admin("UpdateAttesterManager", from(owner).set("new", hs(a[5]))), admin("UpdateSignatureThreshold", from(a[5]).set("amount", "3")))
	g.discardedChange("new token controller", admin("UpdateTokenController", from(owner).set("new", hs(a[5]))), admin("SetMaxBurnAmountPerMessage", from(a[5]).set("localToken", hs(mintDenom)).set("amount", "77")))
	g.discardedChange("new owner", func() {
		g.tx("UpdateOwner", from(owner).set("new", hs(a[5])))
		g.tx("AcceptOwner", from(a[5]))
	}, admin("UpdateMaxMessageBodySize", from(a[5]).set("size", "9000")))
}

func scnBatch(g *Gen, budget int, arg string) {
	defer func() { mintDenom = "uusdc"; g.endBatch() }()
	first := true
	for g.nOps < budget {
		mintDenom = "uusdc"
		if !first && g.chance(0.25) {
			mintDenom = "uUsDC"
		}
		nAtt, t := 3, 2
		if !first {
			nAtt = 1 + g.pick(4)
			t = 1 + g.pick(nAtt)
		}
		g.initStandard(nAtt, t)
		if first {
			g.batchPreamble()
			g.discardedChanges()
			g.initStandard(nAtt, t)
			first = false
		}
		// random transactions of 1..4 messages, mostly valid so that a good share commits
		for i := 0; i < 40 && g.nOps < budget; i++ {
			n := 1 + g.pick(4)
			g.beginBatch(n)
			for j := 0; j < n && g.batchLeft > 0; j++ {
				r := g.rng.Float64()
				switch {
				case r < 0.55:
					g.validFlow(g.pick(8))
				case r < 0.7:
					g.randomUser()
				case r < 0.9:
					g.randomAdmin()
				default:
					g.randomQuery()
					j--
				}
				if g.batchLeft > 0 && g.chance(0.15) {
					g.randomQuery()
				}
			}
			g.endBatch()
			if g.chance(0.3) {
				g.randomQuery()
			}
		}
	}
}
