package main

import (
	"bytes"
	"encoding/binary"
	"fmt"
	"math/big"
	"strings"

	"github.com/cosmos/cosmos-sdk/types/bech32"
	"github.com/ethereum/go-ethereum/crypto"

	"github.com/circlefin/noble-cctp/x/cctp/types"
)

var scenarios = map[string]func(g *Gen, budget int, arg string){}

func init() {
	scenarios["selftest"] = scnSelftest
	scenarios["codec"] = scnCodec
	scenarios["history"] = scnHistory
}

// ---------------------------------------------------------------------------------------------
// selftest: the native Ext instances of the model against the Go libraries; key derivations.

func (g *Gen) randBytes(n int) []byte {
	b := make([]byte, n)
	g.rng.Read(b)
	return b
}

func (g *Gen) randHexish() string {
	alpha := "0123456789abcdefABCDEFxXg "
	n := g.pick(12)
	var sb strings.Builder
	if g.chance(0.4) {
		sb.WriteString([]string{"0x", "0X", "0", "x"}[g.pick(4)])
	}
	for i := 0; i < n; i++ {
		sb.WriteByte(alpha[g.pick(len(alpha))])
	}
	return sb.String()
}

func scnSelftest(g *Gen, budget int, arg string) {
	g.config()
	ext := func(fn string, a []byte) {
		g.emit(Op{Kind: "ext", KV: newKV().set("fn", fn).set("a", hx(a))})
	}
	for _, n := range []int{0, 1, 31, 32, 33, 135, 136, 137, 271, 272, 273, 1000} {
		ext("keccak", g.randBytes(n))
	}
	// secp256k1 recovery: honest signatures, every recovery id, scalar and field boundaries, abscissae off the curve
	secpN, _ := new(big.Int).SetString("fffffffffffffffffffffffffffffffebaaedce6af48a03bbfd25e8cd0364141", 16)
	secpP, _ := new(big.Int).SetString("fffffffffffffffffffffffffffffffffffffffffffffffffffffffefffffc2f", 16)
	b32 := func(x *big.Int) []byte { return new(big.Int).Mod(x, new(big.Int).Lsh(big.NewInt(1), 256)).FillBytes(make([]byte, 32)) }
	ecr := func(hash, sig []byte) {
		g.emit(Op{Kind: "ext", KV: newKV().set("fn", "ecrecover").set("a", hx(hash)).set("b", hx(sig))})
	}
	nEcr := budget / 6
	if nEcr > 150 {
		nEcr = 150
	}
	if nEcr < 40 {
		nEcr = 40
	}
	edge := []*big.Int{big.NewInt(0), big.NewInt(1), big.NewInt(2), new(big.Int).Sub(secpN, big.NewInt(1)), secpN,
		new(big.Int).Add(secpN, big.NewInt(1)), new(big.Int).Sub(secpP, secpN), new(big.Int).Sub(new(big.Int).Sub(secpP, secpN), big.NewInt(1)),
		new(big.Int).Sub(secpP, big.NewInt(1)), secpP, new(big.Int).Sub(new(big.Int).Lsh(big.NewInt(1), 256), big.NewInt(1))}
	for i := 0; i < nEcr; i++ {
		h := crypto.Keccak256(g.randBytes(g.pick(40)))
		sig, _ := crypto.Sign(h, g.keys[g.pick(len(g.keys))])
		switch g.pick(10) {
		case 0, 1, 2: // honest
		case 3: // every recovery id and some beyond
			sig[64] = []byte{0, 1, 2, 3, 4, 5, 27, 28, 29, 255}[g.pick(10)]
		case 4: // r at a boundary
			copy(sig[0:32], b32(edge[g.pick(len(edge))]))
			sig[64] = byte(g.pick(4))
		case 5: // s at a boundary
			copy(sig[32:64], b32(edge[g.pick(len(edge))]))
		case 6: // small r: r + n is below p, so recovery ids 2 and 3 are meaningful
			copy(sig[0:32], b32(new(big.Int).SetBytes(g.randBytes(1+g.pick(16)))))
			sig[64] = byte(g.pick(4))
		case 7: // random r (half of all abscissae are off the curve), random s
			copy(sig[0:32], g.randBytes(32))
			if g.chance(0.5) {
				copy(sig[32:64], g.randBytes(32))
			}
			sig[64] = byte(g.pick(2))
		case 8: // wrong lengths
			if g.chance(0.5) {
				h = g.randBytes([]int{0, 31, 33, 64}[g.pick(4)])
			} else {
				sig = append(sig, 0)[:[]int{0, 64, 66}[g.pick(3)]]
			}
		case 9: // hash at the scalar boundaries (reduced modulo n)
			h = b32(edge[g.pick(len(edge))])
			sig, _ = crypto.Sign(h, g.keys[g.pick(len(g.keys))])
		}
		ecr(h, sig)
	}
	for i := 0; i < budget; i++ {
		switch g.pick(9) {
		case 0:
			ext("keccak", g.randBytes(g.pick(300)))
		case 1:
			ext("fromHex", []byte(g.randHexish()))
		case 2:
			s := g.weirdAddress()
			if g.chance(0.5) {
				s = g.anyAcct()
			}
			if g.chance(0.2) {
				b := []byte(s)
				if len(b) > 0 {
					b[g.pick(len(b))] ^= byte(1 << g.pick(7))
				}
				s = string(b)
			}
			if g.chance(0.1) {
				x, _ := bech32.ConvertAndEncode(bech32Prefix, g.randBytes(g.pick(300)))
				s = x
			}
			ext("accAddr", []byte(s))
		case 3:
			ext("bech32", g.randBytes([]int{0, 1, 19, 20, 21, 32, 255, 256}[g.pick(8)]))
		case 4:
			d := denomPool[g.pick(len(denomPool))]
			if g.chance(0.5) {
				alpha := "abzAZ09/:._-! "
				n := g.pick(6)
				var sb strings.Builder
				for j := 0; j < n; j++ {
					sb.WriteByte(alpha[g.pick(len(alpha))])
				}
				d = sb.String()
			}
			ext("denom", []byte(d))
		case 5:
			alpha := "123456789ABCDEFGHJKLMNPQRSTUVWXYZabcdefghijkmnopqrstuvwxyz0OIl"
			n := g.pick(50)
			var sb strings.Builder
			for j := 0; j < n; j++ {
				sb.WriteByte(alpha[g.pick(len(alpha)-g.pick(2)*4)])
			}
			ext("base58", []byte(sb.String()))
		case 6:
			ext("lower", []byte(denomPool[g.pick(len(denomPool))]))
			g.emit(Op{Kind: "ext", KV: newKV().set("fn", "fold").set("a", hs(denomPool[g.pick(len(denomPool))])).set("b", hs(denomPool[g.pick(len(denomPool))]))})
		case 7:
			ext("tokenPadded", []byte(g.randHexish()))
			ext("tokenPadded", []byte("0x"+hx(g.randBytes(g.pick(35)))))
		case 8:
			d := fmt.Sprint(g.domain())
			switch g.pick(5) {
			case 0:
				g.emit(Op{Kind: "key", KV: newKV().set("fn", "attester").set("a", hx(g.randBytes(g.pick(5))))})
			case 1:
				g.emit(Op{Kind: "key", KV: newKV().set("fn", "limit").set("a", hs(denomPool[g.pick(len(denomPool))]))})
			case 2:
				g.emit(Op{Kind: "key", KV: newKV().set("fn", "usedNonce").set("domain", d).set("nonce", fmt.Sprint(g.rng.Uint64()))})
			case 3:
				g.emit(Op{Kind: "key", KV: newKV().set("fn", "tokenPair").set("domain", d).set("a", hx(g.randBytes([]int{0, 20, 32, 33}[g.pick(4)])))})
			case 4:
				g.emit(Op{Kind: "key", KV: newKV().set("fn", "messenger").set("domain", d)})
			}
		}
	}
	// CLI address parser: exhaustive over short strings of a small alphabet, then random
	alpha := []byte("0x1Az")
	g.emit(Op{Kind: "cli-parse", KV: newKV().set("s", "")})
	for _, a := range alpha {
		g.emit(Op{Kind: "cli-parse", KV: newKV().set("s", hx([]byte{a}))})
		for _, b := range alpha {
			g.emit(Op{Kind: "cli-parse", KV: newKV().set("s", hx([]byte{a, b}))})
			for _, c := range alpha {
				g.emit(Op{Kind: "cli-parse", KV: newKV().set("s", hx([]byte{a, b, c}))})
			}
		}
	}
	// not every string is ASCII: characters beyond Latin-1, Latin-1 letters (two bytes each), bytes that are no UTF-8 at
	// all, a multi-byte character cut by the decoder's ten-character chunks, and the same behind a valid prefix
	for _, s := range []string{"€", "é", "ÿ", "\xff", "\xff\xfe", "\xc3", "\x80", "123456789é", "1234567890é", "12345678€", "1€", "€1", "zzzz\xffzzzz",
		"0x€", "0xé", "0x\xff", "0x12€", "\u0100", "\u00ff", "\U0001F600", "A\u0301"} {
		g.emit(Op{Kind: "cli-parse", KV: newKV().set("s", hs(s))})
	}
	for i := 0; i < 40; i++ {
		g.emit(Op{Kind: "cli-parse", KV: newKV().set("s", hx(g.randBytes(1+g.pick(50))))})
	}
	for i := 0; i < budget/4; i++ {
		var s string
		switch g.pick(4) {
		case 0:
			s = "0x" + hx(g.randBytes([]int{0, 1, 20, 31, 32, 33, 40}[g.pick(7)]))
		case 1:
			s = g.randHexish()
		default:
			alpha := "123456789ABCDEFGHJKLMNPQRSTUVWXYZabcdefghijkmnopqrstuvwxyz0"
			n := []int{1, 5, 32, 43, 44, 45, 50, 70}[g.pick(8)]
			var sb strings.Builder
			for j := 0; j < n; j++ {
				sb.WriteByte(alpha[g.pick(len(alpha))])
			}
			s = sb.String()
		}
		g.emit(Op{Kind: "cli-parse", KV: newKV().set("s", hs(s))})
	}
}

// ---------------------------------------------------------------------------------------------
// codec: parse/bytes of Message and BurnMessage on random strings and random field values.

func scnCodec(g *Gen, budget int, arg string) {
	g.config()
	lens := []int{0, 1, 4, 20, 115, 116, 117, 131, 132, 133, 247, 248, 249, 400}
	for i := 0; i < budget; i++ {
		switch g.pick(4) {
		case 0:
			n := lens[g.pick(len(lens))]
			if g.chance(0.3) {
				n = g.pick(401)
			}
			g.emit(Op{Kind: "msg-parse", KV: newKV().set("bz", hx(g.randBytes(n)))})
		case 1:
			n := []int{0, 1, 131, 132, 133, 264}[g.pick(6)]
			if g.chance(0.2) {
				n = g.pick(300)
			}
			b := g.randBytes(n)
			if g.chance(0.3) && n >= 100 {
				for j := 68; j < 100; j++ {
					b[j] = []byte{0, 0xff}[g.pick(2)]
				}
			} else if g.chance(0.5) && n >= 100 {
				// the amount slot at a width boundary of the integer types a decoder might go through
				e := new(big.Int).Lsh(big.NewInt(1), uint([]int{0, 31, 32, 63, 64, 128, 255}[g.pick(7)]))
				e.Add(e, big.NewInt(int64(g.pick(7)-3)))
				if e.Sign() < 0 {
					e.SetInt64(0)
				}
				e.FillBytes(b[68:100])
			}
			g.emit(Op{Kind: "burn-parse", KV: newKV().set("bz", hx(b))})
		case 2:
			fl := func() int {
				if g.chance(0.8) {
					return 32
				}
				return []int{0, 1, 31, 33, 64}[g.pick(5)]
			}
			kv := newKV().set("ver", fmt.Sprint(g.rng.Uint32())).set("src", fmt.Sprint(g.rng.Uint32())).set("dst", fmt.Sprint(g.rng.Uint32())).
				set("nonce", fmt.Sprint(g.rng.Uint64())).set("sender", hx(g.randBytes(fl()))).set("recipient", hx(g.randBytes(fl()))).
				set("caller", hx(g.randBytes(fl()))).set("body", hx(g.randBytes(g.pick(200))))
			g.emit(Op{Kind: "msg-bytes", KV: kv})
		case 3:
			fl := func() int {
				if g.chance(0.8) {
					return 32
				}
				return []int{0, 1, 31, 33, 64}[g.pick(5)]
			}
			amt := amountPool[g.pick(len(amountPool))]
			if g.chance(0.5) {
				amt = new(big.Int).SetBytes(g.randBytes(g.pick(33))).String()
			}
			kv := newKV().set("ver", fmt.Sprint(g.rng.Uint32())).set("token", hx(g.randBytes(fl()))).set("recipient", hx(g.randBytes(fl()))).
				set("amount", amt).set("sender", hx(g.randBytes(fl())))
			g.emit(Op{Kind: "burn-bytes", KV: kv})
		}
	}
}

// ---------------------------------------------------------------------------------------------
// history: state-aware random histories over all 25 tx types and 19 queries.

func (g *Gen) acctIndexOfRaw(raw []byte) int {
	for i, r := range g.acctRaw {
		if bytes.Equal(r, raw) {
			return i
		}
	}
	return -1
}

func (g *Gen) freshNonce(src uint32) uint64 {
	// the all-zero pair (0, 0) -- and (d, 0) generally -- is stored as an EMPTY value (every field is the proto default):
	// present-but-empty is where nil checks and length checks part ways
	if g.chance(0.08) && !g.w().k.GetUsedNonce(g.w().ctx, types.Nonce{SourceDomain: src, Nonce: 0}) {
		return 0
	}
	for {
		n := uint64(g.pick(1 << 20))
		if g.chance(0.1) {
			n = g.rng.Uint64()
		} else if g.chance(0.1) {
			n = u64Edges[g.pick(len(u64Edges))] + uint64(g.pick(3)) - 1
		}
		if !g.w().k.GetUsedNonce(g.w().ctx, types.Nonce{SourceDomain: src, Nonce: n}) {
			return n
		}
	}
}

// otherCase: the same bech32 address in the other letter case (also a valid address string, but a different string:
// role holders are identified by their exact string).
func otherCase(a string) string {
	if a == strings.ToLower(a) {
		return strings.ToUpper(a)
	}
	return strings.ToLower(a)
}

func (g *Gen) roleHolderOr(which string, pWrong float64) string {
	if g.chance(pWrong) {
		switch {
		case g.chance(0.25) && g.role(which) != "":
			return otherCase(g.role(which))
		case g.chance(0.3):
			return g.weirdAddress()
		}
		return g.anyAcct()
	}
	return g.role(which)
}

func (g *Gen) newHolder() string {
	if g.chance(0.15) {
		return g.weirdAddress()
	}
	return g.anyAcct()
}

func (g *Gen) attesterSpelling(i int) string {
	pub := g.pubHex[i][2:]
	switch g.pick(8) {
	case 0:
		return pub
	case 1:
		return "0X" + pub
	case 2:
		return "0x" + strings.ToUpper(pub)
	case 3:
		return "0x" + pub + "zz"
	case 4:
		if g.chance(0.4) {
			return "0x" + pub[:2*(1+g.pick(64))] // a proper prefix of a real identifier (still valid hex)
		}
		return "0x" + pub
	default:
		return "0x" + pub
	}
}

func (g *Gen) randomAdmin() {
	const pw = 0.15
	switch g.pick(22) {
	case 0:
		g.tx("UpdateOwner", newKV().set("from", hs(g.roleHolderOr("owner", pw))).set("new", hs(g.newHolder())))
	case 1:
		from := g.role("pending")
		if from == "" || g.chance(pw) {
			from = g.anyAcct()
		} else if g.chance(0.1) {
			from = otherCase(from)
		}
		g.tx("AcceptOwner", newKV().set("from", hs(from)))
	case 2:
		g.tx("UpdateAttesterManager", newKV().set("from", hs(g.roleHolderOr("owner", pw))).set("new", hs(g.newHolder())))
	case 3:
		g.tx("UpdatePauser", newKV().set("from", hs(g.roleHolderOr("owner", pw))).set("new", hs(g.newHolder())))
	case 4:
		g.tx("UpdateTokenController", newKV().set("from", hs(g.roleHolderOr("owner", pw))).set("new", hs(g.newHolder())))
	case 5:
		szs := append([]uint64{0, 1, 131, 132, 133, 8000, 1 << 40}, u64Edges...)
		sz := szs[g.pick(len(szs))]
		g.tx("UpdateMaxMessageBodySize", newKV().set("from", hs(g.roleHolderOr("owner", pw))).set("size", fmt.Sprint(sz)))
	case 6:
		d := g.domain()
		addr := messengerAddr(d)
		switch g.pick(9) {
		case 0:
			addr = make([]byte, 32)
		case 1:
			addr = addr[:31]
		case 2:
			addr = append(addr, 1)
		case 3:
			addr = g.rand32() // one in four of these is sparse (e.g. zero low 20 bytes)
		}
		g.tx("AddRemoteTokenMessenger", newKV().set("from", hs(g.roleHolderOr("owner", pw))).set("domain", fmt.Sprint(d)).set("address", hx(addr)))
	case 7:
		g.tx("RemoveRemoteTokenMessenger", newKV().set("from", hs(g.roleHolderOr("owner", pw))).set("domain", fmt.Sprint(g.domain())))
	case 8, 9:
		a := g.attesterSpelling(g.pick(len(g.keys)))
		if g.chance(0.1) {
			a = []string{"", "0x", "zz", "0xabc"}[g.pick(4)]
		}
		g.tx("EnableAttester", newKV().set("from", hs(g.roleHolderOr("am", pw))).set("attester", hs(a)))
	case 10, 11:
		as := g.attesters()
		a := g.attesterSpelling(g.pick(len(g.keys)))
		if len(as) > 0 && g.chance(0.7) {
			a = as[g.pick(len(as))]
		}
		g.tx("DisableAttester", newKV().set("from", hs(g.roleHolderOr("am", pw))).set("attester", hs(a)))
	case 12, 13:
		n := len(g.attesters())
		amt := []int{0, 1, n - 1, n, n + 1, 2, 1<<31 - 1, 1 << 31, 1<<32 - 1}[g.pick(9)]
		if amt < 0 {
			amt = 0
		}
		g.tx("UpdateSignatureThreshold", newKV().set("from", hs(g.roleHolderOr("am", pw))).set("amount", fmt.Sprint(amt)))
	case 14:
		g.tx("PauseBurningAndMinting", newKV().set("from", hs(g.roleHolderOr("pauser", pw))))
	case 15:
		g.tx("UnpauseBurningAndMinting", newKV().set("from", hs(g.roleHolderOr("pauser", pw))))
	case 16:
		g.tx("PauseSendingAndReceivingMessages", newKV().set("from", hs(g.roleHolderOr("pauser", pw))))
	case 17:
		g.tx("UnpauseSendingAndReceivingMessages", newKV().set("from", hs(g.roleHolderOr("pauser", pw))))
	case 18:
		tok := token(g.pick(3))
		if g.chance(0.1) {
			tok = tok[:[]int{0, 20, 31}[g.pick(3)]]
		} else if g.chance(0.1) {
			tok = append(tok, 0)
		} else if g.chance(0.15) {
			tok = g.rand32()
		}
		g.tx("LinkTokenPair", newKV().set("from", hs(g.roleHolderOr("tc", pw))).set("domain", fmt.Sprint(g.domain())).set("token", hx(tok)).set("localToken", hs(denomPool[g.pick(5)])))
	case 19:
		tok := token(g.pick(3))
		if g.chance(0.1) {
			tok = tok[:20]
		}
		g.tx("UnlinkTokenPair", newKV().set("from", hs(g.roleHolderOr("tc", pw))).set("domain", fmt.Sprint(g.domain())).set("token", hx(tok)).set("localToken", hs(denomPool[g.pick(5)])))
	case 20, 21:
		g.tx("SetMaxBurnAmountPerMessage", newKV().set("from", hs(g.roleHolderOr("tc", pw))).set("localToken", hs(denomPool[g.pick(5)])).set("amount", amountPool[g.pick(len(amountPool))]))
	}
}

func (g *Gen) randomPage(kv *KV) {
	switch g.pick(6) {
	case 0:
		kv.set("page", "nil")
	case 1:
		kv.set("offset", fmt.Sprint(g.pick(4))).set("limit", fmt.Sprint(g.pick(4))).set("countTotal", b01(g.chance(0.5))).set("reverse", b01(g.chance(0.3)))
	case 2:
		kv.set("key", hx(g.randBytes(g.pick(3)))).set("limit", fmt.Sprint(g.pick(3))).set("reverse", b01(g.chance(0.3)))
	case 3:
		kv.set("key", hx(g.randBytes(1))).set("offset", "1").set("limit", "1")
	case 4:
		kv.set("offset", "18446744073709551615").set("limit", fmt.Sprint(g.pick(3)))
	default:
		kv.set("limit", fmt.Sprint(1+g.pick(3))).set("countTotal", "1")
	}
}

var queryNames = []string{"Attester", "Attesters", "PerMessageBurnLimit", "PerMessageBurnLimits", "BurningAndMintingPaused",
	"SendingAndReceivingMessagesPaused", "MaxMessageBodySize", "NextAvailableNonce", "SignatureThreshold", "TokenPair",
	"TokenPairs", "UsedNonce", "UsedNonces", "RemoteTokenMessenger", "RemoteTokenMessengers", "Roles", "BurnMessageVersion",
	"LocalMessageVersion", "LocalDomain"}

func (g *Gen) randomQuery() {
	name := queryNames[g.pick(len(queryNames))]
	kv := newKV()
	if g.chance(0.03) {
		kv.set("nil", "1")
	}
	switch name {
	case "Attester":
		as := g.attesters()
		a := g.attesterSpelling(g.pick(len(g.keys)))
		if len(as) > 0 && g.chance(0.6) {
			a = as[g.pick(len(as))]
		}
		kv.set("attester", hs(a))
	case "PerMessageBurnLimit":
		kv.set("denom", hs(denomPool[g.pick(5)]))
	case "TokenPair":
		t := "0x" + hx(token(g.pick(3)))
		switch g.pick(6) {
		case 0:
			t = hx(token(0))
		case 1:
			t = "0x" + hx(token(0)[12:])
		case 2:
			t = "zz"
		case 3:
			t = "0x" + hx(g.randBytes(33))
		case 4:
			t = g.remoteTokenSpelling()
		}
		kv.set("domain", fmt.Sprint(g.domain())).set("token", hs(t))
	case "UsedNonce":
		kv.set("domain", fmt.Sprint(g.domain())).set("nonce", fmt.Sprint(g.pick(1<<20)))
		un := g.w().k.GetAllUsedNonces(g.w().ctx)
		if len(un) > 0 && g.chance(0.6) {
			u := un[g.pick(len(un))]
			kv.set("domain", fmt.Sprint(u.SourceDomain)).set("nonce", fmt.Sprint(u.Nonce))
			if g.chance(0.2) {
				kv.set("domain", fmt.Sprint(u.Nonce&0xffffffff))
			}
		}
	case "RemoteTokenMessenger":
		kv.set("domain", fmt.Sprint(g.domain()))
	case "Attesters", "PerMessageBurnLimits", "TokenPairs", "UsedNonces", "RemoteTokenMessengers":
		g.randomPage(kv)
	}
	g.emit(Op{Kind: "query", Sub: name, KV: kv})
}

func (g *Gen) faultsMaybe(kv *KV, p float64) *KV {
	if g.chance(p) {
		kv.set("faults", []string{"1", "01", "10", "11", "001"}[g.pick(5)])
	}
	return kv
}

func (g *Gen) randomUser() {
	from := g.anyAcct()
	if g.chance(0.05) {
		from = g.weirdAddress()
	}
	switch g.pick(12) {
	case 0:
		ty, kv := g.opSend(from, false)
		if g.chance(0.15) {
			kv.set("recipient", hx([][]byte{{}, make([]byte, 32), make([]byte, 5), g.randBytes(31), g.randBytes(33)}[g.pick(5)]))
		}
		if g.chance(0.1) {
			kv.set("body", hx(g.randBytes([]int{131, 132, 133, 7999, 8000, 8001}[g.pick(6)])))
		}
		g.tx(ty, kv)
	case 1:
		ty, kv := g.opSend(from, true)
		if g.chance(0.2) {
			kv.set("caller", hx([][]byte{{}, make([]byte, 32), g.randBytes(31), g.randBytes(33)}[g.pick(4)]))
		}
		g.tx(ty, kv)
	case 2, 3, 4:
		amt := fmt.Sprint(1 + g.pick(1000))
		if g.chance(0.25) {
			amt = amountPool[g.pick(len(amountPool))]
		}
		ty, kv := g.opDeposit(from, amt, g.chance(0.4))
		if g.chance(0.1) {
			kv.set("burnToken", hs(denomPool[g.pick(len(denomPool))]))
		}
		if g.chance(0.1) {
			kv.set("mintRecipient", hx([][]byte{{}, make([]byte, 32), g.randBytes(31), g.randBytes(33)}[g.pick(4)]))
		}
		if g.chance(0.1) {
			kv.set("dest", fmt.Sprint(g.domain()))
		}
		if ty == "DepositForBurnWithCaller" && g.chance(0.15) {
			kv.set("caller", hx([][]byte{{}, make([]byte, 32), g.randBytes(31), g.randBytes(33)}[g.pick(4)]))
		}
		g.tx(ty, g.faultsMaybe(kv, 0.1))
	case 5, 6, 7:
		g.randomReceive(from)
	case 8, 9:
		g.randomReplace()
	default:
		g.randomReceive(from)
	}
}

func (g *Gen) randomReceive(from string) {
	src := []uint32{0, 1, 3, 5}[g.pick(4)]
	nonce := g.freshNonce(src)
	if g.chance(0.15) {
		un := g.w().k.GetAllUsedNonces(g.w().ctx)
		if len(un) > 0 {
			u := un[g.pick(len(un))]
			src, nonce = u.SourceDomain, u.Nonce
		}
	}
	var msg []byte
	if g.chance(0.6) {
		msg = g.inboundBurn(src, nonce, bigPool(g), g.pick(len(g.acctRaw)))
	} else {
		body := g.randBytes(g.pick(200))
		msg = buildMessage(0, src, 4, nonce, g.rand32(), g.otherRecipient(), make([]byte, 32), body)
	}
	// perturbations of single fields
	if g.chance(0.3) {
		switch g.pick(10) {
		case 0:
			binary.BigEndian.PutUint32(msg[0:4], 1) // version
		case 1:
			binary.BigEndian.PutUint32(msg[8:12], g.domain()) // destination domain
		case 2:
			copy(msg[84:116], pad32(g.acctRaw[g.pick(len(g.acctRaw))])) // destination caller = some account
		case 3:
			copy(msg[84:116], g.rand32())
		case 4:
			if len(msg) > 116 {
				msg = msg[:116+g.pick(len(msg)-116)]
			}
		case 5:
			msg = msg[:g.pick(117)]
		case 6:
			if len(msg) >= 120 {
				binary.BigEndian.PutUint32(msg[116:120], 1) // body version
			}
		case 7:
			copy(msg[20:52], g.rand32()) // sender
		case 8:
			if len(msg) >= 152 {
				copy(msg[120:152], token(1+g.pick(2))) // burn token
			}
		case 9:
			msg = append(msg, 0)
		}
	}
	if g.chance(0.5) && len(msg) >= 116 && !bytes.Equal(msg[84:116], make([]byte, 32)) {
		// make the submitter match the destination caller half of the time
		if i := g.acctIndexOfRaw(msg[96:116]); i >= 0 {
			from = g.acct[i]
		}
	}
	o := attOpts{legacyV: g.pick(3)}
	if g.chance(0.2) {
		o.mutation = []string{"trunc1", "trunc65", "pad1", "pad65", "dupLast", "highSTwin", "highSFirst", "reverse", "badV", "zeroR", "flipBit", "mirrorKey"}[g.pick(12)]
	}
	if g.chance(0.05) {
		o.overMsg = append(append([]byte{}, msg...), 1)
	}
	if g.chance(0.1) {
		// arbitrary signer choice: disabled / unknown keys, wrong count
		n := 1 + g.pick(4)
		for i := 0; i < n; i++ {
			o.signers = append(o.signers, g.pick(len(g.keys)))
		}
	}
	g.tx("ReceiveMessage", g.faultsMaybe(g.opReceive(from, msg, o), 0.1))
}

func (g *Gen) randomReplace() {
	if len(g.sent) == 0 {
		return
	}
	orig := g.sent[g.pick(len(g.sent))]
	m, err := new(types.Message).Parse(append([]byte{}, orig...))
	if err != nil {
		return
	}
	o := attOpts{legacyV: g.pick(3)}
	if g.chance(0.1) {
		o.mutation = []string{"trunc1", "pad65", "reverse", "flipBit"}[g.pick(4)]
	}
	isDeposit := bytes.Equal(m.Sender, types.PaddedModuleAddress)
	from := g.anyAcct()
	if isDeposit && len(m.MessageBody) == 132 {
		if i := g.acctIndexOfRaw(m.MessageBody[112:132]); i >= 0 && g.chance(0.85) {
			from = g.acct[i]
		}
	} else if i := g.acctIndexOfRaw(m.Sender[12:]); i >= 0 && g.chance(0.85) {
		from = g.acct[i]
	}
	if g.chance(0.1) {
		// tamper with the original
		orig = append([]byte{}, orig...)
		orig[g.pick(len(orig))] ^= 1
	}
	caller := [][]byte{make([]byte, 32), g.rand32(), {}, g.randBytes(31)}[g.pick(4)]
	if g.chance(0.6) {
		caller = [][]byte{make([]byte, 32), g.rand32()}[g.pick(2)]
	}
	att := g.attest(orig, o)
	if (isDeposit && g.chance(0.8)) || (!isDeposit && g.chance(0.1)) {
		rcp := [][]byte{g.rand32(), make([]byte, 32), {}, g.randBytes(31)}[g.pick(4)]
		if g.chance(0.7) {
			rcp = g.rand32()
		}
		g.tx("ReplaceDepositForBurn", newKV().set("from", hs(from)).set("message", hx(orig)).set("attestation", hx(att)).
			set("newCaller", hx(caller)).set("newMintRecipient", hx(rcp)).set("ecr", ecrEntries(orig, att)))
	} else {
		body := g.randBytes(g.pick(200))
		g.tx("ReplaceMessage", newKV().set("from", hs(from)).set("message", hx(orig)).set("attestation", hx(att)).
			set("newBody", hx(body)).set("newCaller", hx(caller)).set("ecr", ecrEntries(orig, att)))
	}
}

func scnHistory(g *Gen, budget int, arg string) {
	defer func() { mintDenom = "uusdc" }()
	// some transactions carry several messages (one branch, all-or-nothing)
	g.batchRate = 0.05
	defer func() { g.endBatch(); g.batchRate = 0 }()
	for g.nOps < budget {
		mintDenom = "uusdc"
		if g.chance(0.25) {
			mintDenom = "uUsDC"
		}
		nAtt := 1 + g.pick(4)
		t := 1 + g.pick(nAtt)
		g.initStandard(nAtt, t)
		n := 40 + g.pick(160)
		for i := 0; i < n && g.nOps < budget; i++ {
			r := g.rng.Float64()
			switch {
			case r < 0.45:
				g.randomUser()
			case r < 0.75:
				g.randomAdmin()
			case r < 0.97:
				g.randomQuery()
			default:
				g.emit(Op{Kind: "genesis-export", KV: newKV()})
			}
		}
	}
}
