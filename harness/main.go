package main

import (
	"bufio"
	"crypto/sha256"
	"flag"
	"fmt"
	"os"
	"sort"
	"strconv"
	"strings"

	sdk "github.com/cosmos/cosmos-sdk/types"
	"github.com/ethereum/go-ethereum/crypto"
)

func main() {
	cfg := sdk.GetConfig()
	cfg.SetBech32PrefixForAccount(bech32Prefix, bech32Prefix+"pub")

	if len(os.Args) < 2 {
		fmt.Fprintln(os.Stderr, "usage: harness run|replay ...")
		os.Exit(2)
	}
	switch os.Args[1] {
	case "run":
		fs := flag.NewFlagSet("run", flag.ExitOnError)
		scn := fs.String("scenario", "history", "scenario name")
		seed := fs.Int64("seed", 1, "PRNG seed")
		budget := fs.Int("budget", 500, "approximate number of ops")
		opsPath := fs.String("ops", "ops.txt", "op file to write")
		obsPath := fs.String("obs", "impl.obs", "observation file to write")
		statsPath := fs.String("stats", "", "stats file to write")
		arg := fs.String("arg", "", "scenario-specific argument")
		fs.Parse(os.Args[2:])
		of, err := os.Create(*opsPath)
		must(err)
		bf, err := os.Create(*obsPath)
		must(err)
		ow, bw := bufio.NewWriterSize(of, 1<<20), bufio.NewWriterSize(bf, 1<<20)
		g := NewGen(*seed, ow, bw)
		fn, ok := scenarios[*scn]
		if !ok {
			fmt.Fprintln(os.Stderr, "unknown scenario", *scn)
			os.Exit(2)
		}
		fn(g, *budget, *arg)
		ow.Flush()
		bw.Flush()
		of.Close()
		bf.Close()
		if *statsPath != "" {
			for k, v := range g.s.envStats {
				g.stats[k] += v
			}
			var ks []string
			for k := range g.stats {
				ks = append(ks, k)
			}
			sort.Strings(ks)
			var sb strings.Builder
			for _, k := range ks {
				sb.WriteString(k + " " + strconv.Itoa(g.stats[k]) + "\n")
			}
			os.WriteFile(*statsPath, []byte(sb.String()), 0o644)
		}
	case "replay":
		fs := flag.NewFlagSet("replay", flag.ExitOnError)
		opsPath := fs.String("ops", "ops.txt", "op file to read")
		obsPath := fs.String("obs", "impl.obs", "observation file to write")
		fs.Parse(os.Args[2:])
		in, err := os.Open(*opsPath)
		must(err)
		bf, err := os.Create(*obsPath)
		must(err)
		bw := bufio.NewWriterSize(bf, 1<<20)
		sc := bufio.NewScanner(in)
		sc.Buffer(make([]byte, 1<<20), 1<<28)
		s := &Session{}
		for sc.Scan() {
			line := sc.Text()
			op := ParseOp(line)
			if op.Kind == "" {
				fmt.Fprintln(bw, "")
				continue
			}
			if s.w == nil && op.Kind != "config" && op.Kind != "#" {
				// ops that need no world still work; others need a config first
				s.w = NewWorld(mintDenom)
			}
			fmt.Fprintln(bw, safeExec(s, op))
			bw.Flush() // per line: a crash of the process must not lose the observations before it
		}
		bw.Flush()
		bf.Close()
	case "determinism":
		// C18: the same history on a fresh instance, after an unrelated history in the same process, and on
		// several instances concurrently must give identical observations and identical app hashes.
		fs := flag.NewFlagSet("determinism", flag.ExitOnError)
		opsPath := fs.String("ops", "ops.txt", "op file to read")
		par := fs.Int("parallel", 8, "concurrent instances")
		fs.Parse(os.Args[2:])
		bz, err := os.ReadFile(*opsPath)
		must(err)
		lines := strings.Split(string(bz), "\n")
		runOnce := func() []string {
			s := &Session{}
			var out []string
			for _, line := range lines {
				op := ParseOp(line)
				if op.Kind == "" {
					continue
				}
				if s.w == nil && op.Kind != "config" && op.Kind != "#" {
					s.w = NewWorld(mintDenom)
				}
				o := safeExec(s, op)
				out = append(out, o)
				if op.Kind == "dump" && s.w != nil {
					out = append(out, fmt.Sprintf("apphash=%x", s.w.Commit()))
				}
			}
			if s.w != nil {
				out = append(out, fmt.Sprintf("apphash=%x", s.w.Commit()))
			}
			return out
		}
		ref := runOnce()
		cmp := func(name string, got []string) bool {
			if len(got) != len(ref) {
				fmt.Printf("DIFF %s: %d lines vs %d\n", name, len(got), len(ref))
				return false
			}
			for i := range ref {
				if got[i] != ref[i] {
					a, b := ref[i], got[i]
					if len(a) > 300 {
						a = a[:300]
					}
					if len(b) > 300 {
						b = b[:300]
					}
					fmt.Printf("DIFF %s at observation %d\n  first run : %s\n  this run  : %s\n", name, i, a, b)
					return false
				}
			}
			return true
		}
		ok := cmp("replay-after-earlier-history-in-same-process", runOnce())
		results := make([][]string, *par)
		done := make(chan int, *par)
		for i := 0; i < *par; i++ {
			go func(i int) { results[i] = runOnce(); done <- i }(i)
		}
		for i := 0; i < *par; i++ {
			<-done
		}
		for i := 0; i < *par; i++ {
			ok = cmp(fmt.Sprintf("concurrent-instance-%d", i), results[i]) && ok
		}
		hashes := 0
		for _, l := range ref {
			if strings.HasPrefix(l, "apphash=") {
				hashes++
			}
		}
		fmt.Printf("determinism runs=%d observations=%d apphashes=%d identical=%v\n", *par+2, len(ref), hashes, ok)
	case "findnear":
		// development aid: two deterministic keys whose Ethereum addresses share their first four bytes
		seen := map[[4]byte]int{}
		for i := 0; i < 400000; i++ {
			h := sha256.Sum256([]byte(fmt.Sprintf("near-attester-%d", i)))
			k, err := crypto.ToECDSA(h[:])
			if err != nil {
				continue
			}
			a := crypto.PubkeyToAddress(k.PublicKey)
			var p [4]byte
			copy(p[:], a[:4])
			if j, ok := seen[p]; ok {
				fmt.Println(j, i)
				return
			}
			seen[p] = i
		}
	case "scenarios":
		var ks []string
		for k := range scenarios {
			ks = append(ks, k)
		}
		sort.Strings(ks)
		fmt.Println(strings.Join(ks, "\n"))
	default:
		fmt.Fprintln(os.Stderr, "unknown command")
		os.Exit(2)
	}
}

func safeExec(s *Session, op Op) (line string) {
	defer func() {
		if r := recover(); r != nil {
			line = "harness-panic " + errTag(fmt.Errorf("%v", r))
		}
	}()
	return s.Exec(op)
}

func must(err error) {
	if err != nil {
		fmt.Fprintln(os.Stderr, err)
		os.Exit(2)
	}
}
