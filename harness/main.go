package main

import (
	"bufio"
	"flag"
	"fmt"
	"os"
	"sort"
	"strconv"
	"strings"

	sdk "github.com/cosmos/cosmos-sdk/types"
)

func main() {
	cfg := sdk.GetConfig()
	cfg.SetBech32PrefixForAccount(bech32Prefix, bech32Prefix+"pub")

	if len(os.Args) < 2 {
		fmt.Fprintln(os.Stderr, "usage: harness run|replay ...")
		os.Exit(2)
	}
	switch os.Args[1] {
	case "run":
		fs := flag.NewFlagSet("run", flag.ExitOnError)
		scn := fs.String("scenario", "history", "scenario name")
		seed := fs.Int64("seed", 1, "PRNG seed")
		budget := fs.Int("budget", 500, "approximate number of ops")
		opsPath := fs.String("ops", "ops.txt", "op file to write")
		obsPath := fs.String("obs", "impl.obs", "observation file to write")
		statsPath := fs.String("stats", "", "stats file to write")
		arg := fs.String("arg", "", "scenario-specific argument")
		fs.Parse(os.Args[2:])
		of, err := os.Create(*opsPath)
		must(err)
		bf, err := os.Create(*obsPath)
		must(err)
		ow, bw := bufio.NewWriterSize(of, 1<<20), bufio.NewWriterSize(bf, 1<<20)
		g := NewGen(*seed, ow, bw)
		fn, ok := scenarios[*scn]
		if !ok {
			fmt.Fprintln(os.Stderr, "unknown scenario", *scn)
			os.Exit(2)
		}
		fn(g, *budget, *arg)
		ow.Flush()
		bw.Flush()
		of.Close()
		bf.Close()
		if *statsPath != "" {
			var ks []string
			for k := range g.stats {
				ks = append(ks, k)
			}
			sort.Strings(ks)
			var sb strings.Builder
			for _, k := range ks {
				sb.WriteString(k + " " + strconv.Itoa(g.stats[k]) + "\n")
			}
			os.WriteFile(*statsPath, []byte(sb.String()), 0o644)
		}
	case "replay":
		fs := flag.NewFlagSet("replay", flag.ExitOnError)
		opsPath := fs.String("ops", "ops.txt", "op file to read")
		obsPath := fs.String("obs", "impl.obs", "observation file to write")
		fs.Parse(os.Args[2:])
		in, err := os.Open(*opsPath)
		must(err)
		bf, err := os.Create(*obsPath)
		must(err)
		bw := bufio.NewWriterSize(bf, 1<<20)
		sc := bufio.NewScanner(in)
		sc.Buffer(make([]byte, 1<<20), 1<<28)
		s := &Session{}
		for sc.Scan() {
			line := sc.Text()
			op := ParseOp(line)
			if op.Kind == "" {
				fmt.Fprintln(bw, "")
				continue
			}
			if s.w == nil && op.Kind != "config" && op.Kind != "#" {
				// ops that need no world still work; others need a config first
				s.w = NewWorld(mintDenom)
			}
			fmt.Fprintln(bw, safeExec(s, op))
		}
		bw.Flush()
		bf.Close()
	case "scenarios":
		var ks []string
		for k := range scenarios {
			ks = append(ks, k)
		}
		sort.Strings(ks)
		fmt.Println(strings.Join(ks, "\n"))
	default:
		fmt.Fprintln(os.Stderr, "unknown command")
		os.Exit(2)
	}
}

func safeExec(s *Session, op Op) (line string) {
	defer func() {
		if r := recover(); r != nil {
			line = "harness-panic " + errTag(fmt.Errorf("%v", r))
		}
	}()
	return s.Exec(op)
}

func must(err error) {
	if err != nil {
		fmt.Fprintln(os.Stderr, err)
		os.Exit(2)
	}
}
