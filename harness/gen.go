package main

// Generators: pools, state-aware op constructors, and the building blocks shared by all scenarios.
// Every random choice derives from one PRNG seeded by VERIF_SEED; the op file is the replay.

import (
	"bufio"
	"bytes"
	"crypto/ecdsa"
	"crypto/sha256"
	"encoding/binary"
	"encoding/hex"
	"fmt"
	"math/big"
	"math/rand"
	"sort"
	"strings"

	sdk "github.com/cosmos/cosmos-sdk/types"
	"github.com/cosmos/cosmos-sdk/types/bech32"
	"github.com/ethereum/go-ethereum/crypto"

	"github.com/circlefin/noble-cctp/x/cctp/types"
)

type Gen struct {
	rng  *rand.Rand
	s    *Session
	ops  *bufio.Writer
	obs  *bufio.Writer
	nOps int

	acct    []string // bech32 strings of the account universe
	acctRaw [][]byte
	keys    []*ecdsa.PrivateKey
	pubHex  []string // canonical spelling: 0x + lower hex of the 65-byte key

	sent     [][]byte // MessageSent payloads observed (candidates for replacement)
	autoDump bool
	forceVariant int   // >= 0: the variant every pickv() of the current matrix case must take (deterministic sweeps)
	simRate  float64 // share of transactions that are simulated (on a discarded branch) right before being delivered
	batchRate float64 // share of transactions that open a multi-message transaction (the next 1..4 transactions share a branch)
	batchLeft int     // messages still to go into the open multi-message transaction
	oddAcct  []string // accounts whose address is not 20 bytes long
	oddRaw   [][]byte
	hold     bool  // ops emitted while set carry blk=same: they stay in the block of the op before them
	capture  *[]Op // when set, ops are collected instead of executed (used by the crash scenario)
	stats    map[string]int
}

var denomPool = []string{"uusdc", "UUSDC", "uUsDC", "uuſdc", "other", "", "ab", "1usdc", "uusdc/x", strings.Repeat("a", 128), strings.Repeat("a", 129)}

// mintDenom is the fiat-token-factory minting denom of the chain being generated; most chains use the
// lower-case "uusdc", some a mixed-case one (then only that exact spelling can be burnt, and the burn
// token in bodies and events is still the keccak of the LOWER-CASED denom).
var mintDenom = "uusdc"

func hx(b []byte) string { return hex.EncodeToString(b) }
func unhexOr(s string) []byte {
	b, _ := hex.DecodeString(s)
	return b
}
func hs(s string) string { return hex.EncodeToString([]byte(s)) }

func NewGen(seed int64, ops, obs *bufio.Writer) *Gen {
	g := &Gen{rng: rand.New(rand.NewSource(seed)), s: &Session{}, ops: ops, obs: obs, autoDump: true, forceVariant: -1, simRate: 0.1, stats: map[string]int{}}
	for i := 0; i < 6; i++ {
		h := sha256.Sum256([]byte(fmt.Sprintf("acct-%d", i)))
		raw := h[:20]
		s, _ := bech32.ConvertAndEncode(bech32Prefix, raw)
		g.acct = append(g.acct, s)
		g.acctRaw = append(g.acctRaw, raw)
	}
	for _, n := range []int{32, 1, 7, 21, 255} {
		var raw []byte
		for i := 0; len(raw) < n; i++ {
			h := sha256.Sum256([]byte(fmt.Sprintf("odd-acct-%d-%d", n, i)))
			raw = append(raw, h[:]...)
		}
		raw = raw[:n]
		s, _ := bech32.ConvertAndEncode(bech32Prefix, raw)
		g.oddAcct = append(g.oddAcct, s)
		g.oddRaw = append(g.oddRaw, raw)
	}
	for i := 0; i < 5; i++ {
		h := sha256.Sum256([]byte(fmt.Sprintf("attester-%d", i)))
		k, err := crypto.ToECDSA(h[:])
		if err != nil {
			panic(err)
		}
		g.keys = append(g.keys, k)
		g.pubHex = append(g.pubHex, "0x"+hx(crypto.FromECDSAPub(&k.PublicKey)))
	}
	return g
}

// emit runs one op on the implementation and records both lines.
func (g *Gen) emit(op Op) string {
	if g.capture != nil {
		if op.Kind != "dump" {
			*g.capture = append(*g.capture, op)
		}
		return ""
	}
	if g.batchLeft > 0 {
		switch op.Kind {
		case "tx", "sim", "query", "dump", "begin", "end":
		default:
			// anything that is not part of a transaction closes the open one first
			g.endBatch()
		}
	}
	if g.hold {
		op.KV.set("blk", "same")
	}
	line := op.String()
	// the op is on disk BEFORE it runs: if the implementation takes the whole process down (a fatal runtime error is
	// not recoverable), the last line of the op file is the one that did it
	fmt.Fprintln(g.ops, line)
	g.ops.Flush()
	o := g.s.Exec(ParseOp(line)) // always through the textual form: the file is the replay
	fmt.Fprintln(g.obs, o)
	g.obs.Flush()
	g.nOps++
	key := op.Kind
	if op.Sub != "" {
		key += ":" + op.Sub
	}
	out := "?"
	if i := strings.Index(o, "out="); i >= 0 {
		out = strings.Fields(o[i+4:])[0]
	}
	g.stats[key+"/"+out]++
	if op.Kind == "tx" && strings.HasPrefix(o, "out=ok") {
		for _, f := range strings.Fields(o) {
			if strings.HasPrefix(f, "events=") {
				for _, ev := range strings.Split(f[7:], "|") {
					if strings.HasPrefix(ev, "MessageSent{x") {
						b, _ := hex.DecodeString(ev[len("MessageSent{x") : len(ev)-1])
						g.sent = append(g.sent, b)
					}
				}
			}
		}
	}
	return o
}

// beginBatch opens a multi-message transaction for the next n transactions (g.tx closes it after the n-th).
func (g *Gen) beginBatch(n int) {
	if g.capture != nil || g.batchLeft > 0 || n <= 0 {
		return
	}
	g.emit(Op{Kind: "begin", KV: newKV()})
	g.batchLeft = n
}

// endBatch closes the open multi-message transaction now; returns the observation of `end`.
func (g *Gen) endBatch() string {
	if g.batchLeft <= 0 {
		return ""
	}
	g.batchLeft = 0
	o := g.emit(Op{Kind: "end", KV: newKV()})
	if g.autoDump {
		g.emit(Op{Kind: "dump", KV: newKV()})
	}
	return o
}

func (g *Gen) tx(ty string, kv *KV) string {
	if kv.get("faults") == "" {
		kv.set("faults", "-")
	}
	if g.batchLeft == 0 && g.batchRate > 0 && g.chance(g.batchRate) {
		g.beginBatch(1 + g.pick(4))
	}
	if g.batchLeft > 0 {
		defer func() {
			if g.batchLeft > 0 {
				g.batchLeft--
				if g.batchLeft == 0 {
					g.batchLeft = 1
					g.endBatch()
				}
			}
		}()
	}
	if g.simRate > 0 && g.chance(g.simRate) {
		// the same message simulated first (as every wallet does to estimate gas): the branch is discarded, so the
		// delivery that follows must behave exactly as if the simulation had never run ...
		g.emit(Op{Kind: "sim", Sub: ty, KV: kv})
		if g.chance(0.4) {
			// ... and so must everything else when the delivery never follows (the user gave up, or this was the first
			// message of a transaction whose second message failed)
			if g.autoDump {
				g.emit(Op{Kind: "dump", KV: newKV()})
			}
			return "out=discarded"
		}
	}
	o := g.emit(Op{Kind: "tx", Sub: ty, KV: kv})
	if g.autoDump {
		g.emit(Op{Kind: "dump", KV: newKV()})
	}
	return o
}

// acctIndex: position of a bech32 string in the account universe (0 if it is not one of them).
func (g *Gen) acctIndex(a string) int {
	for i, x := range g.acct {
		if x == a {
			return i
		}
	}
	return 0
}

// pickv chooses among the n variants of one way to violate (or satisfy) a condition: at random in the random part of a
// matrix, and in turn (forceVariant) in its deterministic preamble, where every variant of every condition is tried once
// whatever the seed.
func (g *Gen) pickv(n int) int {
	if g.forceVariant >= 0 {
		return g.forceVariant % n
	}
	return g.pick(n)
}

func (g *Gen) dump() string { return g.emit(Op{Kind: "dump", KV: newKV()}) }

func (g *Gen) comment(s string) {
	fmt.Fprintln(g.ops, "# "+strings.ReplaceAll(s, "\n", " "))
	fmt.Fprintln(g.obs, "#")
}

// ---- config ----

func lowerFoldTables() (string, string) {
	pool := map[string]bool{}
	for _, d := range denomPool {
		pool[d] = true
		pool[strings.ToLower(d)] = true
		pool[strings.ToLower(strings.ToLower(d))] = true
	}
	pool[mintDenom] = true
	var ks []string
	for k := range pool {
		ks = append(ks, k)
	}
	sort.Strings(ks)
	var lo, fo []string
	for _, k := range ks {
		lo = append(lo, hs(k)+":"+hs(strings.ToLower(k)))
		for _, k2 := range ks {
			fo = append(fo, hs(k)+":"+hs(k2)+":"+b01(strings.EqualFold(k, k2)))
		}
	}
	return strings.Join(lo, ","), strings.Join(fo, ",")
}

func (g *Gen) config() {
	lo, fo := lowerFoldTables()
	kv := newKV().set("prefix", hs(bech32Prefix)).set("module", hx(types.ModuleAddress)).
		set("moduleStr", hs(types.ModuleAddress.String())).set("mintingDenom", hs(mintDenom)).
		set("lower", lo).set("fold", fo)
	g.emit(Op{Kind: "config", KV: kv})
	g.sent = nil
}

func (g *Gen) fund(addr []byte, denom string, amt string) {
	g.emit(Op{Kind: "fund", KV: newKV().set("addr", hx(addr)).set("denom", hs(denom)).set("amount", amt)})
}

// ---- state readers (the generator looks at the live keeper to stay mostly valid) ----

func (g *Gen) w() *World { return g.s.w }
func (g *Gen) role(which string) string {
	defer func() { recover() }()
	switch which {
	case "owner":
		return g.w().k.GetOwner(g.w().ctx)
	case "am":
		return g.w().k.GetAttesterManager(g.w().ctx)
	case "pauser":
		return g.w().k.GetPauser(g.w().ctx)
	case "tc":
		return g.w().k.GetTokenController(g.w().ctx)
	case "pending":
		p, _ := g.w().k.GetPendingOwner(g.w().ctx)
		return p
	}
	return ""
}
func (g *Gen) attesters() []string {
	var r []string
	for _, a := range g.w().k.GetAllAttesters(g.w().ctx) {
		r = append(r, a.Attester)
	}
	return r
}
// width boundaries of the integer types the module converts between (int32/uint32/int64/uint64)
var u64Edges = []uint64{1<<31 - 1, 1 << 31, 1<<32 - 1, 1 << 32, 1<<63 - 1, 1 << 63, 1<<64 - 1}

func (g *Gen) threshold() uint32 {
	t, _ := g.w().k.GetSignatureThreshold(g.w().ctx)
	return t.Amount
}
func (g *Gen) nextNonce() uint64 {
	n, _ := g.w().k.GetNextAvailableNonce(g.w().ctx)
	return n.Nonce
}
func (g *Gen) sendPaused() bool {
	p, f := g.w().k.GetSendingAndReceivingMessagesPaused(g.w().ctx)
	return f && p.Paused
}
func (g *Gen) burnPaused() bool {
	p, f := g.w().k.GetBurningAndMintingPaused(g.w().ctx)
	return f && p.Paused
}

// enabledKeys returns the indices of our deterministic keys that are currently enabled
// (under any spelling), sorted by signer address.
func (g *Gen) enabledKeys() []int {
	var r []int
	for i, k := range g.keys {
		pub := crypto.FromECDSAPub(&k.PublicKey)
		for _, a := range g.attesters() {
			if bytes.Equal(fromHexGo(a), pub) {
				r = append(r, i)
				break
			}
		}
	}
	sort.Slice(r, func(a, b int) bool {
		return bytes.Compare(g.addrOf(r[a]), g.addrOf(r[b])) < 0
	})
	return r
}

func fromHexGo(s string) []byte {
	if len(s) >= 2 && s[0] == '0' && (s[1] == 'x' || s[1] == 'X') {
		s = s[2:]
	}
	if len(s)%2 == 1 {
		s = "0" + s
	}
	b, _ := hex.DecodeString(s)
	return b
}

func (g *Gen) addrOf(i int) []byte { return crypto.PubkeyToAddress(g.keys[i].PublicKey).Bytes() }

// ---- pools ----

func (g *Gen) pick(n int) int { return g.rng.Intn(n) }
func (g *Gen) chance(p float64) bool {
	return g.rng.Float64() < p
}
// anyAcct: one of the six ordinary (20-byte) accounts; one time in fourteen an account whose address has another length
// (the SDK admits 1..255 bytes): 32 bytes, 1 byte, 7, 21, 255 -- funded like the others.
func (g *Gen) anyAcct() string {
	if len(g.oddAcct) > 0 && g.pick(14) == 0 {
		return g.oddAcct[g.pick(len(g.oddAcct))]
	}
	return g.acct[g.pick(len(g.acct))]
}

func pad32(b []byte) []byte {
	r := make([]byte, 32)
	if len(b) > 32 {
		b = b[len(b)-32:]
	}
	copy(r[32-len(b):], b)
	return r
}

// rand32: a non-zero 32-byte word.  One in four is sparse -- non-zero only in the high 12 bytes, only in the
// low 20, only in the first, the last or one random byte -- because every 32-byte field of the protocol is somewhere
// truncated to an address, compared with zero or sliced.
func (g *Gen) rand32() []byte {
	b := make([]byte, 32)
	if !g.chance(0.25) {
		g.rng.Read(b)
		return b
	}
	switch g.pick(5) {
	case 0:
		g.rng.Read(b[:12])
		b[g.pick(12)] |= 1
	case 1:
		g.rng.Read(b[12:])
		b[12+g.pick(20)] |= 1
	case 2:
		b[0] = byte(1 + g.pick(255))
	case 3:
		b[31] = byte(1 + g.pick(255))
	default:
		b[g.pick(32)] = byte(1 + g.pick(255))
	}
	return b
}

// otherRecipient: a 32-byte recipient that is NOT the padded module address -- random, or one of the
// near misses (module account in the low 20 bytes under non-zero padding, module account left-aligned,
// one byte off at either end, a truncated module account re-padded).
func (g *Gen) otherRecipient() []byte {
	if g.chance(0.6) {
		return g.rand32()
	}
	return g.nearModule(g.pick(nNearModule))
}

const nNearModule = 5

// nearModule(k): the k-th near miss of the padded module address.
func (g *Gen) nearModule(k int) []byte {
	b := append([]byte{}, types.PaddedModuleAddress...)
	switch k % nNearModule {
	case 0:
		g.rng.Read(b[:12])
		b[g.pick(12)] |= 1
	case 1:
		b = append(append([]byte{}, types.ModuleAddress...), make([]byte, 12)...)
	case 2:
		b[31] ^= 1
	case 3:
		b[0] = 1
	default:
		b = pad32(types.ModuleAddress[1:])
	}
	return b
}

// remoteTokenSpelling: query-side spellings of a remote token -- every byte length around the 32-byte slot,
// with and without the optional 0x prefix, odd digit counts, wrong-case prefix.
func (g *Gen) remoteTokenSpelling() string {
	n := []int{0, 1, 20, 31, 32, 33, 34, 40, 64}[g.pick(9)]
	b := g.randBytes(n)
	if n == 32 && g.chance(0.5) {
		b = token(g.pick(3))
	} else if n > 32 && g.chance(0.6) {
		// over-long, but ENDING in a registered token: a decoder that crops from the left would find that pair
		copy(b[n-32:], token(g.pick(3)))
	} else if n == 20 && g.chance(0.3) {
		copy(b, token(g.pick(3))[12:]) // the low 20 bytes of a registered token
	}
	s := hx(b)
	switch g.pick(8) {
	case 0, 1, 2:
		return "0x" + s
	case 3, 4, 5:
		return s
	case 6:
		return "0x" + s + "f"
	default:
		return "0X" + s
	}
}

var domainPool = []uint32{0, 1, 3, 4, 5, 0xffffffff, 1<<31 - 1, 1 << 31, 256, 1 << 24, 1 << 16, 1<<16 + 1, 1<<16 - 1, 1<<16 + 3, 255, 1<<24 + 1, 0xff000000}

func (g *Gen) domain() uint32 { return domainPool[g.pick(len(domainPool))] }

// tokens: a few 32-byte remote tokens that differ in one byte
func token(i int) []byte {
	t := bytes.Repeat([]byte{0xaa}, 32)
	t[31] = byte(i)
	return t
}

func messengerAddr(domain uint32) []byte {
	b := bytes.Repeat([]byte{0x11}, 32)
	binary.BigEndian.PutUint32(b[0:4], domain)
	return b
}

// weirdAddresses: one representative of every way a string can fail (or barely pass) as an account address.
func (g *Gen) weirdAddresses() []string {
	raw := g.acctRaw[g.pick(len(g.acctRaw))]
	a := g.acct[g.pick(len(g.acct))]
	enc := func(prefix string, b []byte) string {
		s, _ := bech32.ConvertAndEncode(prefix, b)
		return s
	}
	return []string{
		"", "   ",
		strings.ToUpper(a),      // all upper case: valid bech32, same account
		enc("cosmos", raw),      // checksum-correct, foreign prefix
		enc("nobl", raw),        // checksum-correct, prefix of the prefix
		a[:len(a)-1] + map[bool]string{true: "q", false: "p"}[a[len(a)-1] != 'q'], // bad checksum
		enc(bech32Prefix, g.rand32()),             // 32-byte payload: valid
		enc(bech32Prefix, []byte{7}),              // 1-byte payload: valid
		enc(bech32Prefix, []byte{}),               // empty payload, correct checksum
		enc(bech32Prefix, g.randBytes(255)),       // longest valid payload
		enc(bech32Prefix, g.randBytes(256)),       // one byte too long
		bech32Prefix + "1",
		a[:8] + strings.ToUpper(a[8:]),            // mixed case
		types.ModuleAddress.String(),
		// a valid address with something around it: not an address (a tolerant parser must not let it into a role slot)
		a + " ", " " + a, a + "\n", "\t" + a, a + "\x00", a + "q", "0x" + hx(raw), hx(raw),
	}
}

func (g *Gen) weirdAddress() string {
	w := g.weirdAddresses()
	return w[g.pick(len(w))]
}

var amountPool = []string{"-", "-1", "0", "1", "2", "1000", "18446744073709551615", "18446744073709551616",
	"57896044618658097711785492504343953926634992332820282019728792003956564819968",
	"115792089237316195423570985008687907853269984665640564039457584007913129639935"}

// ---- attestation builder ----

type attOpts struct {
	signers  []int // key indices, in the order to concatenate (nil = honest: first t enabled, sorted)
	legacyV  int   // 0: v in {0,1}; 1: {27,28}; 2: mixed
	overMsg  []byte
	mutation string
}

func (g *Gen) sign(key int, msg []byte) []byte {
	d := crypto.Keccak256(msg)
	sig, err := crypto.Sign(d, g.keys[key])
	if err != nil {
		panic(err)
	}
	return sig
}

var secpN, _ = new(big.Int).SetString("fffffffffffffffffffffffffffffffebaaedce6af48a03bbfd25e8cd0364141", 16)

// mirrorSign signs with the negated private key n-d: its public key shares the X coordinate of key's
// public key (the point's mirror image) but is a different key with a different address, never enabled.
func (g *Gen) mirrorSign(key int, msg []byte) []byte {
	d := new(big.Int).Sub(secpN, g.keys[key].D)
	mk, err := crypto.ToECDSA(d.FillBytes(make([]byte, 32)))
	if err != nil {
		panic(err)
	}
	sig, err := crypto.Sign(crypto.Keccak256(msg), mk)
	if err != nil {
		panic(err)
	}
	return sig
}

// sortSigsByAddr reorders the 65-byte signatures of att by the address of the key each recovers to over msg,
// so that only the membership check can object.
func sortSigsByAddr(msg, att []byte) []byte {
	type sa struct {
		sig  []byte
		addr []byte
	}
	var l []sa
	h := crypto.Keccak256(msg)
	for i := 0; i+65 <= len(att); i += 65 {
		sig := normV(att[i : i+65])
		pub, err := crypto.Ecrecover(h, sig)
		if err != nil {
			return att
		}
		l = append(l, sa{att[i : i+65], crypto.Keccak256(pub[1:])[12:]})
	}
	sort.SliceStable(l, func(i, j int) bool { return bytes.Compare(l[i].addr, l[j].addr) < 0 })
	var out []byte
	for _, x := range l {
		out = append(out, x.sig...)
	}
	return out
}

func highS(sig []byte) []byte {
	c := append([]byte{}, sig...)
	s := new(big.Int).SetBytes(c[32:64])
	s.Sub(secpN, s)
	s.FillBytes(c[32:64])
	c[64] ^= 1
	return c
}

// honestAttestation signs msg with the first t enabled keys in address order.
func (g *Gen) attest(msg []byte, o attOpts) []byte {
	signers := o.signers
	if signers == nil {
		en := g.enabledKeys()
		t := int(g.threshold())
		if t > len(en) {
			t = len(en)
		}
		signers = en[:t]
	}
	over := msg
	if o.overMsg != nil {
		over = o.overMsg
	}
	var att []byte
	for i, k := range signers {
		sig := g.sign(k, over)
		if o.legacyV == 1 || (o.legacyV == 2 && i%2 == 0) {
			sig[64] += 27
		}
		att = append(att, sig...)
	}
	switch o.mutation {
	case "trunc1":
		if len(att) > 0 {
			att = att[:len(att)-1]
		}
	case "trunc65":
		if len(att) >= 65 {
			att = att[:len(att)-65]
		}
	case "pad1":
		att = append(att, 0)
	case "pad65":
		if len(att) >= 65 {
			att = append(att, att[:65]...)
		}
	case "dupLast":
		if len(att) >= 130 {
			copy(att[len(att)-65:], att[len(att)-130:len(att)-65])
		}
	case "highSTwin":
		// replace the last signature by the high-s twin of the previous one
		if len(att) >= 130 {
			copy(att[len(att)-65:], highS(att[len(att)-130:len(att)-65]))
		}
	case "highSFirst":
		if len(att) >= 65 {
			copy(att[:65], highS(att[:65]))
		}
	case "mirrorKey":
		// the last signature is replaced by one from the mirror image of the first signer's key
		if len(att) >= 65 && len(signers) > 0 {
			copy(att[len(att)-65:], g.mirrorSign(signers[0], over))
			att = sortSigsByAddr(over, att)
		}
	case "reverse":
		n := len(att) / 65
		r := make([]byte, 0, len(att))
		for i := n - 1; i >= 0; i-- {
			r = append(r, att[i*65:(i+1)*65]...)
		}
		att = r
	case "badV":
		if len(att) >= 65 {
			att[len(att)-1] = []byte{2, 3, 4, 29}[g.pick(4)]
		}
	case "zeroR":
		if len(att) >= 65 {
			for i := 0; i < 32; i++ {
				att[i] = 0
			}
		}
	case "flipBit":
		if len(att) >= 65 {
			att[g.pick(64)] ^= 1
		}
	}
	return att
}

// ---- message builders ----

func buildMessage(version, src, dst uint32, nonce uint64, sender, recipient, caller, body []byte) []byte {
	b := make([]byte, 0, 116+len(body))
	b = binary.BigEndian.AppendUint32(b, version)
	b = binary.BigEndian.AppendUint32(b, src)
	b = binary.BigEndian.AppendUint32(b, dst)
	b = binary.BigEndian.AppendUint64(b, nonce)
	b = append(b, pad32(sender)...)
	b = append(b, pad32(recipient)...)
	b = append(b, pad32(caller)...)
	return append(b, body...)
}

func buildBurnBody(version uint32, tok, recipient []byte, amount *big.Int, sender []byte) []byte {
	b := make([]byte, 0, 132)
	b = binary.BigEndian.AppendUint32(b, version)
	b = append(b, pad32(tok)...)
	b = append(b, pad32(recipient)...)
	b = append(b, amount.FillBytes(make([]byte, 32))...)
	return append(b, pad32(sender)...)
}

// ---- genesis ----

type genSpec struct {
	owner, am, pauser, tc string
	attesters             []string
	limits                []string // hexdenom:amount
	burnPaused            string
	sendPaused            string
	maxBody               string
	nextNonce             string
	threshold             string
	pairs                 []string
	used                  []string
	messengers            []string
}

func (s genSpec) kv() *KV {
	return newKV().set("owner", hs(s.owner)).set("am", hs(s.am)).set("pauser", hs(s.pauser)).set("tc", hs(s.tc)).
		set("attesters", joinOr(",", s.attesters)).set("limits", joinOr(",", s.limits)).
		set("burnPaused", s.burnPaused).set("sendPaused", s.sendPaused).set("maxBody", s.maxBody).
		set("nextNonce", s.nextNonce).set("threshold", s.threshold).set("pairs", joinOr(",", s.pairs)).
		set("used", joinOr(",", s.used)).set("messengers", joinOr(",", s.messengers))
}

// standardGenesis: distinct role holders, nAtt attesters, threshold t, domains 0,1,3 configured.
func (g *Gen) standardGenesis(nAtt int, t int) genSpec {
	s := genSpec{owner: g.acct[0], am: g.acct[1], pauser: g.acct[2], tc: g.acct[3],
		burnPaused: "0", sendPaused: "0", maxBody: "8000", nextNonce: "0:0", threshold: fmt.Sprint(t)}
	for i := 0; i < nAtt; i++ {
		s.attesters = append(s.attesters, hs(g.pubHex[i]))
	}
	for _, d := range []uint32{0, 1, 3} {
		s.messengers = append(s.messengers, fmt.Sprintf("%d:%x", d, messengerAddr(d)))
		s.pairs = append(s.pairs, fmt.Sprintf("%d:%x:%s", d, token(0), hs(g.localTokenSpelling())))
	}
	return s
}

// localTokenSpelling: the local token of a genesis token pair -- usually the minting denom as is, sometimes in another
// letter case (genesis stores it verbatim; only LinkTokenPair lower-cases), so that "the denom that is minted" and
// "the denom that is stored" differ.
func (g *Gen) localTokenSpelling() string {
	if g.chance(0.2) {
		return strings.ToUpper(mintDenom)
	}
	if g.chance(0.1) && len(mintDenom) > 1 {
		return strings.ToUpper(mintDenom[:1]) + mintDenom[1:]
	}
	return mintDenom
}

func (g *Gen) initStandard(nAtt, t int) {
	g.config()
	for i := range g.acctRaw {
		g.fund(g.acctRaw[i], mintDenom, "1000000000000")
	}
	for i := range g.oddRaw {
		g.fund(g.oddRaw[i], mintDenom, "1000000000000")
	}
	g.fund(g.acctRaw[0], "UUSDC", "5000")
	g.fund(g.acctRaw[0], "other", "5000")
	if g.chance(0.5) {
		// a stray balance on the module account (a transfer to it, or an inbound mint naming it) must not be touched
		g.fund(types.ModuleAddress, mintDenom, []string{"1", "777", "18446744073709551616"}[g.pick(3)])
	}
	sp := g.standardGenesis(nAtt, t)
	g.emit(Op{Kind: "genesis-init", KV: sp.kv()})
	g.dump()
}

// ---- valid-by-construction user ops ----

func (g *Gen) opSend(from string, withCaller bool) (string, *KV) {
	kv := newKV().set("from", hs(from)).set("dest", fmt.Sprint(g.domain())).set("recipient", hx(g.rand32()))
	body := make([]byte, g.pick(40))
	g.rng.Read(body)
	kv.set("body", hx(body))
	if withCaller {
		kv.set("caller", hx(g.rand32()))
		return "SendMessageWithCaller", kv
	}
	return "SendMessage", kv
}

func (g *Gen) opDeposit(from string, amount string, withCaller bool) (string, *KV) {
	kv := newKV().set("from", hs(from)).set("amount", amount).set("dest", fmt.Sprint([]uint32{0, 1, 3}[g.pick(3)])).
		set("mintRecipient", hx(g.rand32())).set("burnToken", hs(mintDenom))
	if withCaller {
		kv.set("caller", hx(g.rand32()))
		return "DepositForBurnWithCaller", kv
	}
	return "DepositForBurn", kv
}

// opReceive builds a receive of `msg` attested honestly under the current configuration.
func (g *Gen) opReceive(from string, msg []byte, o attOpts) *KV {
	att := g.attest(msg, o)
	return newKV().set("from", hs(from)).set("message", hx(msg)).set("attestation", hx(att)).set("ecr", ecrEntries(msg, att))
}

// inboundBurn builds a module-addressed burn message from domain src.
func (g *Gen) inboundBurn(src uint32, nonce uint64, amount *big.Int, recipientAcct int) []byte {
	rcp := g.acctRaw[recipientAcct]
	if g.chance(0.06) {
		rcp = types.ModuleAddress // minting to the module's own account leaves it with a balance
	}
	body := buildBurnBody(0, token(0), pad32(rcp), amount, g.rand32())
	return buildMessage(0, src, 4, nonce, messengerAddr(src), types.PaddedModuleAddress, make([]byte, 32), body)
}

func bigPool(g *Gen) *big.Int {
	switch g.pick(9) {
	case 6:
		return big.NewInt(0)
	case 7:
		return new(big.Int).Add(new(big.Int).Lsh(big.NewInt(1), 64), big.NewInt(5))
	case 8:
		return new(big.Int).Lsh(big.NewInt(1), 63)
	case 0:
		return big.NewInt(1)
	case 1:
		return new(big.Int).Lsh(big.NewInt(1), 64)
	case 2:
		return new(big.Int).Sub(new(big.Int).Lsh(big.NewInt(1), 256), big.NewInt(1))
	case 3:
		return new(big.Int).Lsh(big.NewInt(1), 255)
	default:
		return big.NewInt(int64(1 + g.pick(100000)))
	}
}

func accAddrOK(s string) bool {
	_, err := sdk.AccAddressFromBech32(s)
	return err == nil
}
