package main

// Deterministic matrices and targeted scenarios (DESIGN.md section 7): each enumerates the guard
// structure of one flow — every condition, every boundary — and crosses it with random field values.

import (
	"bytes"
	"crypto/ecdsa"
	"crypto/sha256"
	"encoding/binary"
	"fmt"
	"math/big"
	"sort"
	"strings"

	"github.com/cosmos/cosmos-sdk/types/bech32"
	"github.com/ethereum/go-ethereum/crypto"

	"github.com/circlefin/noble-cctp/x/cctp/types"
)

func init() {
	scenarios["attest"] = scnAttest
	scenarios["recvmatrix"] = scnRecvMatrix
	scenarios["depmatrix"] = scnDepMatrix
	scenarios["nonces"] = scnNonces
	scenarios["roles"] = scnRoles
	scenarios["pause"] = scnPause
	scenarios["attesters"] = scnAttesters
	scenarios["faults"] = scnFaults
	scenarios["genesis"] = scnGenesis
	scenarios["registry"] = scnRegistry
	scenarios["crash"] = scnCrash
}

// ---------------------------------------------------------------------------------------------
// attest: direct calls of the exported verifier.

func (g *Gen) sortedKeys(ix []int) []int {
	r := append([]int{}, ix...)
	sort.Slice(r, func(a, b int) bool { return bytes.Compare(g.addrOf(r[a]), g.addrOf(r[b])) < 0 })
	return r
}

func (g *Gen) verifyOp(msg, att []byte, attesters []string, t int) {
	var as []string
	for _, a := range attesters {
		as = append(as, hs(a))
	}
	g.emit(Op{Kind: "verify", KV: newKV().set("message", hx(msg)).set("attestation", hx(att)).
		set("attesters", joinOr(",", as)).set("threshold", fmt.Sprint(t)).set("ecr", ecrEntries(msg, att))})
}

// attestLargeQuorums: thresholds far beyond the handful of attesters a chain usually has (16, 17, 64, 256, 257: past any
// "small" fast path, past a byte-sized counter).  An honest quorum; two neighbours swapped exactly in the middle; one
// signer twice across the middle; the first half repeated (each half in order, the whole not); a stranger in the
// last position.
func (g *Gen) attestLargeQuorums() {
	type ks struct {
		k    *ecdsa.PrivateKey
		addr []byte
		hexs string
	}
	var pool []ks
	for i := 0; i < 260; i++ {
		h := sha256.Sum256([]byte(fmt.Sprintf("big-attester-%d", i)))
		k, err := crypto.ToECDSA(h[:])
		if err != nil {
			continue
		}
		pool = append(pool, ks{k, crypto.PubkeyToAddress(k.PublicKey).Bytes(), "0x" + hx(crypto.FromECDSAPub(&k.PublicKey))})
	}
	sort.Slice(pool, func(a, b int) bool { return bytes.Compare(pool[a].addr, pool[b].addr) < 0 })
	sign := func(k ks, msg []byte) []byte {
		sig, _ := crypto.Sign(crypto.Keccak256(msg), k.k)
		return sig
	}
	for _, t := range []int{16, 17, 64, 256, 257} {
		if t+1 > len(pool) {
			continue
		}
		var attesters []string
		for _, k := range pool[:t] {
			attesters = append(attesters, k.hexs)
		}
		msg := g.randBytes(40)
		var sigs [][]byte
		for _, k := range pool[:t] {
			sigs = append(sigs, sign(k, msg))
		}
		join := func(ss [][]byte) []byte {
			var a []byte
			for _, x := range ss {
				a = append(a, x...)
			}
			return a
		}
		h := t / 2
		g.verifyOp(msg, join(sigs), attesters, t)
		sw := append([][]byte{}, sigs...)
		sw[h-1], sw[h] = sw[h], sw[h-1]
		g.verifyOp(msg, join(sw), attesters, t)
		du := append([][]byte{}, sigs...)
		du[h] = du[h-1]
		g.verifyOp(msg, join(du), attesters, t)
		rp := append(append([][]byte{}, sigs[:h]...), sigs[:t-h]...)
		g.verifyOp(msg, join(rp), attesters, t)
		st := append([][]byte{}, sigs...)
		st[t-1] = sign(pool[t], msg) // pool[t] is not enabled; its address is above all the others, so the order holds
		g.verifyOp(msg, join(st), attesters, t)
	}
}

// attestNearAddresses: two attesters whose Ethereum addresses share their first four bytes (found once by a birthday
// search over deterministic keys: `harness findnear`): address order is decided by the fifth byte onwards.  Honest quorum
// in order; the same two reversed; one of them twice.
func (g *Gen) attestNearAddresses() {
	type ks struct {
		k    *ecdsa.PrivateKey
		addr []byte
		hexs string
	}
	var pair []ks
	for _, i := range []int{94033, 96515} {
		h := sha256.Sum256([]byte(fmt.Sprintf("near-attester-%d", i)))
		k, err := crypto.ToECDSA(h[:])
		if err != nil {
			return
		}
		pair = append(pair, ks{k, crypto.PubkeyToAddress(k.PublicKey).Bytes(), "0x" + hx(crypto.FromECDSAPub(&k.PublicKey))})
	}
	if !bytes.Equal(pair[0].addr[:4], pair[1].addr[:4]) {
		return
	}
	sort.Slice(pair, func(a, b int) bool { return bytes.Compare(pair[a].addr, pair[b].addr) < 0 })
	attesters := []string{pair[0].hexs, pair[1].hexs, g.pubHex[0]}
	for r := 0; r < 3; r++ {
		msg := g.randBytes(30 + r)
		sig := func(k ks) []byte {
			s, _ := crypto.Sign(crypto.Keccak256(msg), k.k)
			return s
		}
		a, b := sig(pair[0]), sig(pair[1])
		g.verifyOp(msg, append(append([]byte{}, a...), b...), attesters, 2)
		g.verifyOp(msg, append(append([]byte{}, b...), a...), attesters, 2)
		g.verifyOp(msg, append(append([]byte{}, a...), a...), attesters, 2)
		g.verifyOp(msg, append(append([]byte{}, b...), b...), attesters, 2)
	}
}

func scnAttest(g *Gen, budget int, arg string) {
	g.config()
	g.attestLargeQuorums()
	g.attestNearAddresses()
	for g.nOps < budget {
		n := 1 + g.pick(5) // enabled set size
		t := 1 + g.pick(n) // threshold
		perm := g.rng.Perm(len(g.keys))
		enabled := perm[:n]
		var attesters []string
		for _, k := range enabled {
			attesters = append(attesters, g.attesterSpelling(k))
		}
		if g.chance(0.2) {
			attesters = append(attesters, []string{"", "0x", "zz", "0x04"}[g.pick(4)])
		}
		msg := g.randBytes(g.pick(200))
		signers := g.sortedKeys(enabled)[:t]
		if g.chance(0.3) {
			// any t of the n
			p2 := g.rng.Perm(n)
			var s []int
			for _, i := range p2[:t] {
				s = append(s, enabled[i])
			}
			signers = g.sortedKeys(s)
		}
		mk := func(sg []int, legacy int, over []byte) []byte {
			var att []byte
			for i, k := range sg {
				m := msg
				if over != nil {
					m = over
				}
				sig := g.sign(k, m)
				if legacy == 1 || (legacy == 2 && i%2 == 0) {
					sig[64] += 27
				}
				att = append(att, sig...)
			}
			return att
		}
		legacy := g.pick(3)
		honest := mk(signers, legacy, nil)
		pos := g.pick(t)
		switch g.pick(19) {
		case 18: // the mirror image (negated private key) of signer j's key at position pos: same X, other key
			a := append([]byte{}, honest...)
			j := g.pick(t)
			copy(a[pos*65:(pos+1)*65], g.mirrorSign(signers[j], msg))
			g.verifyOp(msg, sortSigsByAddr(msg, a), attesters, t)
		case 0, 1, 2:
			g.verifyOp(msg, honest, attesters, t)
		case 3: // swap two positions
			if t >= 2 {
				a := append([]byte{}, honest...)
				j := (pos + 1 + g.pick(t-1)) % t
				tmp := append([]byte{}, a[pos*65:(pos+1)*65]...)
				copy(a[pos*65:], a[j*65:(j+1)*65])
				copy(a[j*65:], tmp)
				g.verifyOp(msg, a, attesters, t)
			}
		case 4: // duplicate signature j at position pos
			if t >= 2 {
				a := append([]byte{}, honest...)
				j := (pos + 1 + g.pick(t-1)) % t
				copy(a[pos*65:(pos+1)*65], honest[j*65:(j+1)*65])
				g.verifyOp(msg, a, attesters, t)
			}
		case 5: // high-s twin of signature j at position pos (same signer, different bytes)
			a := append([]byte{}, honest...)
			j := g.pick(t)
			src := normV(honest[j*65 : (j+1)*65])
			copy(a[pos*65:(pos+1)*65], highS(src))
			g.verifyOp(msg, a, attesters, t)
		case 6: // a key outside the enabled set at position pos (re-sorted so that only membership fails)
			if n < len(g.keys) {
				out := perm[n+g.pick(len(g.keys)-n)]
				s := append([]int{}, signers...)
				s[pos] = out
				if g.chance(0.7) {
					s = g.sortedKeys(s)
				}
				g.verifyOp(msg, mk(s, legacy, nil), attesters, t)
			}
		case 7: // signature over other bytes at position pos
			a := append([]byte{}, honest...)
			other := append(append([]byte{}, msg...), byte(g.pick(256)))
			copy(a[pos*65:(pos+1)*65], g.sign(signers[pos], other))
			g.verifyOp(msg, a, attesters, t)
		case 8: // all signatures over other bytes
			g.verifyOp(msg, mk(signers, legacy, append([]byte{1}, msg...)), attesters, t)
		case 9:
			g.verifyOp(msg, honest[:len(honest)-1], attesters, t)
		case 10:
			g.verifyOp(msg, honest[:len(honest)-65], attesters, t)
		case 11:
			g.verifyOp(msg, append(append([]byte{}, honest...), 0), attesters, t)
		case 12: // more signatures than the threshold
			extra := g.sortedKeys(enabled)
			g.verifyOp(msg, mk(extra, legacy, nil), attesters, t)
			g.verifyOp(msg, append(append([]byte{}, honest...), honest[:65]...), attesters, t)
		case 13: // recovery id out of range at position pos
			a := append([]byte{}, honest...)
			a[pos*65+64] = []byte{2, 3, 4, 26, 29, 255}[g.pick(6)]
			g.verifyOp(msg, a, attesters, t)
		case 14: // r or s in {0, n, n+1}
			a := append([]byte{}, honest...)
			v := [][]byte{make([]byte, 32), secpN.FillBytes(make([]byte, 32)), new(big.Int).Add(secpN, big.NewInt(1)).FillBytes(make([]byte, 32))}[g.pick(3)]
			off := pos*65 + 32*g.pick(2)
			copy(a[off:off+32], v)
			g.verifyOp(msg, a, attesters, t)
		case 15: // threshold 0 / threshold above the signatures supplied
			g.verifyOp(msg, honest, attesters, 0)
			g.verifyOp(msg, []byte{}, attesters, 0)
			g.verifyOp(msg, honest, attesters, t+1)
		case 16: // flipped bit anywhere
			a := append([]byte{}, honest...)
			a[g.pick(len(a))] ^= byte(1 << g.pick(8))
			g.verifyOp(msg, a, attesters, t)
		case 17: // empty attester set, unsorted honest set
			g.verifyOp(msg, honest, nil, t)
			rs := append([]int{}, signers...)
			g.rng.Shuffle(len(rs), func(i, j int) { rs[i], rs[j] = rs[j], rs[i] })
			g.verifyOp(msg, mk(rs, legacy, nil), attesters, t)
		}
	}
}

// ---------------------------------------------------------------------------------------------
// recvmatrix: every subset of the acceptance conditions of ReceiveMessage.

const (
	rcSendUnpaused = iota
	rcAttValid
	rcLen
	rcDest
	rcVersion
	rcNonceFree
	rcCaller
	rcBurnUnpaused
	rcBodyLen
	rcBodyVersion
	rcSender
	rcPair
	rcMint
	rcN
)

func (g *Gen) pauseTx(which string, on bool) {
	name := map[bool]string{true: "Pause", false: "Unpause"}[on] + which
	g.tx(name, newKV().set("from", hs(g.role("pauser"))))
}

func (g *Gen) recvCase(ok [rcN]bool, module bool, usedPool *[][2]uint64) {
	if !ok[rcSendUnpaused] {
		g.pauseTx("SendingAndReceivingMessages", true)
	}
	if !ok[rcBurnUnpaused] {
		g.pauseTx("BurningAndMinting", true)
	}
	src := []uint32{0, 1, 3}[g.pick(3)]
	nonce := g.freshNonce(src)
	if !ok[rcNonceFree] {
		if len(*usedPool) == 0 {
			// consume one first (state is unpaused only if the flags allow; use a direct, always-valid receive later)
			nonce = g.freshNonce(src)
		} else {
			u := (*usedPool)[g.pick(len(*usedPool))]
			src, nonce = uint32(u[0]), u[1]
		}
	}
	submitter := g.pick(len(g.acct))
	from := g.acct[submitter]
	caller := make([]byte, 32)
	if ok[rcCaller] {
		switch g.pickv(4) {
		case 0, 1:
			caller = pad32(g.acctRaw[submitter])
		case 2:
			// only the low 20 bytes name the caller; the high 12 are ignored by the address comparison
			caller = pad32(g.acctRaw[submitter])
			copy(caller[:12], g.randBytes(12))
		}
	} else {
		switch g.pickv(5) {
		case 0:
			caller = pad32(g.acctRaw[(submitter+1)%len(g.acct)])
		case 1:
			caller = g.rand32()
		case 2:
			// non-zero field whose low 20 bytes are zero: still "a caller is named" (and it is nobody)
			caller = make([]byte, 32)
			caller[g.pick(12)] = byte(1 + g.pick(255))
		case 3:
			caller = make([]byte, 32)
			caller[31] = 1
		default:
			caller = pad32(g.acctRaw[(submitter+1)%len(g.acct)])
			copy(caller[:12], g.randBytes(12))
		}
	}
	dest := uint32(4)
	if !ok[rcDest] {
		dest = []uint32{0, 1, 3, 5, 0xffffffff}[g.pickv(5)]
	}
	version := uint32(0)
	if !ok[rcVersion] {
		version = []uint32{1, 2, 0xffffffff}[g.pickv(3)]
	}
	var msg []byte
	faults := "-"
	noMessenger := false
	if module {
		bver := uint32(0)
		if !ok[rcBodyVersion] {
			bver = 1 + uint32(g.pickv(3))
		}
		tok := token(0)
		if !ok[rcPair] {
			tok = token(5 + g.pickv(3))
		}
		sender := messengerAddr(src)
		if !ok[rcSender] && (g.forceVariant == 5 || (g.forceVariant < 0 && g.chance(0.2))) {
			// no messenger registered for the source domain at all (restored after the receive)
			noMessenger = true
			g.tx("RemoveRemoteTokenMessenger", newKV().set("from", hs(g.role("owner"))).set("domain", fmt.Sprint(src)))
		} else if !ok[rcSender] {
			switch g.pickv(5) {
			case 0:
				sender = g.rand32()
			case 1: // differs only in the high 12 bytes
				sender = append([]byte{}, sender...)
				sender[g.pick(12)] ^= byte(1 + g.pick(255))
			case 2: // differs only in the low 20 bytes
				sender = append([]byte{}, sender...)
				sender[12+g.pick(20)] ^= byte(1 + g.pick(255))
			case 3: // the messenger of another domain
				sender = messengerAddr(src + 1)
			default:
				sender = append([]byte{}, sender...)
				sender[31] ^= 1
			}
		}
		amt := bigPool(g)
		if g.forceVariant >= 0 && amt.Sign() == 0 {
			// the deterministic sweep fails exactly ONE condition per case: a zero amount is itself a failing mint
			amt = big.NewInt(17)
		}
		if !ok[rcMint] {
			if g.pickv(2) == 0 {
				amt = big.NewInt(0)
			} else {
				faults = "1"
			}
		}
		body := buildBurnBody(bver, tok, pad32(g.acctRaw[g.pick(len(g.acctRaw))]), amt, g.rand32())
		if g.chance(0.3) {
			copy(body[36:48], g.randBytes(12)) // non-zero high bytes of the mint recipient
		}
		if !ok[rcBodyLen] {
			switch g.pickv(4) {
			case 0:
				body = body[:131]
			case 1:
				body = append(body, 0)
			case 2:
				body = body[:g.pick(131)]
			default:
				body = append(body, g.randBytes(1+g.pick(300))...)
			}
		}
		msg = buildMessage(version, src, dest, nonce, sender, types.PaddedModuleAddress, caller, body)
	} else {
		n := []int{0, 1, 132, 4000, 8116}[g.pick(5)]
		if g.chance(0.5) {
			n = g.pick(300)
		}
		rcp := g.otherRecipient()
		msg = buildMessage(version, src, dest, nonce, g.rand32(), rcp, caller, g.randBytes(n))
	}
	if !ok[rcLen] {
		msg = msg[:g.pick(116)]
	}
	o := attOpts{legacyV: g.pick(3)}
	if !ok[rcAttValid] {
		muts := []string{"trunc1", "trunc65", "pad1", "pad65", "dupLast", "highSTwin", "reverse", "badV", "zeroR", "flipBit", "other", "unknown", "mirrorKey"}
		m := muts[g.pickv(len(muts))]
		switch m {
		case "other":
			o.overMsg = append(append([]byte{}, msg...), 7)
		case "unknown":
			en := g.enabledKeys()
			var outside []int
			for i := range g.keys {
				found := false
				for _, e := range en {
					if e == i {
						found = true
					}
				}
				if !found {
					outside = append(outside, i)
				}
			}
			t := int(g.threshold())
			if len(outside) > 0 && t <= len(en) {
				s := append([]int{}, en[:t]...)
				s[g.pick(t)] = outside[g.pick(len(outside))]
				o.signers = g.sortedKeys(s)
			} else {
				o.mutation = "flipBit"
			}
		default:
			o.mutation = m
		}
		if (m == "dupLast" || m == "highSTwin" || m == "reverse") && g.threshold() < 2 {
			o.mutation = "flipBit"
		}
	}
	kv := g.opReceive(from, msg, o)
	kv.set("faults", faults)
	if o.mutation != "" {
		kv.set("#mut", o.mutation)
	}
	out := g.tx("ReceiveMessage", kv)
	if strings.HasPrefix(out, "out=ok") {
		*usedPool = append(*usedPool, [2]uint64{uint64(src), nonce})
	}
	if noMessenger {
		g.tx("AddRemoteTokenMessenger", newKV().set("from", hs(g.role("owner"))).set("domain", fmt.Sprint(src)).set("address", hx(messengerAddr(src))))
	}
	if !ok[rcSendUnpaused] {
		g.pauseTx("SendingAndReceivingMessages", false)
	}
	if !ok[rcBurnUnpaused] {
		g.pauseTx("BurningAndMinting", false)
	}
	if !strings.HasPrefix(out, "out=ok") && g.chance(0.35) {
		// the obstacle is gone: a well-formed message for the SAME (source domain, nonce) must now go through exactly as
		// if the failed attempt had never happened (nothing of a failed receive may survive, in the store or outside it)
		retry := g.inboundBurn(src, nonce, big.NewInt(int64(1+g.pick(100))), g.pick(len(g.acctRaw)))
		out2 := g.tx("ReceiveMessage", g.opReceive(g.anyAcct(), retry, attOpts{}))
		if strings.HasPrefix(out2, "out=ok") {
			*usedPool = append(*usedPool, [2]uint64{uint64(src), nonce})
		}
	}
}

// recvOddShapes: (a) the destination caller names an ACCOUNT, by the bech32 string of its low 20 bytes: submitters whose
// address is not 20 bytes long but overlaps those bytes are other accounts; (b) token messengers that only a genesis can
// contain (shorter or longer than 32 bytes, empty): the sender field is 32 bytes, so it equals none of them and no burn
// message from such a domain is ever accepted.
func (g *Gen) recvOddShapes() {
	enc := func(b []byte) string {
		s, _ := bech32.ConvertAndEncode(bech32Prefix, b)
		return s
	}
	g.config()
	for i := range g.acctRaw {
		g.fund(g.acctRaw[i], mintDenom, "1000000000000")
	}
	sp := g.standardGenesis(3, 2)
	short20, long33 := g.randBytes(20), g.randBytes(33)
	sp.messengers = append(sp.messengers, fmt.Sprintf("7:%x", short20), "8:", fmt.Sprintf("9:%x", long33), fmt.Sprintf("10:%x", g.randBytes(1)))
	for _, d := range []int{7, 8, 9, 10} {
		sp.pairs = append(sp.pairs, fmt.Sprintf("%d:%x:%s", d, token(0), hs(mintDenom)))
	}
	g.emit(Op{Kind: "genesis-init", KV: sp.kv()})
	g.dump()
	// (a)
	raw := g.acctRaw[2]
	caller := pad32(raw)
	shortCaller := make([]byte, 32)
	copy(shortCaller[12:], raw[:4])
	for k, c := range []struct {
		from   string
		caller []byte
	}{
		{g.acct[2], caller},                                                  // the named account itself: accepted
		{enc(append(append([]byte{}, raw...), g.randBytes(12)...)), caller}, // a 32-byte account starting with the named bytes
		{enc(pad32(raw)), caller},                                            // the 32-byte account 0^12 ‖ named bytes
		{enc(raw[:19]), caller},                                              // one byte short
		{enc(append([]byte{}, raw[:4]...)), shortCaller},                     // a 4-byte account; the caller field is it followed by zeros
		{strings.ToUpper(g.acct[2]), caller},                                 // the named account spelled in upper case: a different string
	} {
		for _, module := range []bool{false, true} {
			var msg []byte
			if module {
				body := buildBurnBody(0, token(0), pad32(g.acctRaw[1]), big.NewInt(int64(20+k)), g.rand32())
				msg = buildMessage(0, 1, 4, g.freshNonce(1), messengerAddr(1), types.PaddedModuleAddress, c.caller, body)
			} else {
				msg = buildMessage(0, 1, 4, g.freshNonce(1), g.rand32(), g.otherRecipient(), c.caller, g.randBytes(6))
			}
			g.tx("ReceiveMessage", g.opReceive(c.from, msg, attOpts{}))
		}
	}
	// (a') a message that is NOT for the module but comes from the registered token messenger of its domain (or carries a
	// burn-shaped body): whatever the burn / mint flag says it is an ordinary message, and while sending is not paused it
	// is received
	for _, burnPausedNow := range []bool{true, false} {
		if burnPausedNow {
			g.pauseTx("BurningAndMinting", true)
		}
		for k := 0; k < 3; k++ {
			body := g.randBytes(11)
			if k == 1 {
				body = buildBurnBody(0, token(0), pad32(g.acctRaw[1]), big.NewInt(9), g.rand32())
			}
			sender := messengerAddr(1)
			if k == 2 {
				sender = g.rand32()
			}
			msg := buildMessage(0, 1, 4, g.freshNonce(1), sender, g.otherRecipient(), make([]byte, 32), body)
			g.tx("ReceiveMessage", g.opReceive(g.acct[1], msg, attOpts{}))
		}
		if burnPausedNow {
			g.pauseTx("BurningAndMinting", false)
		}
	}
	// (a'') source domains that agree with a configured domain on their low 8, 16 or 24 bits: a messenger is registered
	// for them, a pair is not (domain 1 has one for the same token) -- nothing is minted
	owner := g.role("owner")
	for _, d := range []uint32{1<<8 + 1, 1<<16 + 1, 1<<24 + 1, 1<<31 + 1} {
		g.tx("AddRemoteTokenMessenger", newKV().set("from", hs(owner)).set("domain", fmt.Sprint(d)).set("address", hx(messengerAddr(d))))
		body := buildBurnBody(0, token(0), pad32(g.acctRaw[1]), big.NewInt(12), g.rand32())
		msg := buildMessage(0, d, 4, g.freshNonce(d), messengerAddr(d), types.PaddedModuleAddress, make([]byte, 32), body)
		g.tx("ReceiveMessage", g.opReceive(g.acct[1], msg, attOpts{}))
		// and the used pair of the big domain is not the used pair of the small one
		other := buildMessage(0, 1, 4, 1000+uint64(d%7), g.rand32(), g.otherRecipient(), make([]byte, 32), nil)
		g.tx("ReceiveMessage", g.opReceive(g.acct[1], other, attOpts{}))
		other2 := buildMessage(0, d, 4, 1000+uint64(d%7), g.rand32(), g.otherRecipient(), make([]byte, 32), nil)
		g.tx("ReceiveMessage", g.opReceive(g.acct[1], other2, attOpts{}))
	}
	// (b)
	for _, c := range []struct {
		d    uint32
		addr []byte
	}{{7, short20}, {8, nil}, {9, long33}, {10, nil}} {
		senders := [][]byte{g.rand32(), pad32(c.addr), make([]byte, 32)}
		if len(c.addr) > 32 {
			senders = append(senders, c.addr[:32], c.addr[1:])
		}
		if len(c.addr) > 0 && len(c.addr) < 32 {
			left := make([]byte, 32)
			copy(left, c.addr) // the address followed by zeros
			tail := g.rand32()
			copy(tail[32-len(c.addr):], c.addr) // any sender ending with it
			senders = append(senders, left, tail)
		}
		for _, sender := range senders {
			body := buildBurnBody(0, token(0), pad32(g.acctRaw[1]), big.NewInt(31), g.rand32())
			msg := buildMessage(0, c.d, 4, g.freshNonce(c.d), sender, types.PaddedModuleAddress, make([]byte, 32), body)
			g.tx("ReceiveMessage", g.opReceive(g.acct[1], msg, attOpts{}))
		}
		// and a deposit towards such a domain: its messenger becomes the recipient of the outbound message, which must be 32 bytes
		ty, kv := g.opDeposit(g.acct[1], "5", false)
		g.tx(ty, kv.set("dest", fmt.Sprint(c.d)))
	}
}

func scnRecvMatrix(g *Gen, budget int, arg string) {
	var used [][2]uint64
	first := true
	g.recvOddShapes()
	for g.nOps < budget {
		nAtt := 1 + g.pick(4)
		t := 1 + g.pick(nAtt)
		g.initStandard(nAtt, t)
		used = nil
		allOK := [rcN]bool{}
		for i := range allOK {
			allOK[i] = true
		}
		// seed the used pool and check the all-true cell in both shapes
		g.recvCase(allOK, true, &used)
		g.recvCase(allOK, false, &used)
		if first {
			// deterministic preamble (whatever the seed): the pair (source domain, 0) received and resubmitted -- its stored
			// value is empty --, then every variant of every single failed condition, variant-major
			for _, d := range []uint32{0, 1} {
				zero := g.inboundBurn(d, 0, big.NewInt(9), 0)
				kvz := g.opReceive(g.anyAcct(), zero, attOpts{})
				if strings.HasPrefix(g.tx("ReceiveMessage", kvz), "out=ok") {
					used = append(used, [2]uint64{uint64(d), 0})
				}
				g.tx("ReceiveMessage", kvz)
				other := buildMessage(0, d, 4, 0, g.rand32(), g.otherRecipient(), make([]byte, 32), nil)
				g.tx("ReceiveMessage", g.opReceive(g.anyAcct(), other, attOpts{}))
			}
			// mint recipients whose 20-byte account starts with a zero byte, or sits under non-zero padding: the account is the
			// LOW 20 BYTES, whatever surrounds them
			for k := 0; k < 3; k++ {
				rcp := make([]byte, 32)
				g.rng.Read(rcp[13:])
				switch k {
				case 1:
					g.rng.Read(rcp[:12])
					rcp[0] |= 1
					rcp[12] = byte(1 + g.pick(255))
				case 2:
					rcp[12], rcp[13] = 0, 0
				}
				src := uint32(k % 2)
				body := buildBurnBody(0, token(0), rcp, big.NewInt(int64(11+k)), g.rand32())
				msg := buildMessage(0, src, 4, g.freshNonce(src), messengerAddr(src), types.PaddedModuleAddress, make([]byte, 32), body)
				g.tx("ReceiveMessage", g.opReceive(g.anyAcct(), msg, attOpts{}))
			}
			for v := 0; v < 13; v++ {
				g.forceVariant = v
				for i := 0; i < rcN; i++ {
					if v >= 6 && i != rcAttValid {
						continue // only the attestation mutations have more than six variants
					}
					c := allOK
					c[i] = false
					g.recvCase(c, true, &used)
					if v < 2 {
						g.recvCase(c, false, &used)
					}
				}
			}
			g.forceVariant = -1
			for i := 0; i < rcN; i++ {
				for j := i + 1; j < rcN; j++ {
					c := allOK
					c[i], c[j] = false, false
					g.recvCase(c, true, &used)
					if g.chance(0.3) {
						g.recvCase(c, false, &used)
					}
				}
			}
			first = false
		}
		for k := 0; k < 60 && g.nOps < budget; k++ {
			c := allOK
			m := g.rng.Intn(1 << rcN)
			if g.chance(0.5) {
				// few conditions false
				m = 0
				for z := 0; z < 1+g.pick(3); z++ {
					m |= 1 << g.pick(rcN)
				}
			}
			for i := 0; i < rcN; i++ {
				if m&(1<<i) != 0 {
					c[i] = false
				}
			}
			g.recvCase(c, g.chance(0.7), &used)
		}
	}
}

// ---------------------------------------------------------------------------------------------
// depmatrix: every subset of the deposit preconditions, and the boundaries.

const (
	dcAmountPos = iota
	dcWithinLimit
	dcToken
	dcRecipient
	dcMessenger
	dcBurnUnpaused
	dcSendUnpaused
	dcBodyFits
	dcCanPay
	dcBurnOK
	dcCaller
	dcN
)

func (g *Gen) depCase(ok [dcN]bool, withCaller bool, limit *big.Int) {
	tc, owner := g.role("tc"), g.role("owner")
	// configure the limit for the minting denom (spelled in a random case: the key is lower-cased)
	limitSpelling := []string{"uusdc", "UUSDC", "uUsDC"}[g.pick(3)]
	g.tx("SetMaxBurnAmountPerMessage", newKV().set("from", hs(tc)).set("localToken", hs(limitSpelling)).set("amount", limit.String()))
	if !ok[dcBodyFits] {
		g.tx("UpdateMaxMessageBodySize", newKV().set("from", hs(owner)).set("size", fmt.Sprint([]int{0, 1, 131}[g.pickv(3)])))
	} else {
		g.tx("UpdateMaxMessageBodySize", newKV().set("from", hs(owner)).set("size", fmt.Sprint(append([]uint64{132, 133, 8000}, u64Edges...)[g.pick(3+len(u64Edges))])))
	}
	if !ok[dcBurnUnpaused] {
		g.pauseTx("BurningAndMinting", true)
	}
	if !ok[dcSendUnpaused] {
		g.pauseTx("SendingAndReceivingMessages", true)
	}
	depositor := g.pick(len(g.acct))
	from := g.acct[depositor]
	bal := g.w().ledgerGet(g.w().ctx, balKey(g.acctRaw[depositor], mintDenom)).Int
	// amount
	var amount string
	one := big.NewInt(1)
	switch {
	case !ok[dcAmountPos]:
		amount = []string{"0", "-1", "-", "-1000"}[g.pickv(4)]
	case !ok[dcWithinLimit]:
		a := new(big.Int).Add(limit, one)
		if a.Sign() <= 0 {
			a = big.NewInt(1)
		}
		if g.chance(0.3) {
			a = new(big.Int).Add(limit, big.NewInt(int64(2+g.pick(1000))))
		}
		amount = a.String()
	default:
		// within the limit: limit itself, limit-1, 1, or a random smaller value
		switch g.pickv(4) {
		case 0:
			amount = limit.String()
		case 1:
			if limit.Cmp(one) > 0 {
				amount = new(big.Int).Sub(limit, one).String()
			} else {
				amount = limit.String()
			}
		case 2:
			amount = "1"
		default:
			if limit.Sign() > 0 {
				amount = new(big.Int).Add(one, new(big.Int).Rand(g.rng, limit)).String()
			}
		}
		if limit.Sign() <= 0 {
			amount = "1" // a zero or negative limit admits nothing positive; this cell is then "over the limit"
		}
	}
	if a, okp := new(big.Int).SetString(amount, 10); okp && a.Sign() > 0 {
		if ok[dcCanPay] {
			if a.Cmp(bal) > 0 {
				g.fund(g.acctRaw[depositor], mintDenom, new(big.Int).Sub(a, bal).String())
			}
		} else {
			// make the balance insufficient: move the depositor to an account with less than the amount
			if a.Cmp(bal) <= 0 {
				amount = new(big.Int).Add(bal, one).String()
				if new(big.Int).Add(bal, one).Cmp(limit) > 0 {
					// keep "within the limit" true by raising the limit
					g.tx("SetMaxBurnAmountPerMessage", newKV().set("from", hs(tc)).set("localToken", hs(mintDenom)).set("amount", new(big.Int).Add(bal, big.NewInt(5)).String()))
				}
			}
		}
	}
	tokenS := mintDenom
	if !ok[dcToken] {
		tokenS = []string{"other", "UUSDC", "uUsDC", "uuſdc", "", "uusd"}[g.pickv(6)]
	}
	rcp := g.rand32()
	if !ok[dcRecipient] {
		rcp = [][]byte{make([]byte, 32), {}, g.randBytes(31), g.randBytes(33), make([]byte, 31)}[g.pickv(5)]
	}
	dest := []uint32{0, 1, 3}[g.pick(3)]
	if !ok[dcMessenger] {
		if g.pickv(2) == 0 {
			dest = 77 // nothing registered
		} else {
			dest = 6 // a zero messenger registered below
			g.tx("AddRemoteTokenMessenger", newKV().set("from", hs(owner)).set("domain", "6").set("address", hx(make([]byte, 32))))
		}
	}
	kv := newKV().set("from", hs(from)).set("amount", amount).set("dest", fmt.Sprint(dest)).set("mintRecipient", hx(rcp)).set("burnToken", hs(tokenS))
	ty := "DepositForBurn"
	if withCaller {
		ty = "DepositForBurnWithCaller"
		c := g.rand32()
		if !ok[dcCaller] {
			c = [][]byte{make([]byte, 32), {}, g.randBytes(31), g.randBytes(33), g.randBytes(1), make([]byte, 20)}[g.pickv(6)]
		}
		kv.set("caller", hx(c))
	}
	if !ok[dcBurnOK] {
		kv.set("faults", "01")
	}
	g.tx(ty, kv)
	if !ok[dcBurnUnpaused] {
		g.pauseTx("BurningAndMinting", false)
	}
	if !ok[dcSendUnpaused] {
		g.pauseTx("SendingAndReceivingMessages", false)
	}
}

func scnDepMatrix(g *Gen, budget int, arg string) {
	limits := []*big.Int{big.NewInt(1), big.NewInt(1000), new(big.Int).Lsh(big.NewInt(1), 64), new(big.Int).Sub(new(big.Int).Lsh(big.NewInt(1), 255), big.NewInt(1)), big.NewInt(0)}
	first := true
	defer func() { mintDenom = "uusdc" }()
	for g.nOps < budget {
		mintDenom = "uusdc"
		if !first && g.chance(0.3) {
			mintDenom = "uUsDC"
		}
		g.initStandard(2, 1)
		allOK := [dcN]bool{}
		for i := range allOK {
			allOK[i] = true
		}
		for _, l := range limits[:3] {
			g.depCase(allOK, false, l)
			g.depCase(allOK, true, l)
		}
		// a limit of zero (or below) is a limit: it admits no positive amount
		g.depCase(allOK, false, big.NewInt(0))
		g.depCase(allOK, true, big.NewInt(0))
		g.depCase(allOK, false, big.NewInt(-5))
		if first {
			// deterministic preamble (whatever the seed): every variant of every single failed precondition, both handlers,
			// variant-major so that a short budget still meets every condition once
			for v := 0; v < 6; v++ {
				g.forceVariant = v
				for i := 0; i < dcN; i++ {
					c := allOK
					c[i] = false
					g.depCase(c, v%2 == 0, limits[v%2])
					if i == dcCaller {
						g.depCase(c, true, limits[v%2])
					}
				}
			}
			g.forceVariant = -1
			// ... and amounts at the width boundaries, exactly at a limit of the same size and without any limit
			for _, sh := range []uint{63, 64, 128} {
				l := new(big.Int).Lsh(big.NewInt(1), sh)
				l.Add(l, big.NewInt(5))
				g.forceVariant = 0 // "amount = limit"
				g.depCase(allOK, sh == 64, l)
			}
			g.forceVariant = -1
			for i := 0; i < dcN; i++ {
				for j := i + 1; j < dcN; j++ {
					c := allOK
					c[i], c[j] = false, false
					g.depCase(c, g.chance(0.5), limits[g.pick(2)])
				}
			}
			first = false
		}
		for k := 0; k < 40 && g.nOps < budget; k++ {
			c := allOK
			m := 0
			if g.chance(0.6) {
				for z := 0; z < g.pick(3); z++ {
					m |= 1 << g.pick(dcN)
				}
			} else {
				m = g.rng.Intn(1 << dcN)
			}
			for i := 0; i < dcN; i++ {
				if m&(1<<i) != 0 {
					c[i] = false
				}
			}
			g.depCase(c, g.chance(0.5), limits[g.pick(len(limits))])
		}
	}
}

// ---------------------------------------------------------------------------------------------
// nonces: interleavings of the four producers (succeeding, failing early, failing after the
// reservation) with replacements, from several starting counters.

func scnNonces(g *Gen, budget int, arg string) {
	starts := []string{"0:0", "0:7", "9:4294967296", "0:18446744073709551614", "3:18446744073709551615",
		"0:2147483646", "0:4294967294", "0:4294967295", "0:9223372036854775806"}
	for g.nOps < budget {
		g.config()
		for i := range g.acctRaw {
			g.fund(g.acctRaw[i], mintDenom, "1000000000000")
		}
		sp := g.standardGenesis(2, 1)
		sp.nextNonce = starts[g.pick(len(starts))]
		if g.chance(0.1) {
			sp.nextNonce = "-"
		}
		if g.chance(0.25) {
			sp.maxBody = "-" // the other optional genesis fields may be absent independently of the counter
		}
		if g.chance(0.15) {
			sp.threshold = "-"
		}
		g.emit(Op{Kind: "genesis-init", KV: sp.kv()})
		g.dump()
		n := 6 + g.pick(20)
		for i := 0; i < n; i++ {
			from := g.anyAcct()
			mode := g.pick(3) // 0 succeed, 1 fail early, 2 fail after the reservation
			switch g.pick(6) {
			case 0:
				ty, kv := g.opSend(from, false)
				if mode == 1 {
					kv.set("from", hs(g.weirdAddress()[:0]))
				} else if mode == 2 {
					kv.set("recipient", hx(make([]byte, 32)))
				}
				g.tx(ty, kv)
			case 1:
				ty, kv := g.opSend(from, true)
				if mode == 1 {
					kv.set("caller", hx(make([]byte, 32)))
				} else if mode == 2 {
					kv.set("body", hx(g.randBytes(8001)))
				}
				g.tx(ty, kv)
			case 2, 3:
				ty, kv := g.opDeposit(from, fmt.Sprint(1+g.pick(50)), g.pick(2) == 0)
				if mode == 1 {
					kv.set("amount", "0")
				} else if mode == 2 {
					// fails inside the inner send, after the nonce was reserved and the coins burnt
					if ty == "DepositForBurnWithCaller" {
						kv.set("caller", hx(g.randBytes(31)))
					} else {
						kv.set("mintRecipient", hx(g.randBytes(33)))
					}
				}
				g.tx(ty, kv)
			default:
				g.randomReplace()
			}
			g.emit(Op{Kind: "query", Sub: "NextAvailableNonce", KV: newKV()})
		}
	}
}

// ---------------------------------------------------------------------------------------------
// roles: role assignments × the 18 privileged transaction types × every submitter.

func (g *Gen) adminOp(ty string, from string) {
	kv := newKV().set("from", hs(from))
	switch ty {
	case "UpdateOwner", "UpdateAttesterManager", "UpdatePauser", "UpdateTokenController":
		kv.set("new", hs(g.newHolder()))
	case "UpdateMaxMessageBodySize":
		kv.set("size", fmt.Sprint(100+g.pick(10000)))
	case "AddRemoteTokenMessenger":
		d := uint32(20 + g.pick(3))
		kv.set("domain", fmt.Sprint(d)).set("address", hx(messengerAddr(d)))
	case "RemoveRemoteTokenMessenger":
		kv.set("domain", fmt.Sprint([]uint32{0, 1, 3, 20, 21}[g.pick(5)]))
	case "EnableAttester":
		kv.set("attester", hs(g.attesterSpelling(g.pick(len(g.keys)))))
	case "DisableAttester":
		as := g.attesters()
		a := g.pubHex[0]
		if len(as) > 0 {
			a = as[g.pick(len(as))]
		}
		kv.set("attester", hs(a))
	case "UpdateSignatureThreshold":
		kv.set("amount", fmt.Sprint(1+g.pick(3)))
	case "LinkTokenPair":
		kv.set("domain", fmt.Sprint(g.pick(3))).set("token", hx(token(10+g.pick(3)))).set("localToken", hs(mintDenom))
	case "UnlinkTokenPair":
		kv.set("domain", fmt.Sprint([]uint32{0, 1, 3}[g.pick(3)])).set("token", hx(token(0))).set("localToken", hs(mintDenom))
	case "SetMaxBurnAmountPerMessage":
		kv.set("localToken", hs(mintDenom)).set("amount", fmt.Sprint(g.pick(100000)))
	}
	g.tx(ty, kv)
}

var adminTypes = []string{"AcceptOwner", "AddRemoteTokenMessenger", "DisableAttester", "EnableAttester", "LinkTokenPair",
	"PauseBurningAndMinting", "PauseSendingAndReceivingMessages", "RemoveRemoteTokenMessenger", "UnlinkTokenPair",
	"UnpauseBurningAndMinting", "UnpauseSendingAndReceivingMessages", "UpdateOwner", "UpdateAttesterManager",
	"UpdateTokenController", "UpdatePauser", "UpdateMaxMessageBodySize", "SetMaxBurnAmountPerMessage", "UpdateSignatureThreshold"}

// unsetRoles: a genesis may leave role slots empty (the module's own default genesis leaves all four empty).  Nobody holds
// an empty role: every privileged action of that role fails for every account.  (A message whose `from` is itself the empty
// string is included for the record: the handlers' comparison admits it; the SDK never delivers a message without signer.)
func (g *Gen) unsetRoles() {
	for mask := 0; mask < 5; mask++ {
		g.config()
		sp := g.standardGenesis(3, 2)
		if mask == 0 {
			sp.owner, sp.am, sp.pauser, sp.tc = "", "", "", ""
		} else {
			*[]*string{&sp.owner, &sp.am, &sp.pauser, &sp.tc}[mask-1] = ""
		}
		g.emit(Op{Kind: "genesis-init", KV: sp.kv()})
		g.dump()
		for _, ty := range adminTypes {
			for _, from := range []string{g.acct[0], g.acct[4], "", "not-an-address", " "} {
				g.adminOp(ty, from)
			}
		}
	}
}

// overlapRoles: a role is held by a STRING.  An account whose address merely shares bytes with the holder's (the first 20
// bytes of a 32-byte holder; a 32-byte address that starts with a 20-byte holder; the holder's bytes under 12 zero bytes)
// is somebody else, for every privileged action.
func (g *Gen) overlapRoles() {
	enc := func(b []byte) string {
		s, _ := bech32.ConvertAndEncode(bech32Prefix, b)
		return s
	}
	raw := g.acctRaw[1]
	long := append(append([]byte{}, raw...), g.randBytes(12)...)
	for _, c := range []struct{ holder, submitter string }{
		{enc(long), g.acct[1]},       // 32-byte holder, the 20-byte account that is its first 20 bytes
		{g.acct[1], enc(long)},       // the reverse
		{g.acct[1], enc(pad32(raw))}, // 0^12 ‖ holder
		{enc(raw[:19]), g.acct[1]},   // a 19-byte holder, the account it is a prefix of
	} {
		g.config()
		sp := g.standardGenesis(3, 2)
		sp.owner, sp.am, sp.pauser, sp.tc = c.holder, c.holder, c.holder, c.holder
		g.emit(Op{Kind: "genesis-init", KV: sp.kv()})
		g.dump()
		for _, ty := range adminTypes {
			g.adminOp(ty, c.submitter)
		}
	}
}

func scnRoles(g *Gen, budget int, arg string) {
	if arg != "lifecycle" {
		g.unsetRoles()
		g.overlapRoles()
	}
	for g.nOps < budget {
		// a random assignment of the four stored roles over the universe (possibly shared), pending set or not
		g.config()
		sp := g.standardGenesis(3, 2)
		sp.owner, sp.am, sp.pauser, sp.tc = g.anyAcct(), g.anyAcct(), g.anyAcct(), g.anyAcct()
		g.emit(Op{Kind: "genesis-init", KV: sp.kv()})
		g.dump()
		if g.chance(0.7) {
			g.tx("UpdateOwner", newKV().set("from", hs(sp.owner)).set("new", hs(g.anyAcct())))
		}
		// a nominee whose acceptance ran only on a DISCARDED branch (a simulation, or a transaction whose next message
		// failed) is still only a nominee: owner-only actions are refused to them and still open to the owner
		{
			owner, nominee := g.role("owner"), g.acct[(g.acctIndex(g.role("owner"))+1)%len(g.acct)]
			g.tx("UpdateOwner", newKV().set("from", hs(owner)).set("new", hs(nominee)))
			g.emit(Op{Kind: "sim", Sub: "AcceptOwner", KV: newKV().set("from", hs(nominee)).set("faults", "-")})
			g.dump()
			g.tx("UpdateMaxMessageBodySize", newKV().set("from", hs(nominee)).set("size", "4000"))
			g.tx("UpdatePauser", newKV().set("from", hs(nominee)).set("new", hs(nominee)))
			g.tx("UpdateMaxMessageBodySize", newKV().set("from", hs(owner)).set("size", "8000"))
			g.emit(Op{Kind: "query", Sub: "Roles", KV: newKV()})
		}
		if arg == "lifecycle" {
			// address-syntax matrix: every role update by the genuine owner with every kind of malformed or barely
			// valid address (a valid one changes the role, so the owner is re-read each time)
			if g.chance(0.5) {
				for _, ty := range []string{"UpdateOwner", "UpdateAttesterManager", "UpdatePauser", "UpdateTokenController"} {
					for _, w := range g.weirdAddresses() {
						g.tx(ty, newKV().set("from", hs(g.role("owner"))).set("new", hs(w)))
					}
				}
				g.tx("AcceptOwner", newKV().set("from", hs(g.role("pending"))))
			}
			for i := 0; i < 40 && g.nOps < budget; i++ {
				switch g.pick(8) {
				case 0, 1:
					g.tx("UpdateOwner", newKV().set("from", hs(g.roleHolderOr("owner", 0.3))).set("new", hs(g.newHolder())))
				case 2, 3, 4:
					from := g.role("pending")
					if from == "" || g.chance(0.4) {
						from = g.anyAcct()
					} else if g.chance(0.25) {
						from = otherCase(from) // the nominee's address in the other letter case is somebody else
					}
					if g.chance(0.2) {
						from = g.role("owner")
					}
					g.tx("AcceptOwner", newKV().set("from", hs(from)))
				case 5:
					ty := []string{"UpdateAttesterManager", "UpdatePauser", "UpdateTokenController"}[g.pick(3)]
					g.tx(ty, newKV().set("from", hs(g.roleHolderOr("owner", 0.3))).set("new", hs(g.newHolder())))
				case 6:
					g.adminOp(adminTypes[g.pick(len(adminTypes))], g.anyAcct())
				default:
					g.emit(Op{Kind: "query", Sub: "Roles", KV: newKV()})
				}
			}
			continue
		}
		// every handler × every submitter of the universe (+ a previous holder after an update)
		order := g.rng.Perm(len(adminTypes))
		for _, ti := range order {
			for _, a := range g.acct {
				g.adminOp(adminTypes[ti], a)
				if g.nOps >= budget {
					return
				}
			}
		}
		// previous holder after a role update
		for _, ty := range []string{"UpdateAttesterManager", "UpdatePauser", "UpdateTokenController"} {
			which := map[string]string{"UpdateAttesterManager": "am", "UpdatePauser": "pauser", "UpdateTokenController": "tc"}[ty]
			prev := g.role(which)
			g.tx(ty, newKV().set("from", hs(g.role("owner"))).set("new", hs(g.anyAcct())))
			for _, t2 := range adminTypes {
				if g.chance(0.4) {
					g.adminOp(t2, prev)
				}
			}
		}
	}
}

// ---------------------------------------------------------------------------------------------
// pause: the flag × flow matrix, admin availability while paused, toggle sequences.

func (g *Gen) validFlow(i int) {
	from := g.anyAcct()
	switch i {
	case 0:
		ty, kv := g.opSend(from, false)
		g.tx(ty, kv)
	case 1:
		ty, kv := g.opSend(from, true)
		g.tx(ty, kv)
	case 2:
		ty, kv := g.opDeposit(from, fmt.Sprint(1+g.pick(50)), false)
		g.tx(ty, kv)
	case 3:
		ty, kv := g.opDeposit(from, fmt.Sprint(1+g.pick(50)), true)
		g.tx(ty, kv)
	case 4: // receive of a module-addressed burn message
		amt := big.NewInt(int64(1 + g.pick(1000)))
		if g.chance(0.25) {
			amt = bigPool(g)
		}
		msg := g.inboundBurn(0, g.freshNonce(0), amt, g.pick(len(g.acctRaw)))
		g.tx("ReceiveMessage", g.opReceive(from, msg, attOpts{}))
	case 5: // receive of a message for somebody else
		msg := buildMessage(0, 0, 4, g.freshNonce(0), g.rand32(), g.otherRecipient(), make([]byte, 32), g.randBytes(g.pick(100)))
		g.tx("ReceiveMessage", g.opReceive(from, msg, attOpts{}))
	case 6, 7:
		g.validReplace(i == 7)
	}
}

// validReplace replaces a previously sent message of the right kind by its own sender.
func (g *Gen) validReplace(deposit bool) {
	for tries := 0; tries < 20 && len(g.sent) > 0; tries++ {
		orig := g.sent[g.pick(len(g.sent))]
		m, err := new(types.Message).Parse(append([]byte{}, orig...))
		if err != nil {
			continue
		}
		isDep := bytes.Equal(m.Sender, types.PaddedModuleAddress) && len(m.MessageBody) == 132
		if isDep != deposit {
			continue
		}
		att := g.attest(orig, attOpts{})
		if deposit {
			i := g.acctIndexOfRaw(m.MessageBody[112:132])
			if i < 0 {
				continue
			}
			g.tx("ReplaceDepositForBurn", newKV().set("from", hs(g.acct[i])).set("message", hx(orig)).set("attestation", hx(att)).
				set("newCaller", hx(g.rand32())).set("newMintRecipient", hx(g.rand32())).set("ecr", ecrEntries(orig, att)))
		} else {
			i := g.acctIndexOfRaw(m.Sender[12:])
			if i < 0 {
				continue
			}
			g.tx("ReplaceMessage", newKV().set("from", hs(g.acct[i])).set("message", hx(orig)).set("attestation", hx(att)).
				set("newBody", hx(g.randBytes(g.pick(50)))).set("newCaller", hx(g.rand32())).set("ecr", ecrEntries(orig, att)))
		}
		return
	}
}

func scnPause(g *Gen, budget int, arg string) {
	for g.nOps < budget {
		g.initStandard(2, 1)
		// produce material for replacements while nothing is paused
		for i := 0; i < 4; i++ {
			g.validFlow(i)
		}
		for _, fs := range [][2]bool{{false, false}, {true, false}, {false, true}, {true, true}} {
			g.pauseTx("BurningAndMinting", fs[0])
			g.pauseTx("SendingAndReceivingMessages", fs[1])
			g.emit(Op{Kind: "query", Sub: "BurningAndMintingPaused", KV: newKV()})
			g.emit(Op{Kind: "query", Sub: "SendingAndReceivingMessagesPaused", KV: newKV()})
			for f := 0; f < 8; f++ {
				g.validFlow(f)
			}
			// a message for somebody who merely LOOKS like the module (every near miss of its padded address) is an ordinary
			// message: it is received whenever receiving is not paused, burning-and-minting paused or not
			for k := 0; k < nNearModule; k++ {
				msg := buildMessage(0, 0, 4, g.freshNonce(0), g.rand32(), g.nearModule(k), make([]byte, 32), g.randBytes(g.pick(40)))
				g.tx("ReceiveMessage", g.opReceive(g.anyAcct(), msg, attOpts{}))
			}
			// administrative actions stay available
			for _, ti := range g.rng.Perm(len(adminTypes))[:6] {
				ty := adminTypes[ti]
				if strings.Contains(ty, "ause") {
					continue
				}
				which := map[string]string{"AcceptOwner": "pending", "AddRemoteTokenMessenger": "owner", "RemoveRemoteTokenMessenger": "owner",
					"UpdateOwner": "owner", "UpdateAttesterManager": "owner", "UpdateTokenController": "owner", "UpdatePauser": "owner",
					"UpdateMaxMessageBodySize": "owner", "EnableAttester": "am", "DisableAttester": "am", "UpdateSignatureThreshold": "am",
					"LinkTokenPair": "tc", "UnlinkTokenPair": "tc", "SetMaxBurnAmountPerMessage": "tc"}[ty]
				h := g.role(which)
				if h == "" {
					h = g.anyAcct()
				}
				// keep the configuration the flows need intact
				if ty == "RemoveRemoteTokenMessenger" || ty == "UnlinkTokenPair" || ty == "DisableAttester" || ty == "UpdateSignatureThreshold" || ty == "UpdateMaxMessageBodySize" {
					continue
				}
				g.adminOp(ty, h)
			}
		}
		// toggle sequences by all accounts, idempotence, restore
		for i := 0; i < 30 && g.nOps < budget; i++ {
			which := []string{"BurningAndMinting", "SendingAndReceivingMessages"}[g.pick(2)]
			name := []string{"Pause", "Unpause"}[g.pick(2)] + which
			g.tx(name, newKV().set("from", hs(g.roleHolderOr("pauser", 0.3))))
			if g.chance(0.5) {
				g.validFlow(g.pick(8))
			}
		}
	}
}

// ---------------------------------------------------------------------------------------------
// attesters: walks over a small attester universe from every (count, threshold) start.

// thresholdAboveCount: only a genesis can put the threshold above the number of attesters (the handlers refuse to).  Then no
// attestation can be valid: not one by every enabled attester, not one filled up with a stranger.
func (g *Gen) thresholdAboveCount() {
	g.config()
	sp := g.standardGenesis(2, 3)
	g.emit(Op{Kind: "genesis-init", KV: sp.kv()})
	g.dump()
	for _, signers := range [][]int{{0, 1}, {0, 1, 2}, {0}, {0, 1, 0}} {
		m := buildMessage(0, 1, 4, g.freshNonce(1), g.rand32(), g.otherRecipient(), make([]byte, 32), g.randBytes(4))
		g.tx("ReceiveMessage", g.opReceive(g.acct[1], m, attOpts{signers: g.sortedKeys(signers)}))
	}
	// ... and no original can be "validly attested under the current attester set": both replace handlers refuse
	for _, signers := range [][]int{{0, 1}, {0, 1, 2}} {
		sub := 1
		orig := buildMessage(0, 4, g.domain(), uint64(40+len(signers)), pad32(g.acctRaw[sub]), g.rand32(), g.rand32(), g.randBytes(9))
		att := g.attest(orig, attOpts{signers: g.sortedKeys(signers)})
		g.tx("ReplaceMessage", newKV().set("from", hs(g.acct[sub])).set("message", hx(orig)).set("attestation", hx(att)).
			set("newBody", hx(g.randBytes(5))).set("newCaller", hx(g.rand32())).set("ecr", ecrEntries(orig, att)))
		body := buildBurnBody(0, crypto.Keccak256([]byte(mintDenom)), g.rand32(), big.NewInt(77), pad32(g.acctRaw[sub]))
		dep := buildMessage(0, 4, 0, uint64(50+len(signers)), types.PaddedModuleAddress, messengerAddr(0), make([]byte, 32), body)
		att2 := g.attest(dep, attOpts{signers: g.sortedKeys(signers)})
		g.tx("ReplaceDepositForBurn", newKV().set("from", hs(g.acct[sub])).set("message", hx(dep)).set("attestation", hx(att2)).
			set("newCaller", hx(g.rand32())).set("newMintRecipient", hx(g.rand32())).set("ecr", ecrEntries(dep, att2)))
	}
	am := g.role("am")
	g.tx("UpdateSignatureThreshold", newKV().set("from", hs(am)).set("amount", "3"))
	g.tx("UpdateSignatureThreshold", newKV().set("from", hs(am)).set("amount", "2"))
	g.tx("DisableAttester", newKV().set("from", hs(am)).set("attester", hs(g.pubHex[0])))
	g.q("SignatureThreshold")
}

func scnAttesters(g *Gen, budget int, arg string) {
	g.thresholdAboveCount()
	for g.nOps < budget {
		n := 1 + g.pick(4)
		t := 1 + g.pick(n)
		if g.chance(0.15) {
			n, t = 0, 1 // a chain that starts without any attester: every receive / replace must be refused until one is enabled
		}
		g.config()
		sp := g.standardGenesis(n, t)
		g.emit(Op{Kind: "genesis-init", KV: sp.kv()})
		g.dump()
		am := g.role("am")
		for i := 0; i < 60 && g.nOps < budget; i++ {
			from := am
			if g.chance(0.1) {
				from = g.anyAcct()
			}
			cnt := len(g.attesters())
			switch g.pick(9) {
			case 8:
				// an attestation that was verified once (on a discarded branch, or by a receive that failed later) must be
				// verified AGAIN against the attester set of the moment: sign, simulate, rotate the signer out, deliver
				en := g.enabledKeys()
				t := int(g.threshold())
				if len(en) >= 1 && t >= 1 && t <= len(en) {
					msg := g.inboundBurn(0, g.freshNonce(0), big.NewInt(3), 0)
					kv := g.opReceive(g.anyAcct(), msg, attOpts{})
					g.emit(Op{Kind: "sim", Sub: "ReceiveMessage", KV: kv})
					signer := en[0]
					if len(en) == t { // keep the count above the threshold: enable somebody else first
						for k := range g.keys {
							isEn := false
							for _, e := range en {
								isEn = isEn || e == k
							}
							if !isEn {
								g.tx("EnableAttester", newKV().set("from", hs(am)).set("attester", hs(g.pubHex[k])))
								break
							}
						}
					}
					g.tx("DisableAttester", newKV().set("from", hs(am)).set("attester", hs(g.pubHex[signer])))
					g.tx("ReceiveMessage", kv) // the very same message and attestation bytes
				}
			case 7:
				g.validFlow(4 + g.pick(4))
			case 0, 1:
				k := g.pick(4)
				a := g.pubHex[k]
				if g.chance(0.15) {
					a = g.attesterSpelling(k)
				}
				g.tx("EnableAttester", newKV().set("from", hs(from)).set("attester", hs(a)))
			case 2, 3:
				as := g.attesters()
				a := g.pubHex[g.pick(4)]
				if len(as) > 0 && g.chance(0.8) {
					a = as[g.pick(len(as))]
				}
				g.tx("DisableAttester", newKV().set("from", hs(from)).set("attester", hs(a)))
			case 4, 5:
				amt := []int{0, 1, cnt - 1, cnt, cnt + 1, int(g.threshold()), int(g.threshold()) + 1}[g.pick(7)]
				if amt < 0 {
					amt = 0
				}
				g.tx("UpdateSignatureThreshold", newKV().set("from", hs(from)).set("amount", fmt.Sprint(amt)))
			default:
				g.emit(Op{Kind: "query", Sub: "Attesters", KV: newKV().set("limit", "10").set("countTotal", "1")})
				g.emit(Op{Kind: "query", Sub: "SignatureThreshold", KV: newKV()})
			}
		}
	}
}

// ---------------------------------------------------------------------------------------------
// faults: every subset of dependency failures, and late validation failures after the burn.

func scnFaults(g *Gen, budget int, arg string) {
	plans := []string{"-", "1", "01", "10", "11", "001", "011", "101", "111", "000"}
	first := true
	for g.nOps < budget {
		g.initStandard(2, 1)
		owner := g.role("owner")
		// a domain with a zero messenger, for the late failure "recipient must be nonzero"
		g.tx("AddRemoteTokenMessenger", newKV().set("from", hs(owner)).set("domain", "6").set("address", hx(make([]byte, 32))))
		if first {
			first = false
			// GENUINE dependency failures (no injected fault): the depositor cannot pay although the module account itself
			// holds more than enough for the burn that follows; an inbound burn of a token whose local denom the
			// fiat-token-factory does not mint
			g.fund(types.ModuleAddress, mintDenom, "5000000000000")
			for _, amount := range []string{"1000000000001", "1000000000000", "2000000000000", "4999999999999"} {
				for _, withCaller := range []bool{false, true} {
					ty, kv := g.opDeposit(g.acct[4], amount, withCaller)
					g.tx(ty, kv)
					g.q("NextAvailableNonce")
				}
			}
			g.tx("LinkTokenPair", newKV().set("from", hs(g.role("tc"))).set("domain", "0").set("token", hx(token(13))).set("localToken", hs("other")))
			for _, amt := range []int64{0, 1, 50} {
				g.recvBurn(g.acct[1], 0, g.freshNonce(0), token(13), amt, attOpts{})
			}
		}
		for i := 0; i < 50 && g.nOps < budget; i++ {
			from := g.anyAcct()
			plan := plans[g.pick(len(plans))]
			switch g.pick(10) {
			case 0, 1, 2:
				ty, kv := g.opDeposit(from, fmt.Sprint(1+g.pick(50)), g.chance(0.5))
				if g.chance(0.25) {
					// a spelling that only case-folds to the minting denom: the bank is case sensitive
					kv.set("burnToken", hs([]string{"UUSDC", "uUsDC", "uusdC"}[g.pick(3)]))
				}
				g.tx(ty, kv.set("faults", plan))
			case 3: // late failure: send side paused
				g.pauseTx("SendingAndReceivingMessages", true)
				ty, kv := g.opDeposit(from, fmt.Sprint(1+g.pick(50)), g.chance(0.5))
				g.tx(ty, kv.set("faults", plan))
				g.pauseTx("SendingAndReceivingMessages", false)
			case 4: // late failure: body exceeds the maximum
				g.tx("UpdateMaxMessageBodySize", newKV().set("from", hs(owner)).set("size", "131"))
				ty, kv := g.opDeposit(from, fmt.Sprint(1+g.pick(50)), g.chance(0.5))
				g.tx(ty, kv.set("faults", plan))
				g.tx("UpdateMaxMessageBodySize", newKV().set("from", hs(owner)).set("size", "8000"))
			case 5: // late failure: malformed destination caller / short mint recipient / zero messenger
				ty, kv := g.opDeposit(from, fmt.Sprint(1+g.pick(50)), true)
				switch g.pick(3) {
				case 0:
					kv.set("caller", hx(g.randBytes([]int{1, 31, 33}[g.pick(3)])))
				case 1:
					kv.set("mintRecipient", hx(g.randBytes([]int{1, 31, 33}[g.pick(3)])))
				default:
					kv.set("dest", "6")
				}
				g.tx(ty, kv.set("faults", plan))
			case 6, 7, 8:
				amt := big.NewInt(int64(1 + g.pick(1000)))
				if g.chance(0.4) {
					amt = bigPool(g)
				}
				msg := g.inboundBurn(0, g.freshNonce(0), amt, g.pick(len(g.acctRaw)))
				g.tx("ReceiveMessage", g.opReceive(from, msg, attOpts{}).set("faults", plan))
			default:
				msg := buildMessage(0, 0, 4, g.freshNonce(0), g.rand32(), g.otherRecipient(), make([]byte, 32), g.randBytes(g.pick(100)))
				g.tx("ReceiveMessage", g.opReceive(from, msg, attOpts{}).set("faults", plan))
			}
		}
	}
}

// ---------------------------------------------------------------------------------------------
// genesis: validation, init, export, round trips (also of states produced by histories).

func (g *Gen) randomGenesis() genSpec {
	role := func() string {
		switch g.pick(10) {
		case 0:
			return ""
		case 1:
			return g.weirdAddress()
		}
		return g.anyAcct()
	}
	optB := func() string { return []string{"-", "0", "1"}[g.pick(3)] }
	s := genSpec{owner: role(), am: role(), pauser: role(), tc: role(), burnPaused: optB(), sendPaused: optB()}
	if g.chance(0.8) {
		// validation requires both flags
		s.burnPaused = []string{"0", "1"}[g.pick(2)]
		s.sendPaused = []string{"0", "1"}[g.pick(2)]
	}
	s.maxBody = []string{"-", "0", "132", "8000"}[g.pick(4)]
	s.nextNonce = []string{"-", "0:0", "0:5", "7:18446744073709551615"}[g.pick(4)]
	s.threshold = []string{"-", "0", "1", "2", "66076420"}[g.pick(5)]
	if g.chance(0.7) {
		s.threshold = []string{"-", "1", "2"}[g.pick(3)]
	}
	dup := g.chance(0.35)
	n := g.pick(4)
	for i := 0; i < n; i++ {
		s.attesters = append(s.attesters, hs(g.attesterSpelling(g.pick(len(g.keys)))))
	}
	n = g.pick(4)
	for i := 0; i < n; i++ {
		s.limits = append(s.limits, hs(denomPool[g.pick(6)])+":"+amountPool[1+g.pick(len(amountPool)-1)])
	}
	n = g.pick(4)
	for i := 0; i < n; i++ {
		tok := token(g.pick(3))
		if g.chance(0.1) {
			tok = tok[:20+g.pick(13)]
		}
		s.pairs = append(s.pairs, fmt.Sprintf("%d:%x:%s", g.pick(3), tok, hs(denomPool[g.pick(4)])))
	}
	n = g.pick(5)
	for i := 0; i < n; i++ {
		s.used = append(s.used, fmt.Sprintf("%d:%d", g.pick(3), g.pick(4)))
	}
	n = g.pick(4)
	for i := 0; i < n; i++ {
		d := g.pick(3)
		a := messengerAddr(uint32(d))
		if g.chance(0.3) {
			// Validate does not constrain a messenger's address: a genesis can hold lengths no transaction can create
			a = a[:[]int{0, 1, 20, 31, 32, g.pick(33)}[g.pick(6)]]
		} else if g.chance(0.1) {
			a = append(a, 7)
		}
		s.messengers = append(s.messengers, fmt.Sprintf("%d:%x", d, a))
	}
	if dup {
		// force a collision in one of the five keyed lists
		switch g.pick(5) {
		case 0:
			if len(s.attesters) > 0 {
				s.attesters = append(s.attesters, s.attesters[0])
			}
		case 1:
			if len(s.limits) > 0 {
				d := strings.Split(s.limits[0], ":")[0]
				s.limits = append(s.limits, d+":77")
			}
		case 2:
			if len(s.pairs) > 0 {
				p := strings.Split(s.pairs[0], ":")
				s.pairs = append(s.pairs, p[0]+":"+p[1]+":"+hs("other"))
			}
		case 3:
			if len(s.used) > 0 {
				s.used = append(s.used, s.used[0])
			}
		case 4:
			if len(s.messengers) > 0 {
				d := strings.Split(s.messengers[0], ":")[0]
				s.messengers = append(s.messengers, d+":"+hx(g.rand32()))
			}
		}
	}
	return s
}

// probePair: every spelling of an EXISTING pair's remote token a single-item query might be given -- the exact one must
// find it, the near misses (an extra byte in front or behind, a byte short, wrong-case prefix, no prefix) must not find
// some other pair.
func (g *Gen) probePair(domain uint32, tok []byte) {
	h := hx(tok)
	sp := []string{h, "0x" + h, "0X" + h, "ff" + h, "00" + h, "0xff" + h, h + "00", "0x" + h + "ff", strings.ToUpper(h), "0x" + strings.ToUpper(h)}
	if len(tok) > 1 {
		sp = append(sp, hx(tok[1:]), "0x"+hx(tok[1:]), hx(tok[:len(tok)-1]))
	}
	if len(tok) == 32 {
		sp = append(sp, hx(tok[12:]), "0x"+hx(tok[12:])) // the 20-byte form of an EVM address that was registered padded
	}
	for _, t := range sp {
		if g.chance(0.5) {
			g.emit(Op{Kind: "query", Sub: "TokenPair", KV: newKV().set("domain", fmt.Sprint(domain)).set("token", hs(t))})
		}
	}
}

// probeGenesis reads back, through the queries and the user flows, every entry a genesis put into the store (entries a
// genesis can hold but no transaction can create -- short messenger addresses, odd spellings -- are only reachable here).
func (g *Gen) probeGenesis(sp genSpec) {
	first := func(x string) string { return strings.SplitN(x, ":", 2)[0] }
	for _, m := range sp.messengers {
		g.emit(Op{Kind: "query", Sub: "RemoteTokenMessenger", KV: newKV().set("domain", first(m))})
		if g.chance(0.5) {
			ty, kv := g.opDeposit(g.anyAcct(), "1", g.chance(0.3))
			g.tx(ty, kv.set("dest", first(m)))
		}
	}
	for _, p := range sp.pairs {
		f := strings.Split(p, ":")
		if len(f) >= 2 {
			g.emit(Op{Kind: "query", Sub: "TokenPair", KV: newKV().set("domain", f[0]).set("token", hs("0x"+f[1]))})
			var d uint32
			fmt.Sscan(f[0], &d)
			g.probePair(d, unhexOr(f[1]))
		}
	}
	for _, u := range sp.used {
		f := strings.Split(u, ":")
		if len(f) == 2 {
			g.emit(Op{Kind: "query", Sub: "UsedNonce", KV: newKV().set("domain", f[0]).set("nonce", f[1])})
		}
	}
	for _, a := range sp.attesters {
		g.emit(Op{Kind: "query", Sub: "Attester", KV: newKV().set("attester", a)})
	}
	for _, l := range sp.limits {
		g.emit(Op{Kind: "query", Sub: "PerMessageBurnLimit", KV: newKV().set("denom", first(l))})
	}
	for _, q := range []string{"Attesters", "PerMessageBurnLimits", "TokenPairs", "UsedNonces", "RemoteTokenMessengers", "Roles",
		"MaxMessageBodySize", "NextAvailableNonce", "SignatureThreshold", "BurningAndMintingPaused", "SendingAndReceivingMessagesPaused"} {
		g.emit(Op{Kind: "query", Sub: q, KV: newKV()})
	}
	g.dump()
}

// exportAndReimport: snapshot, export, import into an empty chain, snapshot, diff.
func (g *Gen) exportAndReimport() {
	g.emit(Op{Kind: "snap", KV: newKV().set("id", "a")})
	out := g.emit(Op{Kind: "genesis-export", KV: newKV()})
	if !strings.HasPrefix(out, "out=ok ") {
		return
	}
	exp := ParseOp("x " + strings.TrimPrefix(out, "out=ok "))
	g.config()
	kv := newKV()
	for _, k := range exp.KV.keys {
		if !strings.HasPrefix(k, "#") {
			kv.set(k, exp.KV.m[k])
		}
	}
	g.emit(Op{Kind: "genesis-validate", KV: kv})
	g.emit(Op{Kind: "genesis-init", KV: kv})
	g.emit(Op{Kind: "snap", KV: newKV().set("id", "b")})
	g.emit(Op{Kind: "snapdiff", KV: newKV().set("a", "a").set("b", "b")})
	g.dump()
}

func scnGenesis(g *Gen, budget int, arg string) {
	first := true
	for g.nOps < budget {
		g.config()
		if first {
			first = false
			// the default genesis (what a new chain starts from before its operators edit it): what it is, that it
			// validates, what a chain initialised from it looks like and answers, and that it survives export + import
			dl := g.emit(Op{Kind: "genesis-default", KV: newKV()})
			def := genSpec{burnPaused: "0", sendPaused: "0", maxBody: "-", nextNonce: "-", threshold: "-"}.kv()
			if strings.HasPrefix(dl, "out=ok ") {
				// whatever the implementation's default genesis is (no property says what it must contain), it is a genesis:
				// the ops that follow take IT as their input
				def = ParseOp("x " + strings.TrimPrefix(dl, "out=ok ")).KV
			}
			g.emit(Op{Kind: "genesis-validate", KV: def})
			g.emit(Op{Kind: "genesis-init", KV: def})
			g.dump()
			g.emit(Op{Kind: "genesis-export", KV: newKV()})
			for _, q := range []string{"Roles", "SignatureThreshold", "MaxMessageBodySize", "NextAvailableNonce", "BurningAndMintingPaused", "SendingAndReceivingMessagesPaused"} {
				g.q(q)
			}
			// nobody holds a role: every privileged action fails for every real account; user flows work as far as the
			// (empty) configuration lets them
			for _, from := range []string{g.acct[0], ""} {
				g.tx("UpdateOwner", newKV().set("from", hs(from)).set("new", hs(g.acct[1])))
				g.tx("PauseBurningAndMinting", newKV().set("from", hs(from)))
				g.tx("EnableAttester", newKV().set("from", hs(from)).set("attester", hs(g.pubHex[0])))
				g.tx("UpdateSignatureThreshold", newKV().set("from", hs(from)).set("amount", "2"))
				g.tx("LinkTokenPair", newKV().set("from", hs(from)).set("domain", "0").set("token", hx(token(0))).set("localToken", hs(mintDenom)))
			}
			g.validFlow(0)
			g.validFlow(2)
			g.validFlow(5)
			g.exportAndReimport()
			g.config()
			// a duplicate in ONE keyed list while the others are empty (each list's check stands on its own)
			for which := 0; which < 5; which++ {
				d := genSpec{burnPaused: "0", sendPaused: "0", maxBody: "-", nextNonce: "-", threshold: "-"}
				switch which {
				case 0:
					d.attesters = []string{hs(g.pubHex[0]), hs(g.pubHex[1]), hs(g.pubHex[0])}
				case 1:
					d.limits = []string{hs("uusdc") + ":5", hs("other") + ":6", hs("uusdc") + ":7"}
				case 2:
					d.pairs = []string{fmt.Sprintf("1:%x:%s", token(1), hs("uusdc")), fmt.Sprintf("2:%x:%s", token(1), hs("uusdc")), fmt.Sprintf("1:%x:%s", token(1), hs("other"))}
				case 3:
					d.used = []string{"1:5", "2:5", "1:5"}
				case 4:
					d.messengers = []string{fmt.Sprintf("1:%x", messengerAddr(1)), fmt.Sprintf("2:%x", messengerAddr(2)), fmt.Sprintf("1:%x", messengerAddr(3))}
				}
				g.emit(Op{Kind: "genesis-validate", KV: d.kv()})
			}
		}
		sp := g.randomGenesis()
		v := g.emit(Op{Kind: "genesis-validate", KV: sp.kv()})
		if g.chance(0.2) || strings.HasPrefix(v, "out=ok") {
			o := g.emit(Op{Kind: "genesis-init", KV: sp.kv()})
			g.dump()
			if strings.HasPrefix(o, "out=ok") {
				g.probeGenesis(sp)
				g.emit(Op{Kind: "genesis-export", KV: newKV()})
				if strings.HasPrefix(v, "out=ok") {
					// export(init(g)) vs g is judged by the monitor on the two lines above;
					// now the other direction: import the export into an empty chain
					g.exportAndReimport()
				}
			}
		}
		if g.chance(0.3) {
			// a state produced by a history
			g.initStandard(1+g.pick(3), 1)
			for i := 0; i < 25; i++ {
				if g.chance(0.5) {
					g.randomAdmin()
				} else {
					g.randomUser()
				}
			}
			g.exportAndReimport()
		}
	}
}

// ---------------------------------------------------------------------------------------------
// registry: registry histories over keys differing in one component; pagination with every page size.

func (g *Gen) pageThrough(name string, n int) {
	for limit := 1; limit <= n+1; limit++ {
		// key mode: follow next_key
		g.emit(Op{Kind: "#", KV: newKV().set("pages", name).set("mode", "key").set("limit", fmt.Sprint(limit))})
		key := ""
		for guard := 0; guard < n+3; guard++ {
			kv := newKV().set("limit", fmt.Sprint(limit))
			if key != "" {
				kv.set("key", key)
			}
			out := g.emit(Op{Kind: "query", Sub: name, KV: kv})
			m := strings.Index(out, ":next=")
			if m < 0 {
				break
			}
			rest := out[m+6:]
			key = rest[:strings.Index(rest, ":")]
			if key == "" {
				break
			}
		}
		// offset mode
		g.emit(Op{Kind: "#", KV: newKV().set("pages", name).set("mode", "offset").set("limit", fmt.Sprint(limit))})
		for off := 0; off <= n; off += limit {
			g.emit(Op{Kind: "query", Sub: name, KV: newKV().set("offset", fmt.Sprint(off)).set("limit", fmt.Sprint(limit)).set("countTotal", "1")})
		}
	}
	g.emit(Op{Kind: "#", KV: newKV().set("pages", "end")})
	g.emit(Op{Kind: "query", Sub: name, KV: newKV().set("limit", fmt.Sprint(n+5)).set("reverse", "1").set("countTotal", "1")})
}

func scnRegistry(g *Gen, budget int, arg string) {
	first := true
	for g.nOps < budget {
		g.initStandard(2, 1)
		owner, am, tc := g.role("owner"), g.role("am"), g.role("tc")
		if first {
			first = false
			// deterministic preamble: every registry action a SECOND time, with the same and with another value, and the
			// limit with every shape of amount (absent, zero, negative, huge) on top of an existing entry
			for _, dn := range []string{mintDenom, "other", "UUSDC"} {
				for _, a := range []string{"5", "5", "-", "0", "-1", "7", "-", "115792089237316195423570985008687907853269984665640564039457584007913129639935"} {
					g.tx("SetMaxBurnAmountPerMessage", newKV().set("from", hs(tc)).set("localToken", hs(dn)).set("amount", a))
				}
				g.emit(Op{Kind: "query", Sub: "PerMessageBurnLimit", KV: newKV().set("denom", hs(dn))})
			}
			for rep := 0; rep < 2; rep++ {
				g.tx("AddRemoteTokenMessenger", newKV().set("from", hs(owner)).set("domain", "9").set("address", hx(messengerAddr(9))))
				g.tx("LinkTokenPair", newKV().set("from", hs(tc)).set("domain", "9").set("token", hx(token(1))).set("localToken", hs(mintDenom)))
				g.tx("EnableAttester", newKV().set("from", hs(am)).set("attester", hs(g.pubHex[3])))
			}
			for rep := 0; rep < 2; rep++ {
				g.tx("RemoveRemoteTokenMessenger", newKV().set("from", hs(owner)).set("domain", "9"))
				g.tx("UnlinkTokenPair", newKV().set("from", hs(tc)).set("domain", "9").set("token", hx(token(1))).set("localToken", hs(mintDenom)))
				g.tx("DisableAttester", newKV().set("from", hs(am)).set("attester", hs(g.pubHex[3])))
			}
			for _, sz := range []string{"0", "0", "132", "132", "8000"} {
				g.tx("UpdateMaxMessageBodySize", newKV().set("from", hs(owner)).set("size", sz))
				g.emit(Op{Kind: "query", Sub: "MaxMessageBodySize", KV: newKV()})
			}
		}
		for i := 0; i < 40 && g.nOps < budget; i++ {
			switch g.pick(9) {
			case 0:
				d := []uint32{0, 1, 256, 65536, 16777216, 0xffffffff}[g.pick(6)]
				g.tx("AddRemoteTokenMessenger", newKV().set("from", hs(owner)).set("domain", fmt.Sprint(d)).set("address", hx(messengerAddr(d))))
			case 1:
				d := []uint32{0, 1, 256, 65536, 16777216, 0xffffffff}[g.pick(6)]
				g.tx("RemoveRemoteTokenMessenger", newKV().set("from", hs(owner)).set("domain", fmt.Sprint(d)))
			case 2:
				g.tx("EnableAttester", newKV().set("from", hs(am)).set("attester", hs(g.attesterSpelling(g.pick(len(g.keys))))))
			case 3:
				as := g.attesters()
				if len(as) > 0 {
					g.tx("DisableAttester", newKV().set("from", hs(am)).set("attester", hs(as[g.pick(len(as))])))
				}
			case 4:
				// keys that differ only in the domain or only in the token
				g.tx("LinkTokenPair", newKV().set("from", hs(tc)).set("domain", fmt.Sprint(g.pick(3))).set("token", hx(token(g.pick(3)))).set("localToken", hs(denomPool[g.pick(3)])))
			case 5:
				g.tx("UnlinkTokenPair", newKV().set("from", hs(tc)).set("domain", fmt.Sprint(g.pick(3))).set("token", hx(token(g.pick(3)))).set("localToken", hs(mintDenom)))
			case 6:
				g.tx("SetMaxBurnAmountPerMessage", newKV().set("from", hs(tc)).set("localToken", hs(denomPool[g.pick(5)])).set("amount", fmt.Sprint(g.pick(1000))))
			case 7:
				msg := buildMessage(0, uint32(g.pick(3)), 4, uint64(g.pick(6)), g.rand32(), g.rand32(), make([]byte, 32), nil)
				g.tx("ReceiveMessage", g.opReceive(g.anyAcct(), msg, attOpts{}))
			default:
				g.randomQuery()
			}
			if g.chance(0.4) {
				g.randomQuery()
			}
		}
		k := g.w().k
		ctx := g.w().ctx
		g.pageThrough("Attesters", len(k.GetAllAttesters(ctx)))
		g.pageThrough("PerMessageBurnLimits", len(k.GetAllPerMessageBurnLimits(ctx)))
		g.pageThrough("TokenPairs", len(k.GetAllTokenPairs(ctx)))
		g.pageThrough("UsedNonces", len(k.GetAllUsedNonces(ctx)))
		g.pageThrough("RemoteTokenMessengers", len(k.GetRemoteTokenMessengers(ctx)))
		// single-item queries for every stored entry and for near misses
		for _, a := range k.GetAllAttesters(ctx) {
			g.emit(Op{Kind: "query", Sub: "Attester", KV: newKV().set("attester", hs(a.Attester))})
		}
		for _, u := range k.GetAllUsedNonces(ctx) {
			g.emit(Op{Kind: "query", Sub: "UsedNonce", KV: newKV().set("domain", fmt.Sprint(u.SourceDomain)).set("nonce", fmt.Sprint(u.Nonce))})
			g.emit(Op{Kind: "query", Sub: "UsedNonce", KV: newKV().set("domain", fmt.Sprint(u.Nonce)).set("nonce", fmt.Sprint(u.SourceDomain))})
			g.emit(Op{Kind: "query", Sub: "UsedNonce", KV: newKV().set("domain", fmt.Sprint(u.SourceDomain+1)).set("nonce", fmt.Sprint(u.Nonce))})
		}
		for _, p := range k.GetAllTokenPairs(ctx) {
			g.emit(Op{Kind: "query", Sub: "TokenPair", KV: newKV().set("domain", fmt.Sprint(p.RemoteDomain)).set("token", hs("0x"+hx(p.RemoteToken)))})
			g.emit(Op{Kind: "query", Sub: "TokenPair", KV: newKV().set("domain", fmt.Sprint(p.RemoteDomain+1)).set("token", hs(hx(p.RemoteToken)))})
			g.probePair(p.RemoteDomain, p.RemoteToken)
		}
		for _, l := range k.GetAllPerMessageBurnLimits(ctx) {
			g.emit(Op{Kind: "query", Sub: "PerMessageBurnLimit", KV: newKV().set("denom", hs(l.Denom))})
			g.emit(Op{Kind: "query", Sub: "PerMessageBurnLimit", KV: newKV().set("denom", hs(strings.ToUpper(l.Denom)))})
		}
		for _, m := range k.GetRemoteTokenMessengers(ctx) {
			g.emit(Op{Kind: "query", Sub: "RemoteTokenMessenger", KV: newKV().set("domain", fmt.Sprint(m.DomainId))})
		}
		for _, q := range []string{"Roles", "BurningAndMintingPaused", "SendingAndReceivingMessagesPaused", "SignatureThreshold", "MaxMessageBodySize", "NextAvailableNonce", "LocalDomain", "BurnMessageVersion", "LocalMessageVersion"} {
			g.emit(Op{Kind: "query", Sub: q, KV: newKV()})
		}
	}
}

// ---------------------------------------------------------------------------------------------
// crash: every field of every message through the mutators; nil requests; odd page requests.

// stringFields are Go strings on the wire (must stay valid UTF-8: typed events round-trip through JSON);
// the three that the module lower-cases additionally stay inside the case-mapping oracle's pool.
var stringFields = map[string]bool{"from": true, "new": true, "attester": true}
var poolStringFields = map[string]bool{"burnToken": true, "localToken": true, "denom": true}
var u32Fields = map[string]bool{"dest": true, "domain": true}
var u64Fields = map[string]bool{"nonce": true, "size": true, "offset": true, "limit": true}

func (g *Gen) mutateValue(sub, k, v string) string {
	switch {
	case k == "amount" && sub == "UpdateSignatureThreshold":
		return []string{"0", "1", "2", "4294967295", "66076420"}[g.pick(5)]
	case k == "amount":
		return amountPool[g.pick(len(amountPool))]
	case u32Fields[k]:
		return []string{"0", "1", "4", "4294967295"}[g.pick(4)]
	case u64Fields[k]:
		return []string{"0", "1", "4294967296", "18446744073709551615"}[g.pick(4)]
	case poolStringFields[k]:
		return hs(denomPool[g.pick(len(denomPool))])
	case k == "token" && sub == "TokenPair":
		if g.chance(0.6) {
			return hs(g.remoteTokenSpelling())
		}
		return hs([]string{"", "0x", "zz", "0x" + strings.Repeat("ab", 40), "ünï", "0xABCDEF"}[g.pick(6)])
	case stringFields[k]:
		switch g.pick(7) {
		case 0:
			return ""
		case 1:
			return hs("ünïcödé-ſ-" + string(rune(0x1F600)))
		case 2:
			return hs(strings.Repeat("a", 65536))
		case 3:
			return hs("0x" + strings.Repeat("f", 1+g.pick(200)))
		case 4:
			return hs(" \t")
		default:
			return hs(g.weirdAddress())
		}
	case k == "nil" || k == "page" || k == "countTotal" || k == "reverse":
		return []string{"0", "1"}[g.pick(2)]
	}
	switch g.pick(8) {
	case 0:
		return ""
	case 1:
		return hx(g.randBytes(1))
	case 2:
		return hx(g.randBytes(31))
	case 3:
		return hx(g.randBytes(32))
	case 4:
		return hx(g.randBytes(33))
	case 5:
		return hx(g.randBytes(65536))
	case 6:
		return hx(make([]byte, 32))
	default:
		return hx(g.randBytes(115 + g.pick(4)))
	}
}

func scnCrash(g *Gen, budget int, arg string) {
	for g.nOps < budget {
		g.initStandard(1+g.pick(3), 1)
		g.autoDump = false
		for i := 0; i < 150 && g.nOps < budget; i++ {
			// produce a mostly valid op into a scratch generator view, then mutate 1..3 fields
			var captured []Op
			realEmit := g.ops
			_ = realEmit
			capOps := func(f func()) {
				// run f on a throw-away session clone is expensive; instead build ops by intercepting tx()
				g.capture = &captured
				f()
				g.capture = nil
			}
			capOps(func() {
				if g.chance(0.5) {
					g.randomUser()
				} else if g.chance(0.7) {
					g.randomAdmin()
				} else {
					g.randomQuery()
				}
			})
			for _, op := range captured {
				nm := 1 + g.pick(3)
				for z := 0; z < nm && len(op.KV.keys) > 0; z++ {
					k := op.KV.keys[g.pick(len(op.KV.keys))]
					if k == "ecr" || k == "faults" {
						continue
					}
					op.KV.set(k, g.mutateValue(op.Sub, k, op.KV.m[k]))
				}
				if op.KV.get("message") != "" || op.KV.get("attestation") != "" {
					op.KV.set("ecr", ecrEntries(op.KV.bytes("message"), op.KV.bytes("attestation")))
				}
				if op.Kind == "query" && g.chance(0.1) {
					op.KV.set("nil", "1")
				}
				g.emit(op)
			}
		}
		g.autoDump = true
		g.dump()
	}
}

var _ = binary.BigEndian
var _ = crypto.Keccak256

// ---------------------------------------------------------------------------------------------
// replace: the C09 matrix — originals that are the submitter's own, somebody else's, from a foreign
// domain, unattested, attested by a rotated-out set, too short, with a non-burn body, or a burn-shaped
// body inside a message the module never sent.

func init() { scenarios["replace"] = scnReplace }

// replacePreamble: whatever the seed -- originals over (who the sender field names) x (plain body / burn-shaped body) x
// (whom the burn body names as depositor) x (source domain Noble / foreign), each honestly attested, each put through
// BOTH replace handlers, the new-field variants (caller: zero, set, empty, short; recipient: set, zero, empty, long enough
// to spill into the amount and into the depositor, short) taken in turn.
func (g *Gen) replacePreamble() {
	callers := func(i int) []byte {
		return [][]byte{make([]byte, 32), g.rand32(), {}, g.randBytes(31), g.randBytes(33)}[i%5]
	}
	rcps := func(i int) []byte {
		return [][]byte{g.rand32(), make([]byte, 32), {}, g.randBytes(33), append(g.rand32(), big.NewInt(1000000000).FillBytes(make([]byte, 32))...),
			g.randBytes(96), g.randBytes(31)}[i%7]
	}
	n := 0
	for senderKind := 0; senderKind < 5; senderKind++ {
		for _, burnShaped := range []bool{false, true} {
			for _, selfDep := range []bool{true, false} {
				for _, src := range []uint32{4, 0} {
					if !burnShaped && !selfDep {
						continue
					}
					sub := n % len(g.acct)
					from := g.acct[sub]
					var sender []byte
					switch senderKind {
					case 0:
						sender = pad32(g.acctRaw[sub])
					case 1:
						sender = pad32(g.acctRaw[(sub+1)%len(g.acct)])
					case 2:
						sender = pad32(g.acctRaw[sub])
						g.rng.Read(sender[:12])
						sender[0] |= 1
					case 3:
						sender = append([]byte{}, types.PaddedModuleAddress...)
						g.rng.Read(sender[:12])
						sender[0] |= 1
					default:
						sender = types.PaddedModuleAddress
					}
					body := g.randBytes(1 + n%40)
					if burnShaped {
						dep := pad32(g.acctRaw[sub])
						if !selfDep {
							dep = pad32(g.acctRaw[(sub+2)%len(g.acct)])
						}
						body = buildBurnBody(0, crypto.Keccak256([]byte(mintDenom)), g.rand32(), big.NewInt(int64(100+n)), dep)
					}
					// the header version of the attested original is NOT checked by the replace handlers; the replacement is
					// stamped with the local version whatever the original carried
					origVer := []uint32{0, 1, 0, 2, 0, 0xffffffff}[n%6]
					orig := buildMessage(origVer, src, g.domain(), uint64(n), sender, g.rand32(), g.rand32(), body)
					att := g.attest(orig, attOpts{})
					ecr := ecrEntries(orig, att)
					g.tx("ReplaceMessage", newKV().set("from", hs(from)).set("message", hx(orig)).set("attestation", hx(att)).
						set("newBody", hx(g.randBytes(n%50))).set("newCaller", hx(callers(n))).set("ecr", ecr))
					g.tx("ReplaceDepositForBurn", newKV().set("from", hs(from)).set("message", hx(orig)).set("attestation", hx(att)).
						set("newCaller", hx(callers(n/2))).set("newMintRecipient", hx(rcps(n))).set("ecr", ecr))
					n++
				}
			}
		}
	}
}

// replaceLongSubmitters: account addresses need not be 20 bytes long (the SDK admits 1..255).  The handlers encode the
// submitter as copy(dst[12:], addr) -- the FIRST 20 bytes of a longer address, a shorter one followed by zeros -- so
// "the submitter is the sender" is decided on that encoding: 12 zero bytes followed by A is NOT account A.
func (g *Gen) replaceLongSubmitters() {
	enc := func(b []byte) string {
		s, _ := bech32.ConvertAndEncode(bech32Prefix, b)
		return s
	}
	for sub := 0; sub < 2; sub++ {
		raw := g.acctRaw[sub]
		subs := []string{
			enc(pad32(raw)),                                 // 0^12 ‖ A : another account
			enc(append(append([]byte{}, raw...), g.randBytes(12)...)), // A ‖ 12 more bytes: encodes like A
			enc(append(make([]byte, 11), raw...)),           // 31 bytes
			enc(raw[:19]),                                   // A without its last byte
			enc(append([]byte{0}, raw...)),                  // 21 bytes
			enc(raw[12:]),                                   // the last 8 bytes only
		}
		for k, from := range subs {
			for _, burnShaped := range []bool{false, true} {
				sender := pad32(raw)
				body := g.randBytes(7)
				if burnShaped {
					sender = types.PaddedModuleAddress
					body = buildBurnBody(0, crypto.Keccak256([]byte(mintDenom)), g.rand32(), big.NewInt(int64(50+k)), pad32(raw))
				}
				orig := buildMessage(0, 4, g.domain(), uint64(500+k), sender, g.rand32(), g.rand32(), body)
				att := g.attest(orig, attOpts{})
				ecr := ecrEntries(orig, att)
				if burnShaped {
					g.tx("ReplaceDepositForBurn", newKV().set("from", hs(from)).set("message", hx(orig)).set("attestation", hx(att)).
						set("newCaller", hx(g.rand32())).set("newMintRecipient", hx(g.rand32())).set("ecr", ecr))
				} else {
					g.tx("ReplaceMessage", newKV().set("from", hs(from)).set("message", hx(orig)).set("attestation", hx(att)).
						set("newBody", hx(g.randBytes(9))).set("newCaller", hx(g.rand32())).set("ecr", ecr))
				}
			}
		}
	}
}

func scnReplace(g *Gen, budget int, arg string) {
	first := true
	for g.nOps < budget {
		g.initStandard(3, 2)
		for i := 0; i < 4; i++ {
			g.validFlow(i)
		}
		if first {
			g.replacePreamble()
			g.replaceLongSubmitters()
			g.thresholdAboveCount()
			g.initStandard(3, 2)
			first = false
		}
		for k := 0; k < 60 && g.nOps < budget; k++ {
			sub := g.pick(len(g.acct))
			from := g.acct[sub]
			src := uint32(4)
			if g.chance(0.15) {
				src = []uint32{0, 1, 5}[g.pick(3)]
			}
			var sender []byte
			switch g.pick(5) {
			case 0, 1:
				sender = pad32(g.acctRaw[sub])
			case 2:
				sender = pad32(g.acctRaw[(sub+1)%len(g.acct)])
			case 3:
				// the submitter (or the module) in the low 20 bytes under non-zero padding: not the submitter's padded address
				sender = pad32(g.acctRaw[sub])
				if g.chance(0.4) {
					sender = append([]byte{}, types.PaddedModuleAddress...)
				}
				g.rng.Read(sender[:12])
				sender[g.pick(12)] |= 1
			default:
				sender = types.PaddedModuleAddress
			}
			var body []byte
			burnShaped := g.chance(0.6)
			if burnShaped && g.chance(0.6) {
				sender = types.PaddedModuleAddress
			}
			if burnShaped {
				ms := pad32(g.acctRaw[sub])
				if g.chance(0.25) {
					ms = pad32(g.acctRaw[(sub+2)%len(g.acct)])
				}
				body = buildBurnBody(uint32(g.pick(2)/1*0), crypto.Keccak256([]byte(mintDenom)), g.rand32(), bigPool(g), ms)
				if g.chance(0.1) {
					body = body[:131]
				}
			} else {
				body = g.randBytes(g.pick(200))
			}
			origVer := uint32(0)
			if g.chance(0.25) {
				origVer = []uint32{1, 2, 0xffffffff}[g.pick(3)]
			}
			orig := buildMessage(origVer, src, g.domain(), uint64(g.pick(1000)), sender, g.rand32(), g.rand32(), body)
			if g.chance(0.05) {
				orig = orig[:g.pick(116)]
			}
			o := attOpts{legacyV: g.pick(3)}
			switch g.pick(10) {
			case 0:
				o.mutation = []string{"trunc1", "pad65", "reverse", "flipBit", "dupLast"}[g.pick(5)]
			case 1:
				o.overMsg = append(append([]byte{}, orig...), 1)
			case 2:
				// rotate an attester out after signing: sign first, then disable one signer
				en := g.enabledKeys()
				if len(en) > int(g.threshold()) && len(en) > 1 {
					att := g.attest(orig, o)
					if g.chance(0.6) {
						// the attestation is verified once while its signers are still enabled (on a branch that is thrown away) ...
						g.emit(Op{Kind: "sim", Sub: "ReplaceMessage", KV: newKV().set("from", hs(from)).set("message", hx(orig)).set("attestation", hx(att)).
							set("newBody", hx(g.randBytes(3))).set("newCaller", hx(make([]byte, 32))).set("ecr", ecrEntries(orig, att)).set("faults", "-")})
					}
					// ... and must be verified again, against the set of the moment, after one of them was rotated out
					g.tx("DisableAttester", newKV().set("from", hs(g.role("am"))).set("attester", hs(g.pubHex[en[0]])))
					g.emitReplace(from, orig, att, burnShaped)
					g.tx("EnableAttester", newKV().set("from", hs(g.role("am"))).set("attester", hs(g.pubHex[en[0]])))
					continue
				}
			}
			att := g.attest(orig, o)
			g.emitReplace(from, orig, att, burnShaped)
			if g.chance(0.15) {
				which := []string{"BurningAndMinting", "SendingAndReceivingMessages"}[g.pick(2)]
				g.pauseTx(which, true)
				g.emitReplace(from, orig, att, burnShaped)
				g.pauseTx(which, false)
			}
		}
	}
}

func (g *Gen) emitReplace(from string, orig, att []byte, burnShaped bool) {
	caller := [][]byte{make([]byte, 32), g.rand32(), g.rand32(), {}, g.randBytes(31)}[g.pick(5)]
	if burnShaped || g.chance(0.2) {
		rcp := [][]byte{g.rand32(), g.rand32(), g.rand32(), make([]byte, 32), {}, g.randBytes(33),
			append(g.rand32(), big.NewInt(1000000000).FillBytes(make([]byte, 32))...), g.randBytes(96), g.randBytes(31)}[g.pick(9)]
		g.tx("ReplaceDepositForBurn", newKV().set("from", hs(from)).set("message", hx(orig)).set("attestation", hx(att)).
			set("newCaller", hx(caller)).set("newMintRecipient", hx(rcp)).set("ecr", ecrEntries(orig, att)))
	}
	if !burnShaped || g.chance(0.3) {
		g.tx("ReplaceMessage", newKV().set("from", hs(from)).set("message", hx(orig)).set("attestation", hx(att)).
			set("newBody", hx(g.randBytes(g.pick(200)))).set("newCaller", hx(caller)).set("ecr", ecrEntries(orig, att)))
	}
}

// ---------------------------------------------------------------------------------------------
// witness: the minimal histories of the defects found so far (fixed ones and known findings); their op files
// are committed under /verif/corpus and run first on every check.

func init() { scenarios["witness"] = scnWitness }

func scnWitness(g *Gen, budget int, arg string) {
	switch arg {
	case "C17-pending-owner":
		g.initStandard(2, 1)
		g.tx("UpdateOwner", newKV().set("from", hs(g.acct[0])).set("new", hs(g.acct[4])))
		g.exportAndReimport()
		g.tx("AcceptOwner", newKV().set("from", hs(g.acct[4])))
	case "C17-duplicate-token-pairs":
		g.config()
		sp := g.standardGenesis(1, 1)
		sp.pairs = append(sp.pairs, fmt.Sprintf("%d:%x:%s", 0, token(0), hs("other")))
		g.emit(Op{Kind: "genesis-validate", KV: sp.kv()})
		sp2 := g.standardGenesis(1, 1)
		sp2.used = []string{"1:5", "1:5"}
		g.emit(Op{Kind: "genesis-validate", KV: sp2.kv()})
	case "C19-short-remote-token":
		g.config()
		sp := g.standardGenesis(1, 1)
		sp.pairs = append(sp.pairs, fmt.Sprintf("%d:%x:%s", 7, token(0)[:20], hs(mintDenom)))
		g.emit(Op{Kind: "genesis-validate", KV: sp.kv()})
	case "C20-paginate-reverse":
		g.initStandard(2, 1)
		g.emit(Op{Kind: "query", Sub: "Attesters", KV: newKV().set("key", "ff").set("limit", "1").set("reverse", "1")})
		g.emit(Op{Kind: "query", Sub: "UsedNonces", KV: newKV().set("key", "00").set("limit", "1").set("reverse", "1")})
		g.emit(Op{Kind: "query", Sub: "RemoteTokenMessengers", KV: newKV().set("key", hx([]byte{0, 0, 0, 3})).set("limit", "1").set("reverse", "1")})
	case "C20-fixed":
		g.initStandard(2, 1)
		_, kv := g.opDeposit(g.acct[1], "-", false)
		g.tx("DepositForBurn", kv)
		_, kv = g.opDeposit(g.acct[1], "-", true)
		g.tx("DepositForBurnWithCaller", kv)
		_, kv = g.opDeposit(g.acct[1], "5", false)
		g.tx("DepositForBurn", kv.set("burnToken", hs("uuſdc")))
		g.emit(Op{Kind: "verify", KV: newKV().set("message", "00").set("attestation", "00000000").set("attesters", hs(g.pubHex[0])).set("threshold", "66076420").set("ecr", "-")})
		g.emit(Op{Kind: "cli-parse", KV: newKV().set("s", "")})
		g.emit(Op{Kind: "cli-parse", KV: newKV().set("s", hs("0"))})
		g.emit(Op{Kind: "cli-parse", KV: newKV().set("s", hs("x"))})
	case "C06-replace-event-token":
		g.initStandard(2, 1)
		_, kv := g.opDeposit(g.acct[1], "77", false)
		g.tx("DepositForBurn", kv)
		g.validReplace(true)
	}
}

// ---------------------------------------------------------------------------------------------
// bulk: registries with more entries than any default page size (the SDK's default limit is 100): export, import,
// list queries without pagination parameters, and replays of used pairs that sort beyond the first hundred.

func init() { scenarios["bulk"] = scnBulk }

func scnBulk(g *Gen, budget int, arg string) {
	round := 3 // the used nonces first, then the other registries in turn: every run sees each of them big
	for g.nOps < budget {
		n := []int{101, 150, 257}[g.pick(3)]
		which := round % 5 // the registry that is made big (the others get a few entries)
		round++
		size := func(i int) int {
			if i == which {
				return n
			}
			return 1 + g.pick(3)
		}
		g.config()
		sp := g.standardGenesis(2, 1)
		for i := 0; i < size(0)-2; i++ {
			sp.attesters = append(sp.attesters, hs(fmt.Sprintf("0x%064x%064x", i+1, g.rng.Uint64())))
		}
		sp.limits = nil
		for i := 0; i < size(1); i++ {
			sp.limits = append(sp.limits, hs(fmt.Sprintf("denom%d", i))+":"+fmt.Sprint(1+g.pick(1000)))
		}
		sp.limits = append(sp.limits, hs(mintDenom)+":1000000")
		for i := 0; i < size(2); i++ {
			sp.pairs = append(sp.pairs, fmt.Sprintf("%d:%x:%s", 7+g.pick(3), g.rand32(), hs(fmt.Sprintf("tok%d", i))))
		}
		seen := map[string]bool{}
		for want := size(3); len(sp.used) < want; {
			u := fmt.Sprintf("%d:%d", g.pick(2), g.pick(4*n))
			if !seen[u] {
				seen[u] = true
				sp.used = append(sp.used, u)
			}
		}
		for i := 0; i < size(4); i++ {
			sp.messengers = append(sp.messengers, fmt.Sprintf("%d:%x", 100+i, g.rand32()))
		}
		g.emit(Op{Kind: "genesis-validate", KV: sp.kv()})
		g.emit(Op{Kind: "genesis-init", KV: sp.kv()})
		g.dump()
		for _, q := range []string{"Attesters", "PerMessageBurnLimits", "TokenPairs", "UsedNonces", "RemoteTokenMessengers"} {
			g.emit(Op{Kind: "query", Sub: q, KV: newKV()})
			g.emit(Op{Kind: "query", Sub: q, KV: newKV().set("limit", fmt.Sprint(n+50)).set("countTotal", "1")})
			g.emit(Op{Kind: "query", Sub: q, KV: newKV().set("offset", "99").set("limit", "5")})
			g.emit(Op{Kind: "query", Sub: q, KV: newKV().set("reverse", "1").set("limit", "3")})
		}
		// used pairs at every position of the list must stay used: through a receive, a query, and an export/import
		for k := 0; k < 6 && len(sp.used) > 0; k++ {
			u := strings.Split(sp.used[g.pick(len(sp.used))], ":")
			var d, nn uint64
			fmt.Sscan(u[0], &d)
			fmt.Sscan(u[1], &nn)
			g.emit(Op{Kind: "query", Sub: "UsedNonce", KV: newKV().set("domain", u[0]).set("nonce", u[1])})
			msg := g.inboundBurn(uint32(d), nn, big.NewInt(5), 0)
			g.tx("ReceiveMessage", g.opReceive(g.anyAcct(), msg, attOpts{}))
		}
		g.exportAndReimport()
		for k := 0; k < 6 && len(sp.used) > 0; k++ {
			u := strings.Split(sp.used[g.pick(len(sp.used))], ":")
			var d, nn uint64
			fmt.Sscan(u[0], &d)
			fmt.Sscan(u[1], &nn)
			g.emit(Op{Kind: "query", Sub: "UsedNonce", KV: newKV().set("domain", u[0]).set("nonce", u[1])})
			msg := g.inboundBurn(uint32(d), nn, big.NewInt(5), 0)
			g.tx("ReceiveMessage", g.opReceive(g.anyAcct(), msg, attOpts{}))
		}
		g.dump()
	}
}
