def hello := "world"
