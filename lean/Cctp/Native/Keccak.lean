import Cctp.Model.Bytes
/-
  Keccak-256 (the pre-NIST padding 0x01, as used by Ethereum / go-ethereum `crypto.Keccak256`).
  Executable instance for `Ext.keccak256`; differential-tested against go-ethereum on every run.
  No theorem depends on this file.
-/
namespace Cctp.Native

def rc : Array UInt64 := #[
  0x0000000000000001, 0x0000000000008082, 0x800000000000808A, 0x8000000080008000,
  0x000000000000808B, 0x0000000080000001, 0x8000000080008081, 0x8000000000008009,
  0x000000000000008A, 0x0000000000000088, 0x0000000080008009, 0x000000008000000A,
  0x000000008000808B, 0x800000000000008B, 0x8000000000008089, 0x8000000000008003,
  0x8000000000008002, 0x8000000000000080, 0x000000000000800A, 0x800000008000000A,
  0x8000000080008081, 0x8000000000008080, 0x0000000080000001, 0x8000000080008008]

def rotc : Array Nat := #[1, 3, 6, 10, 15, 21, 28, 36, 45, 55, 2, 14, 27, 41, 56, 8, 25, 43, 62, 18, 39, 61, 20, 44]
def piln : Array Nat := #[10, 7, 11, 17, 18, 3, 5, 16, 8, 21, 24, 4, 15, 23, 19, 13, 12, 2, 20, 14, 22, 9, 6, 1]

@[inline] def rotl (x : UInt64) (n : Nat) : UInt64 :=
  if n % 64 = 0 then x else (x <<< (UInt64.ofNat (n % 64))) ||| (x >>> (UInt64.ofNat (64 - n % 64)))

def keccakF (st : Array UInt64) : Array UInt64 := Id.run do
  let mut a := st
  for round in [0:24] do
    -- theta
    let mut c : Array UInt64 := Array.replicate 5 0
    for x in [0:5] do
      c := c.set! x (a[x]! ^^^ a[x+5]! ^^^ a[x+10]! ^^^ a[x+15]! ^^^ a[x+20]!)
    for x in [0:5] do
      let d := c[(x+4) % 5]! ^^^ rotl c[(x+1) % 5]! 1
      for y in [0:5] do
        a := a.set! (x + 5*y) (a[x + 5*y]! ^^^ d)
    -- rho, pi
    let mut cur := a[1]!
    for i in [0:24] do
      let j := piln[i]!
      let tmp := a[j]!
      a := a.set! j (rotl cur rotc[i]!)
      cur := tmp
    -- chi
    for y in [0:5] do
      let r0 := a[5*y]!; let r1 := a[5*y+1]!; let r2 := a[5*y+2]!; let r3 := a[5*y+3]!; let r4 := a[5*y+4]!
      a := a.set! (5*y)   (r0 ^^^ ((~~~ r1) &&& r2))
      a := a.set! (5*y+1) (r1 ^^^ ((~~~ r2) &&& r3))
      a := a.set! (5*y+2) (r2 ^^^ ((~~~ r3) &&& r4))
      a := a.set! (5*y+3) (r3 ^^^ ((~~~ r4) &&& r0))
      a := a.set! (5*y+4) (r4 ^^^ ((~~~ r0) &&& r1))
    -- iota
    a := a.set! 0 (a[0]! ^^^ rc[round]!)
  return a

def xorBlock (st : Array UInt64) (blk : Array UInt8) (off : Nat) : Array UInt64 := Id.run do
  let mut a := st
  for i in [0:17] do
    let mut w : UInt64 := 0
    for j in [0:8] do
      w := w ||| ((blk[off + 8*i + j]!).toUInt64 <<< (UInt64.ofNat (8*j)))
    a := a.set! i (a[i]! ^^^ w)
  return a

/-- absorb the padded message; the final permutation state. -/
def keccakState (msg : Bytes) : Array UInt64 := Id.run do
  let rate := 136
  let m := msg.toArray
  let padLen := rate - m.size % rate
  let mut p := m
  for i in [0:padLen] do
    let b : UInt8 := (if i = 0 then 0x01 else 0x00) ||| (if i = padLen - 1 then 0x80 else 0x00)
    p := p.push b
  let mut st : Array UInt64 := Array.replicate 25 0
  for blk in [0:p.size / rate] do
    st := keccakF (xorBlock st p (blk * rate))
  return st

/-- squeeze 32 bytes: lanes 0..3, little-endian. -/
def squeeze (st : Array UInt64) : Bytes :=
  (List.range 32).map fun k => (st[k / 8]! >>> (UInt64.ofNat (8 * (k % 8)))).toUInt8

def keccak256 (msg : Bytes) : Bytes := squeeze (keccakState msg)

/-- the digest is 32 bytes long, whatever the input (the named hypothesis `KeccakLen` of C08, for this instance). -/
theorem keccak256_length (msg : Bytes) : (keccak256 msg).length = 32 := by
  simp [keccak256, squeeze]

end Cctp.Native
