import Cctp.Model.Bytes
/-
  secp256k1 public-key recovery, as go-ethereum's `crypto.Ecrecover(hash, sig)` does it through libsecp256k1
  (`secp256k1_ecdsa_recoverable_signature_parse_compact` + `secp256k1_ecdsa_recover` + uncompressed serialisation).
  Executable instance for `Ext.ecrecover`; differential-tested against go-ethereum on every run (`ext fn=ecrecover`
  stream and the `attnative` scenario, in which the harness supplies NO oracle entries).  No theorem depends on this
  file: every theorem quantifies over `Ext`.

  Rejections, in libsecp256k1's order:  |hash| ≠ 32 or |sig| ≠ 65;  recovery id ≥ 4;  r ≥ n or s ≥ n;  r = 0 or s = 0;
  recid ≥ 2 and r + n ≥ p;  x = r (+ n) is not the abscissa of a curve point;  the recovered point is at infinity.
-/
namespace Cctp.Native.Secp

def P : Nat := 0xFFFFFFFFFFFFFFFFFFFFFFFFFFFFFFFFFFFFFFFFFFFFFFFFFFFFFFFEFFFFFC2F
def N : Nat := 0xFFFFFFFFFFFFFFFFFFFFFFFFFFFFFFFEBAAEDCE6AF48A03BBFD25E8CD0364141
def Gx : Nat := 0x79BE667EF9DCBBAC55A06295CE870B07029BFCDB2DCE28D959F2815B16F81798
def Gy : Nat := 0x483ADA7726A3C4655DA4FBFC0E1108A8FD17B448A68554199C47D08FFB10D4B8

/-- `b^e mod m` by square-and-multiply over the bits of `e` (fuel = number of bits). -/
def powMod (b e m : Nat) : Nat :=
  let rec go (fuel : Nat) (b e acc : Nat) : Nat :=
    match fuel with
    | 0 => acc
    | fuel+1 =>
      if e = 0 then acc
      else go fuel (b * b % m) (e / 2) (if e % 2 = 1 then acc * b % m else acc)
  go (e.log2 + 1) (b % m) e (1 % m)

/-- inverse modulo a prime (Fermat). -/
def invMod (a m : Nat) : Nat := powMod a (m - 2) m

/-- Jacobian point (X, Y, Z); Z = 0 is the point at infinity. -/
structure Pt where
  x : Nat
  y : Nat
  z : Nat
  deriving Repr, Inhabited

def Pt.inf : Pt := ⟨1, 1, 0⟩
def Pt.isInf (a : Pt) : Bool := a.z = 0

@[inline] def fsub (a b : Nat) : Nat := (a + P - b % P) % P

/-- point doubling on y² = x³ + 7 (a = 0). -/
def Pt.dbl (a : Pt) : Pt :=
  if a.z = 0 ∨ a.y = 0 then Pt.inf else
  let yy := a.y * a.y % P
  let s := 4 * a.x * yy % P
  let m := 3 * a.x * a.x % P
  let x3 := fsub (m * m % P) (2 * s % P)
  let y3 := fsub (m * fsub s x3 % P) (8 * yy * yy % P)
  let z3 := 2 * a.y * a.z % P
  ⟨x3, y3, z3⟩

def Pt.add (a b : Pt) : Pt :=
  if a.z = 0 then b else if b.z = 0 then a else
  let z1z1 := a.z * a.z % P
  let z2z2 := b.z * b.z % P
  let u1 := a.x * z2z2 % P
  let u2 := b.x * z1z1 % P
  let s1 := a.y * b.z % P * z2z2 % P
  let s2 := b.y * a.z % P * z1z1 % P
  if u1 = u2 then (if s1 = s2 then a.dbl else Pt.inf) else
  let h := fsub u2 u1
  let r := fsub s2 s1
  let hh := h * h % P
  let hhh := h * hh % P
  let v := u1 * hh % P
  let x3 := fsub (fsub (r * r % P) hhh) (2 * v % P)
  let y3 := fsub (r * fsub v x3 % P) (s1 * hhh % P)
  let z3 := h * a.z % P * b.z % P
  ⟨x3, y3, z3⟩

/-- `k·a + l·b` by simultaneous double-and-add (Shamir), most significant bit first. -/
def mul2 (k : Nat) (a : Pt) (l : Nat) (b : Pt) : Pt :=
  let ab := a.add b
  let rec go (i : Nat) (acc : Pt) : Pt :=
    match i with
    | 0 => acc
    | i+1 =>
      let acc := acc.dbl
      let kb := k.testBit i
      let lb := l.testBit i
      let acc := if kb && lb then acc.add ab else if kb then acc.add a else if lb then acc.add b else acc
      go i acc
  go 256 Pt.inf

/-- affine coordinates of a finite point. -/
def Pt.affine (a : Pt) : Nat × Nat :=
  let zi := invMod a.z P
  let zi2 := zi * zi % P
  (a.x * zi2 % P, a.y * zi2 % P * zi % P)

def natOfBytes (b : Bytes) : Nat := b.foldl (fun acc x => acc * 256 + x.toNat) 0

def bytes32 (n : Nat) : Bytes :=
  (List.range 32).map fun i => UInt8.ofNat (n / 256 ^ (31 - i) % 256)

/-- `crypto.Ecrecover(hash, sig)`: the 65-byte uncompressed public key, or `none` where the library returns an error. -/
def ecrecover (hash sig : Bytes) : Option Bytes :=
  if hash.length ≠ 32 ∨ sig.length ≠ 65 then none else
  let r := natOfBytes (sig.take 32)
  let s := natOfBytes ((sig.drop 32).take 32)
  let v := (sig.getD 64 0).toNat
  if v ≥ 4 then none else
  if r ≥ N ∨ s ≥ N then none else
  if r = 0 ∨ s = 0 then none else
  if v ≥ 2 ∧ r + N ≥ P then none else
  let x := if v ≥ 2 then r + N else r
  let y2 := (x * x % P * x + 7) % P
  let y := powMod y2 ((P + 1) / 4) P
  if y * y % P ≠ y2 then none else
  let y := if (y % 2 = 1) = (v % 2 = 1) then y else (P - y) % P
  let m := natOfBytes hash % N
  let rinv := invMod r N
  let u1 := (N - rinv * m % N) % N
  let u2 := rinv * s % N
  let q := mul2 u1 ⟨Gx, Gy, 1⟩ u2 ⟨x, y, 1⟩
  if q.isInf then none else
  let (qx, qy) := q.affine
  some (4 :: (bytes32 qx ++ bytes32 qy))

end Cctp.Native.Secp
