import Cctp.Model.Bytes
/-
  Small executable instances: ASCII case mapping, `sdk.ValidateDenom`, base58 decoding.
-/
namespace Cctp.Native

def isAscii (b : Bytes) : Bool := b.all (· < 128)
def lowerAscii (b : Bytes) : Bytes := b.map fun c => if 65 ≤ c ∧ c ≤ 90 then c + 32 else c

def isAlpha (c : UInt8) : Bool := (65 ≤ c ∧ c ≤ 90) ∨ (97 ≤ c ∧ c ≤ 122)
def isDigit (c : UInt8) : Bool := 48 ≤ c ∧ c ≤ 57
/-- `[a-zA-Z][a-zA-Z0-9/:._-]{2,127}` -/
def validDenom (d : Bytes) : Bool :=
  match d with
  | [] => false
  | c :: rest =>
    isAlpha c && 2 ≤ rest.length && rest.length ≤ 127 &&
    rest.all fun x => isAlpha x || isDigit x || x == 47 || x == 58 || x == 46 || x == 95 || x == 45

def b58alphabet : Array UInt8 := "123456789ABCDEFGHJKLMNPQRSTUVWXYZabcdefghijkmnopqrstuvwxyz".toUTF8.data

def natToBytes (n : Nat) : Bytes :=
  let rec go (fuel n : Nat) (acc : Bytes) : Bytes :=
    match fuel with
    | 0 => acc
    | fuel+1 => if n = 0 then acc else go fuel (n / 256) (UInt8.ofNat (n % 256) :: acc)
  go (n + 1) n []

/-- btcutil `base58.Decode`: empty result on any invalid character; leading '1's are zero bytes. -/
def base58Decode (s : Bytes) : Bytes :=
  match s.mapM (fun c => b58alphabet.toList.idxOf? c) with
  | none => []
  | some ds =>
    let n := ds.foldl (fun acc d => acc * 58 + d) 0
    let zerosN := (s.takeWhile (· == 49)).length
    List.replicate zerosN 0 ++ natToBytes n

end Cctp.Native
