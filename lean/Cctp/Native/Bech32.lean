import Cctp.Model.Bytes
/-
  bech32 as used by the SDK: `bech32.ConvertAndEncode` and `sdk.AccAddressFromBech32`
  (cosmos/btcutil bech32 + ConvertBits + the SDK's prefix and length checks).
  Executable instance only; differential-tested against the Go libraries on every run.
-/
namespace Cctp.Native

def charset : Array UInt8 := "qpzry9x8gf2tvdw0s3jn54khce6mua7l".toUTF8.data
def gens : List Nat := [0x3b6a57b2, 0x26508e6d, 0x1ea119fa, 0x3d4233dd, 0x2a1462b3]

def polyStep (chk v : Nat) : Nat :=
  let b := chk >>> 25
  let chk := ((chk &&& 0x1ffffff) <<< 5) ^^^ v
  (gens.zipIdx).foldl (fun c (g, i) => if (b >>> i) &&& 1 = 1 then c ^^^ g else c) chk

def polymod (hrp : Bytes) (values : List Nat) : Nat :=
  let c := hrp.foldl (fun c h => polyStep c (h.toNat >>> 5)) 1
  let c := polyStep c 0
  let c := hrp.foldl (fun c h => polyStep c (h.toNat &&& 31)) c
  values.foldl polyStep c

/-- regroup bits (`ConvertBits`), most significant first. -/
def convertBits (data : List Nat) (fromBits toBits : Nat) (pad : Bool) : Option (List Nat) :=
  let (acc, bits, out) := data.foldl (fun (s : Nat × Nat × List Nat) v =>
      let (acc, bits, out) := s
      let acc := (acc <<< fromBits) ||| v
      let bits := bits + fromBits
      -- extract as many groups as possible
      let rec ex (fuel acc bits : Nat) (out : List Nat) : Nat × Nat × List Nat :=
        match fuel with
        | 0 => (acc, bits, out)
        | fuel+1 =>
          if bits ≥ toBits then
            let g := (acc >>> (bits - toBits)) &&& ((1 <<< toBits) - 1)
            ex fuel (acc &&& ((1 <<< (bits - toBits)) - 1)) (bits - toBits) (g :: out)
          else (acc, bits, out)
      ex 8 acc bits out) (0, 0, [])
  if pad then
    if bits > 0 then some ((( acc <<< (toBits - bits)) &&& ((1 <<< toBits) - 1)) :: out).reverse
    else some out.reverse
  else if bits > 0 ∧ (bits > 4 ∨ acc ≠ 0) then none
  else some out.reverse

def asciiLower (b : Bytes) : Bytes := b.map fun c => if 65 ≤ c ∧ c ≤ 90 then c + 32 else c

/-- `bech32.ConvertAndEncode(hrp, data)` -/
def bech32Encode (hrp data : Bytes) : Option Bytes := do
  let hrp := asciiLower hrp
  let conv ← convertBits (data.map (·.toNat)) 8 5 true
  let pm := polymod hrp (conv ++ [0, 0, 0, 0, 0, 0]) ^^^ 1
  let chk := (List.range 6).map fun i => (pm >>> (5 * (5 - i))) &&& 31
  let tail : Bytes := (conv ++ chk).map fun v => charset[v]!
  some (hrp ++ (49 :: tail))

def lastIndexOf (b : Bytes) (c : UInt8) : Option Nat :=
  (b.zipIdx).foldl (fun r (x, i) => if x = c then some i else r) none

/-- `bech32.DecodeAndConvert` → (hrp, data) -/
def bech32Decode (s : Bytes) : Option (Bytes × Bytes) := do
  if s.length > 1023 ∨ s.length < 8 then none
  if s.any (fun c => c < 33 ∨ c > 126) then none
  let hasLower := s.any fun c => 97 ≤ c ∧ c ≤ 122
  let hasUpper := s.any fun c => 65 ≤ c ∧ c ≤ 90
  if hasLower ∧ hasUpper then none
  let s := if hasUpper then asciiLower s else s
  let one ← lastIndexOf s 49
  if one < 1 ∨ one + 7 > s.length then none
  let hrp := s.take one
  let dataChars := s.drop (one + 1)
  let vals ← dataChars.mapM fun c => (charset.toList.idxOf? c)
  if polymod hrp vals ≠ 1 then none
  let conv ← convertBits (vals.take (vals.length - 6)) 5 8 false
  some (hrp, conv.map UInt8.ofNat)

/-- `sdk.AccAddressFromBech32` with account prefix `pfx`. -/
def accAddrFromBech32 (pfx s : Bytes) : Option Bytes := do
  let (hrp, bz) ← bech32Decode s
  if hrp ≠ pfx then none
  if bz.length = 0 ∨ bz.length > 255 then none
  some bz

end Cctp.Native
