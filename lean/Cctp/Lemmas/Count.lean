import Cctp.Lemmas.Typed
/-
  Counting entries of a collection under set / delete (used for the attester count, C13, and the
  registries, C19).
-/
namespace Cctp

/-- 1 if the option is present. -/
def ind {β} (o : Option β) : Nat := if o.isSome then 1 else 0

def cnt {β} (g : Bytes × Val → Option β) (s : Store) : Nat := (s.filterMap g).length

theorem cnt_cons {β} (g : Bytes × Val → Option β) (e : Bytes × Val) (s : Store) :
    cnt g (e :: s) = ind (g e) + cnt g s := by
  unfold cnt ind
  rw [List.filterMap_cons]
  cases h : g e <;> simp [Nat.add_comm]

theorem get_none_of_all_gt {s : Store} {k : Bytes} (h : ∀ e ∈ s, blt k e.1 = true) : s.get k = none :=
  Store.get_none_of_lt s k h

theorem cnt_set {β} (g : Bytes × Val → Option β) (s : Store) (k : Bytes) (v : Val) (hwf : s.WF) :
    cnt g (s.set k v) + (match s.get k with | some v0 => ind (g (k, v0)) | none => 0) = cnt g s + ind (g (k, v)) := by
  induction s with
  | nil =>
    have := cnt_cons g (k, v) []
    simp only [Store.set, Store.get]
    rw [this]; simp [cnt]
  | cons p rest ih =>
    obtain ⟨k', v'⟩ := p
    obtain ⟨h1, h2⟩ := hwf
    simp only [Store.set]
    split
    · rename_i e; subst e
      simp only [Store.get, if_true, cnt_cons]; omega
    · rename_i hne
      split
      · rename_i hlt
        -- inserted in front: the key was absent
        have hnone : Store.get ((k', v') :: rest) k = none := by
          apply Store.get_none_of_lt
          intro e he
          rcases List.mem_cons.mp he with rfl | he
          · exact hlt
          · exact blt_trans hlt (h1 e he)
        rw [hnone]; simp only [cnt_cons]; omega
      · simp only [Store.get, hne, if_false, cnt_cons]
        have := ih h2; omega

theorem cnt_del {β} (g : Bytes × Val → Option β) (s : Store) (k : Bytes) (hwf : s.WF) :
    cnt g (s.del k) + (match s.get k with | some v0 => ind (g (k, v0)) | none => 0) = cnt g s := by
  induction s with
  | nil => simp [Store.del, Store.get, cnt]
  | cons p rest ih =>
    obtain ⟨k', v'⟩ := p
    obtain ⟨h1, h2⟩ := hwf
    simp only [Store.del]
    split
    · rename_i e; subst e
      simp only [Store.get, if_true, cnt_cons]; omega
    · rename_i hne
      simp only [Store.get, hne, if_false, cnt_cons]
      have := ih h2; omega

/-- a write whose key does not satisfy the collection's filter does not change the collected list. -/
theorem filterMap_set_irrelevant {β} (g : Bytes × Val → Option β) (s : Store) (k : Bytes) (v : Val)
    (hk : ∀ x, g (k, x) = none) : (s.set k v).filterMap g = s.filterMap g := by
  induction s with
  | nil => simp [Store.set, hk]
  | cons p rest ih =>
    obtain ⟨k', v'⟩ := p
    simp only [Store.set]
    split
    · rename_i e; subst e; simp [List.filterMap_cons, hk]
    · split
      · simp [List.filterMap_cons, hk]
      · simp only [List.filterMap_cons, ih]

theorem filterMap_del_irrelevant {β} (g : Bytes × Val → Option β) (s : Store) (k : Bytes)
    (hk : ∀ x, g (k, x) = none) : (s.del k).filterMap g = s.filterMap g := by
  induction s with
  | nil => simp [Store.del]
  | cons p rest ih =>
    obtain ⟨k', v'⟩ := p
    simp only [Store.del]
    split
    · rename_i e; subst e; simp [List.filterMap_cons, hk]
    · simp only [List.filterMap_cons, ih]

theorem filterMap_apply_irrelevant {β} (g : Bytes × Val → Option β) (s : Store) (w : Store.Write)
    (hk : ∀ x, g (w.1, x) = none) : (s.apply w).filterMap g = s.filterMap g := by
  unfold Store.apply; split
  · exact filterMap_set_irrelevant g s _ _ hk
  · exact filterMap_del_irrelevant g s _ hk

theorem filterMap_applyAll_irrelevant {β} (g : Bytes × Val → Option β) (s : Store) (ws : List Store.Write)
    (hk : ∀ w ∈ ws, ∀ x, g (w.1, x) = none) : (s.applyAll ws).filterMap g = s.filterMap g := by
  induction ws generalizing s with
  | nil => rfl
  | cons w ws ih =>
    simp only [Store.applyAll, List.foldl_cons]
    have := ih (s.apply w) (fun w' hw' => hk w' (List.mem_cons_of_mem _ hw'))
    simp only [Store.applyAll] at this
    rw [this, filterMap_apply_irrelevant g s w (hk w List.mem_cons_self)]

/-- `GetAllAttesters` as a single filterMap over the store. -/
def attG (kv : Bytes × Val) : Option Bytes :=
  if isPrefixOf Gen.AttesterKeyPrefix kv.1 then (match kv.2 with | .attester a => some a | _ => none) else none

theorem attestersOf_eq (s : Store) : attestersOf s = s.filterMap attG := by
  unfold attestersOf Store.scan
  rw [List.filterMap_filter]
  congr 1

theorem attG_other (k : Bytes) (h : Key.cls k ≠ 10) (x : Val) : attG (k, x) = none := by
  unfold attG
  split
  · rename_i hp; exact absurd (Key.cls_of_prefix_attester k hp) h
  · rfl

theorem attG_attester (a : Bytes) (x : Bytes) : attG (Key.attester a, .attester x) = some x := by
  unfold attG
  have : isPrefixOf Gen.AttesterKeyPrefix (Key.attester a) = true := by
    simp only [Key.attester, List.append_assoc]; exact isPrefixOf_append _ _
  simp [this]

end Cctp
