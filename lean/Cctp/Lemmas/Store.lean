import Cctp.Model.Store
/-
  Store algebra: the sorted association list behaves as a finite map.
-/
namespace Cctp

theorem blt_irrefl (a : Bytes) : blt a a = false := by
  induction a with
  | nil => rfl
  | cons x xs ih => simp [blt, ih]

theorem blt_trans {a b c : Bytes} (h1 : blt a b = true) (h2 : blt b c = true) : blt a c = true := by
  induction a generalizing b c with
  | nil =>
    cases b with
    | nil => simp [blt] at h1
    | cons y ys => cases c with
      | nil => simp [blt] at h2
      | cons z zs => simp [blt]
  | cons x xs ih =>
    cases b with
    | nil => simp [blt] at h1
    | cons y ys =>
      cases c with
      | nil => simp [blt] at h2
      | cons z zs =>
        simp only [blt, Bool.or_eq_true, Bool.and_eq_true, decide_eq_true_eq, beq_iff_eq] at *
        rcases h1 with h1 | ⟨h1, h1'⟩
        · rcases h2 with h2 | ⟨h2, _⟩
          · exact Or.inl (UInt8.lt_trans h1 h2)
          · subst h2; exact Or.inl h1
        · subst h1
          rcases h2 with h2 | ⟨h2, h2'⟩
          · exact Or.inl h2
          · exact Or.inr ⟨h2, ih h1' h2'⟩

theorem blt_ne {a b : Bytes} (h : blt a b = true) : a ≠ b := by
  intro e; subst e; rw [blt_irrefl] at h; exact Bool.noConfusion h

theorem blt_trichotomy (a b : Bytes) : blt a b = true ∨ a = b ∨ blt b a = true := by
  induction a generalizing b with
  | nil => cases b <;> simp [blt]
  | cons x xs ih =>
    cases b with
    | nil => simp [blt]
    | cons y ys =>
      simp only [blt, Bool.or_eq_true, Bool.and_eq_true, decide_eq_true_eq, beq_iff_eq, List.cons.injEq]
      rcases Nat.lt_trichotomy x.toNat y.toNat with h | h | h
      · exact Or.inl (Or.inl (UInt8.lt_iff_toNat_lt.mpr h))
      · have e : x = y := UInt8.toNat_inj.mp h
        subst e
        rcases ih ys with h | h | h
        · exact Or.inl (Or.inr ⟨rfl, h⟩)
        · exact Or.inr (Or.inl ⟨rfl, h⟩)
        · exact Or.inr (Or.inr (Or.inr ⟨rfl, h⟩))
      · exact Or.inr (Or.inr (Or.inl (UInt8.lt_iff_toNat_lt.mpr h)))

namespace Store

/-- keys strictly increasing. -/
def WF : Store → Prop
  | [] => True
  | (k, _) :: rest => (∀ e ∈ rest, blt k e.1 = true) ∧ WF rest

theorem get_set_same (s : Store) (k : Bytes) (v : Val) : (s.set k v).get k = some v := by
  induction s with
  | nil => simp [set, get]
  | cons p rest ih =>
    obtain ⟨k', v'⟩ := p
    simp only [set]
    split
    · simp [get]
    · split
      · simp [get]
      · rename_i h _; simp [get, h, ih]

theorem get_set_other (s : Store) (k k2 : Bytes) (v : Val) (hne : k2 ≠ k) : (s.set k v).get k2 = s.get k2 := by
  induction s with
  | nil => simp [set, get, hne]
  | cons p rest ih =>
    obtain ⟨k', v'⟩ := p
    simp only [set]
    split
    · rename_i h; subst h; simp [get, hne]
    · split
      · simp [get, hne]
      · simp only [get]; split
        · rfl
        · exact ih

theorem mem_set {s : Store} {k : Bytes} {v : Val} {e : Bytes × Val} (h : e ∈ s.set k v) : e = (k, v) ∨ e ∈ s := by
  induction s with
  | nil => simp [set] at h; exact Or.inl h
  | cons p rest ih =>
    obtain ⟨k', v'⟩ := p
    simp only [set] at h
    split at h
    · rcases List.mem_cons.mp h with h | h
      · exact Or.inl h
      · exact Or.inr (List.mem_cons_of_mem _ h)
    · split at h
      · rcases List.mem_cons.mp h with h | h
        · exact Or.inl h
        · exact Or.inr h
      · rcases List.mem_cons.mp h with h | h
        · exact Or.inr (h ▸ List.mem_cons_self)
        · rcases ih h with h | h
          · exact Or.inl h
          · exact Or.inr (List.mem_cons_of_mem _ h)

theorem wf_set (s : Store) (k : Bytes) (v : Val) (h : s.WF) : (s.set k v).WF := by
  induction s with
  | nil => simp [set, WF]
  | cons p rest ih =>
    obtain ⟨k', v'⟩ := p
    obtain ⟨h1, h2⟩ := h
    simp only [set]
    split
    · rename_i e; subst e; exact ⟨h1, h2⟩
    · split
      · rename_i hlt
        refine ⟨?_, h1, h2⟩
        intro e he
        rcases List.mem_cons.mp he with he | he
        · subst he; exact hlt
        · exact blt_trans hlt (h1 e he)
      · rename_i hne hnlt
        refine ⟨?_, ih h2⟩
        intro e he
        rcases mem_set he with he | he
        · subst he
          rcases blt_trichotomy k k' with t | t | t
          · exact absurd t hnlt
          · exact absurd t hne
          · exact t
        · exact h1 e he

theorem mem_del {s : Store} {k : Bytes} {e : Bytes × Val} (h : e ∈ s.del k) : e ∈ s := by
  induction s with
  | nil => simp [del] at h
  | cons p rest ih =>
    obtain ⟨k', v'⟩ := p
    simp only [del] at h
    split at h
    · exact List.mem_cons_of_mem _ h
    · rcases List.mem_cons.mp h with h | h
      · exact h ▸ List.mem_cons_self
      · exact List.mem_cons_of_mem _ (ih h)

theorem wf_del (s : Store) (k : Bytes) (h : s.WF) : (s.del k).WF := by
  induction s with
  | nil => simp [del, WF]
  | cons p rest ih =>
    obtain ⟨k', v'⟩ := p
    obtain ⟨h1, h2⟩ := h
    simp only [del]
    split
    · exact h2
    · exact ⟨fun e he => h1 e (mem_del he), ih h2⟩

theorem get_none_of_lt (s : Store) (k : Bytes) (h : ∀ e ∈ s, blt k e.1 = true) : s.get k = none := by
  induction s with
  | nil => rfl
  | cons p rest ih =>
    obtain ⟨k', v'⟩ := p
    have hk : k ≠ k' := blt_ne (h (k', v') List.mem_cons_self)
    simp [get, hk, ih (fun e he => h e (List.mem_cons_of_mem _ he))]

theorem get_del_same (s : Store) (k : Bytes) (h : s.WF) : (s.del k).get k = none := by
  induction s with
  | nil => rfl
  | cons p rest ih =>
    obtain ⟨k', v'⟩ := p
    obtain ⟨h1, h2⟩ := h
    simp only [del]
    split
    · rename_i e; subst e; exact get_none_of_lt rest k h1
    · rename_i hne; simp [get, hne, ih h2]

theorem get_del_other (s : Store) (k k2 : Bytes) (hne : k2 ≠ k) : (s.del k).get k2 = s.get k2 := by
  induction s with
  | nil => rfl
  | cons p rest ih =>
    obtain ⟨k', v'⟩ := p
    simp only [del]
    split
    · rename_i e; subst e; simp [get, hne]
    · simp only [get]; split
      · rfl
      · exact ih

theorem wf_apply (s : Store) (w : Write) (h : s.WF) : (s.apply w).WF := by
  unfold apply; split
  · exact wf_set _ _ _ h
  · exact wf_del _ _ h

theorem wf_applyAll (s : Store) (ws : List Write) (h : s.WF) : (s.applyAll ws).WF := by
  induction ws generalizing s with
  | nil => exact h
  | cons w ws ih => exact ih _ (wf_apply s w h)

/-- a key no write names keeps its value. -/
theorem get_apply_other (s : Store) (w : Write) (k : Bytes) (hne : k ≠ w.1) : (s.apply w).get k = s.get k := by
  unfold apply; split
  · exact get_set_other _ _ _ _ hne
  · exact get_del_other _ _ _ hne

theorem get_applyAll_other (s : Store) (ws : List Write) (k : Bytes) (h : ∀ w ∈ ws, k ≠ w.1) :
    (s.applyAll ws).get k = s.get k := by
  induction ws generalizing s with
  | nil => rfl
  | cons w ws ih =>
    simp only [applyAll, List.foldl_cons]
    have := ih (s.apply w) (fun w' hw' => h w' (List.mem_cons_of_mem _ hw'))
    simp only [applyAll] at this
    rw [this, get_apply_other s w k (h w List.mem_cons_self)]

theorem wf_nil : WF ([] : Store) := trivial

theorem get_of_mem {s : Store} (h : s.WF) {k : Bytes} {v : Val} (hm : (k, v) ∈ s) : s.get k = some v := by
  induction s with
  | nil => simp at hm
  | cons p rest ih =>
    obtain ⟨k', v'⟩ := p
    obtain ⟨h1, h2⟩ := h
    rcases List.mem_cons.mp hm with e | hm'
    · simp only [Prod.mk.injEq] at e; obtain ⟨rfl, rfl⟩ := e; simp [get]
    · have hne : k ≠ k' := (blt_ne (h1 _ hm')).symm
      simp [get, hne, ih h2 hm']

theorem mem_of_get {s : Store} {k : Bytes} {v : Val} (hg : s.get k = some v) : (k, v) ∈ s := by
  induction s with
  | nil => simp [get] at hg
  | cons p rest ih =>
    obtain ⟨k', v'⟩ := p
    simp only [get] at hg
    split at hg
    · rename_i e; subst e; simp only [Option.some.injEq] at hg; subst hg; exact List.mem_cons_self
    · exact List.mem_cons_of_mem _ (ih hg)

theorem mem_iff_get {s : Store} (h : s.WF) (k : Bytes) (v : Val) : (k, v) ∈ s ↔ s.get k = some v :=
  ⟨get_of_mem h, mem_of_get⟩

theorem mem_scan {s : Store} {p : Bytes} {e : Bytes × Val} : e ∈ s.scan p ↔ e ∈ s ∧ isPrefixOf p e.1 = true := by
  simp [scan]

theorem has_iff (s : Store) (k : Bytes) : s.has k = true ↔ ∃ v, s.get k = some v := by
  simp [has, Option.isSome_iff_exists]

/-- two sorted stores that answer every lookup alike are the same list. -/
theorem ext_of_get {s1 s2 : Store} (h1 : s1.WF) (h2 : s2.WF) (h : ∀ k, s1.get k = s2.get k) : s1 = s2 := by
  induction s1 generalizing s2 with
  | nil =>
    cases s2 with
    | nil => rfl
    | cons p r => obtain ⟨k, v⟩ := p; have := h k; simp [get] at this
  | cons p1 r1 ih =>
    obtain ⟨k1, v1⟩ := p1
    cases s2 with
    | nil => have := h k1; simp [get] at this
    | cons p2 r2 =>
      obtain ⟨k2, v2⟩ := p2
      obtain ⟨a1, b1⟩ := h1
      obtain ⟨a2, b2⟩ := h2
      have hk : k1 = k2 := by
        rcases blt_trichotomy k1 k2 with t | t | t
        · exfalso
          have hn : get ((k2, v2) :: r2) k1 = none := by
            apply get_none_of_lt
            intro e he
            rcases List.mem_cons.mp he with rfl | he
            · exact t
            · exact blt_trans t (a2 e he)
          have := h k1; rw [hn] at this; simp [get] at this
        · exact t
        · exfalso
          have hn : get ((k1, v1) :: r1) k2 = none := by
            apply get_none_of_lt
            intro e he
            rcases List.mem_cons.mp he with rfl | he
            · exact t
            · exact blt_trans t (a1 e he)
          have := h k2; rw [hn] at this; simp [get] at this
      subst hk
      have hv : v1 = v2 := by have := h k1; simpa [get] using this
      subst hv
      congr 1
      apply ih b1 b2
      intro k
      by_cases e : k = k1
      · subst e; rw [get_none_of_lt r1 k a1, get_none_of_lt r2 k a2]
      · have := h k; simpa [get, e] using this

end Store
end Cctp
