import Cctp.Lemmas.Frame
/-
  The typing invariant of the store: every stored value sits at a key of its own kind, and the entries
  of the keyed collections sit at the key derived from their own fields.  Preserved by every handler.
-/
namespace Cctp
open Gen

def ValOK (ext : Ext) (k : Bytes) : Val → Prop
  | .role _ => k = Key.owner ∨ k = Key.pendingOwner ∨ k = Key.attesterManager ∨ k = Key.pauser ∨ k = Key.tokenController
  | .attester a => k = Key.attester a
  | .limit d _ => k = Key.limit d
  | .flag _ => k = Key.burnPaused ∨ k = Key.sendPaused
  | .size _ => k = Key.maxBody
  | .nonce d n => k = Key.nextNonce ∨ k = Key.usedNonce d n
  | .threshold _ => k = Key.threshold
  | .pair d t _ => k = Key.tokenPair ext d t
  | .messenger d _ => k = Key.messenger d

def Typed (ext : Ext) (st : Store) : Prop := ∀ k v, st.get k = some v → ValOK ext k v

/-- sorted, typed: the shape of every state the module can be in. -/
structure Good (ext : Ext) (st : Store) : Prop where
  wf : st.WF
  typed : Typed ext st

theorem Typed.pairs {ext : Ext} {st : Store} (h : Typed ext st) : PairsConsistent ext st :=
  fun k d' t' l hg => h k _ hg

theorem get_apply (s : Store) (w : Store.Write) (k : Bytes) (hwf : s.WF) :
    (s.apply w).get k = if k = w.1 then w.2 else s.get k := by
  by_cases hk : k = w.1
  · subst hk
    simp only [if_true]
    unfold Store.apply
    split
    · rename_i v hv; rw [hv]; exact Store.get_set_same _ _ _
    · rename_i hv; rw [hv]; exact Store.get_del_same _ _ hwf
  · simp only [hk, if_false]; exact Store.get_apply_other s w k hk

theorem good_apply {ext : Ext} {s : Store} (w : Store.Write) (h : Good ext s)
    (hw : ∀ v, w.2 = some v → ValOK ext w.1 v) : Good ext (s.apply w) := by
  refine ⟨Store.wf_apply s w h.wf, ?_⟩
  intro k v hg
  rw [get_apply s w k h.wf] at hg
  split at hg
  · rename_i e; subst e; exact hw v hg
  · exact h.typed k v hg

theorem good_applyAll {ext : Ext} {s : Store} (ws : List Store.Write) (h : Good ext s)
    (hw : ∀ w ∈ ws, ∀ v, w.2 = some v → ValOK ext w.1 v) : Good ext (s.applyAll ws) := by
  induction ws generalizing s with
  | nil => exact h
  | cons w ws ih =>
    simp only [Store.applyAll, List.foldl_cons]
    exact ih (good_apply w h (hw w List.mem_cons_self)) (fun w' hw' => hw w' (List.mem_cons_of_mem _ hw'))

/-- every write of every successful handler call is well-typed for its key. -/
theorem handle_writes_typed (ext : Ext) (cfg : Cfg) (st : Store) (led : Ledger) (m : Msg) (o : Out)
    (h : handle ext cfg st led m = .ok o) : ∀ w ∈ o.writes, ∀ v, w.2 = some v → ValOK ext w.1 v := by
  cases m with
  | acceptOwner f =>
    obtain ⟨owner, _, _, rfl⟩ := (acceptOwner_ok ..).mp h
    intro w hw v hv; simp [C15.adminOut_writes] at hw
    rcases hw with rfl | rfl
    · simp at hv; subst hv; simp [ValOK]
    · simp at hv
  | addRemoteTokenMessenger f d a =>
    obtain ⟨_, _, _, rfl⟩ := (addRemoteTokenMessenger_ok ..).mp h
    intro w hw v hv; simp [C15.adminOut_writes] at hw; subst hw; simp at hv; subst hv; simp [ValOK]
  | depositForBurn f a d r t =>
    intro w hw v hv; rw [C15.depositForBurn_writes h] at hw; simp at hw; subst hw; simp at hv; subst hv; simp [ValOK]
  | depositForBurnWithCaller f a d r t c =>
    obtain ⟨_, _, h'⟩ := (depositForBurnWithCaller_ok ..).mp h
    intro w hw v hv; rw [C15.depositForBurn_writes h'] at hw; simp at hw; subst hw; simp at hv; subst hv; simp [ValOK]
  | disableAttester f a =>
    obtain ⟨_, _, _, _, t, _, _, rfl⟩ := (disableAttester_ok ..).mp h
    intro w hw v hv; simp [C15.adminOut_writes] at hw; subst hw; simp at hv
  | enableAttester f a =>
    obtain ⟨_, _, _, rfl⟩ := (enableAttester_ok ..).mp h
    intro w hw v hv; simp [C15.adminOut_writes] at hw; subst hw; simp at hv; subst hv; simp [ValOK]
  | linkTokenPair f d t l =>
    obtain ⟨_, _, _, rfl⟩ := (linkTokenPair_ok ..).mp h
    intro w hw v hv; simp [C15.adminOut_writes] at hw; subst hw; simp at hv; subst hv; simp [ValOK]
  | pauseBurning f =>
    obtain ⟨_, rfl⟩ := (setFlag_ok ..).mp h
    intro w hw v hv; simp [C15.adminOut_writes] at hw; subst hw; simp at hv; subst hv; simp [ValOK]
  | pauseSending f =>
    obtain ⟨_, rfl⟩ := (setFlag_ok ..).mp h
    intro w hw v hv; simp [C15.adminOut_writes] at hw; subst hw; simp at hv; subst hv; simp [ValOK]
  | receiveMessage f msg att =>
    obtain ⟨m, hp, hw'⟩ := C15.receiveMessage_writes h
    intro w hw v hv; rw [hw'] at hw; simp at hw; subst hw; simp at hv; subst hv; simp [ValOK]
  | removeRemoteTokenMessenger f d =>
    obtain ⟨_, mm, _, rfl⟩ := (removeRemoteTokenMessenger_ok ..).mp h
    intro w hw v hv; simp [C15.adminOut_writes] at hw; subst hw; simp at hv
  | replaceDepositForBurn f o' a c r =>
    intro w hw; rw [C15.replaceDepositForBurn_writes h] at hw; simp at hw
  | replaceMessage f o' a b c =>
    intro w hw; rw [C15.replaceMessage_writes h] at hw; simp at hw
  | sendMessage f d r b =>
    intro w hw v hv; rw [C15.sendMessage_writes h] at hw; simp at hw; subst hw; simp at hv; subst hv; simp [ValOK]
  | sendMessageWithCaller f d r b c =>
    intro w hw v hv; rw [C15.sendMessageWithCaller_writes h] at hw; simp at hw; subst hw; simp at hv; subst hv; simp [ValOK]
  | unlinkTokenPair f d t l =>
    obtain ⟨_, _, p, _, rfl⟩ := (unlinkTokenPair_ok ..).mp h
    intro w hw v hv; simp [C15.adminOut_writes] at hw; subst hw; simp at hv
  | unpauseBurning f =>
    obtain ⟨_, rfl⟩ := (setFlag_ok ..).mp h
    intro w hw v hv; simp [C15.adminOut_writes] at hw; subst hw; simp at hv; subst hv; simp [ValOK]
  | unpauseSending f =>
    obtain ⟨_, rfl⟩ := (setFlag_ok ..).mp h
    intro w hw v hv; simp [C15.adminOut_writes] at hw; subst hw; simp at hv; subst hv; simp [ValOK]
  | updateOwner f n =>
    obtain ⟨_, _, rfl⟩ := (updateOwner_ok ..).mp h
    intro w hw v hv; simp [C15.adminOut_writes] at hw; subst hw; simp at hv; subst hv; simp [ValOK]
  | updateAttesterManager f n =>
    obtain ⟨_, _, cur, _, rfl⟩ := (updateRole_ok ..).mp h
    intro w hw v hv; simp [C15.adminOut_writes] at hw; subst hw; simp at hv; subst hv; simp [ValOK]
  | updateTokenController f n =>
    obtain ⟨_, _, cur, _, rfl⟩ := (updateRole_ok ..).mp h
    intro w hw v hv; simp [C15.adminOut_writes] at hw; subst hw; simp at hv; subst hv; simp [ValOK]
  | updatePauser f n =>
    obtain ⟨_, _, cur, _, rfl⟩ := (updateRole_ok ..).mp h
    intro w hw v hv; simp [C15.adminOut_writes] at hw; subst hw; simp at hv; subst hv; simp [ValOK]
  | updateMaxMessageBodySize f s =>
    obtain ⟨_, rfl⟩ := (updateMaxMessageBodySize_ok ..).mp h
    intro w hw v hv; simp [C15.adminOut_writes] at hw; subst hw; simp at hv; subst hv; simp [ValOK]
  | setMaxBurnAmountPerMessage f l a =>
    obtain ⟨_, rfl⟩ := (setMaxBurnAmountPerMessage_ok ..).mp h
    intro w hw v hv; simp [C15.adminOut_writes] at hw; subst hw; simp at hv; subst hv; simp [ValOK]
  | updateSignatureThreshold f a =>
    obtain ⟨_, _, _, _, rfl⟩ := (updateSignatureThreshold_ok ..).mp h
    intro w hw v hv; simp [C15.adminOut_writes] at hw; subst hw; simp at hv; subst hv; simp [ValOK]

/-- the only entries a handler ever deletes are the pending owner, an attester, a token pair or a remote token
    messenger: no role and no scalar parameter is ever removed. -/
theorem handle_deletes_cls (ext : Ext) (cfg : Cfg) (st : Store) (led : Ledger) (m : Msg) (o : Out)
    (h : handle ext cfg st led m = .ok o) :
    ∀ w ∈ o.writes, w.2 = none → Key.cls w.1 = 1 ∨ Key.cls w.1 = 10 ∨ Key.cls w.1 = 13 ∨ Key.cls w.1 = 14 := by
  cases m with
  | acceptOwner f =>
    obtain ⟨owner, _, _, rfl⟩ := (acceptOwner_ok ..).mp h
    intro w hw hn; simp [C15.adminOut_writes] at hw
    rcases hw with rfl | rfl
    · simp at hn
    · simp
  | addRemoteTokenMessenger f d a =>
    obtain ⟨_, _, _, rfl⟩ := (addRemoteTokenMessenger_ok ..).mp h
    intro w hw hn; simp [C15.adminOut_writes] at hw; subst hw; simp at hn
  | depositForBurn f a d r t =>
    intro w hw hn; rw [C15.depositForBurn_writes h] at hw; simp at hw; subst hw; simp at hn
  | depositForBurnWithCaller f a d r t c =>
    obtain ⟨_, _, h'⟩ := (depositForBurnWithCaller_ok ..).mp h
    intro w hw hn; rw [C15.depositForBurn_writes h'] at hw; simp at hw; subst hw; simp at hn
  | disableAttester f a =>
    obtain ⟨_, _, _, _, t, _, _, rfl⟩ := (disableAttester_ok ..).mp h
    intro w hw hn; simp [C15.adminOut_writes] at hw; subst hw; simp
  | enableAttester f a =>
    obtain ⟨_, _, _, rfl⟩ := (enableAttester_ok ..).mp h
    intro w hw hn; simp [C15.adminOut_writes] at hw; subst hw; simp at hn
  | linkTokenPair f d t l =>
    obtain ⟨_, _, _, rfl⟩ := (linkTokenPair_ok ..).mp h
    intro w hw hn; simp [C15.adminOut_writes] at hw; subst hw; simp at hn
  | pauseBurning f =>
    obtain ⟨_, rfl⟩ := (setFlag_ok ..).mp h
    intro w hw hn; simp [C15.adminOut_writes] at hw; subst hw; simp at hn
  | pauseSending f =>
    obtain ⟨_, rfl⟩ := (setFlag_ok ..).mp h
    intro w hw hn; simp [C15.adminOut_writes] at hw; subst hw; simp at hn
  | receiveMessage f msg att =>
    obtain ⟨m, hp, hw'⟩ := C15.receiveMessage_writes h
    intro w hw hn; rw [hw'] at hw; simp at hw; subst hw; simp at hn
  | removeRemoteTokenMessenger f d =>
    obtain ⟨_, mm, _, rfl⟩ := (removeRemoteTokenMessenger_ok ..).mp h
    intro w hw hn; simp [C15.adminOut_writes] at hw; subst hw; simp
  | replaceDepositForBurn f o' a c r =>
    intro w hw; rw [C15.replaceDepositForBurn_writes h] at hw; simp at hw
  | replaceMessage f o' a b c =>
    intro w hw; rw [C15.replaceMessage_writes h] at hw; simp at hw
  | sendMessage f d r b =>
    intro w hw hn; rw [C15.sendMessage_writes h] at hw; simp at hw; subst hw; simp at hn
  | sendMessageWithCaller f d r b c =>
    intro w hw hn; rw [C15.sendMessageWithCaller_writes h] at hw; simp at hw; subst hw; simp at hn
  | unlinkTokenPair f d t l =>
    obtain ⟨_, _, p, _, rfl⟩ := (unlinkTokenPair_ok ..).mp h
    intro w hw hn; simp [C15.adminOut_writes] at hw; subst hw; simp
  | unpauseBurning f =>
    obtain ⟨_, rfl⟩ := (setFlag_ok ..).mp h
    intro w hw hn; simp [C15.adminOut_writes] at hw; subst hw; simp at hn
  | unpauseSending f =>
    obtain ⟨_, rfl⟩ := (setFlag_ok ..).mp h
    intro w hw hn; simp [C15.adminOut_writes] at hw; subst hw; simp at hn
  | updateOwner f n =>
    obtain ⟨_, _, rfl⟩ := (updateOwner_ok ..).mp h
    intro w hw hn; simp [C15.adminOut_writes] at hw; subst hw; simp at hn
  | updateAttesterManager f n =>
    obtain ⟨_, _, cur, _, rfl⟩ := (updateRole_ok ..).mp h
    intro w hw hn; simp [C15.adminOut_writes] at hw; subst hw; simp at hn
  | updateTokenController f n =>
    obtain ⟨_, _, cur, _, rfl⟩ := (updateRole_ok ..).mp h
    intro w hw hn; simp [C15.adminOut_writes] at hw; subst hw; simp at hn
  | updatePauser f n =>
    obtain ⟨_, _, cur, _, rfl⟩ := (updateRole_ok ..).mp h
    intro w hw hn; simp [C15.adminOut_writes] at hw; subst hw; simp at hn
  | updateMaxMessageBodySize f s =>
    obtain ⟨_, rfl⟩ := (updateMaxMessageBodySize_ok ..).mp h
    intro w hw hn; simp [C15.adminOut_writes] at hw; subst hw; simp at hn
  | setMaxBurnAmountPerMessage f l a =>
    obtain ⟨_, rfl⟩ := (setMaxBurnAmountPerMessage_ok ..).mp h
    intro w hw hn; simp [C15.adminOut_writes] at hw; subst hw; simp at hn
  | updateSignatureThreshold f a =>
    obtain ⟨_, _, _, _, rfl⟩ := (updateSignatureThreshold_ok ..).mp h
    intro w hw hn; simp [C15.adminOut_writes] at hw; subst hw; simp at hn

theorem good_deliver (ext : Ext) (cfg : Cfg) (w : World) (f : List Bool) (m : Msg) (h : Good ext w.store) :
    Good ext (deliver ext cfg w f m).1.store := by
  unfold deliver
  split
  · rename_i o ho
    exact good_applyAll o.writes h (handle_writes_typed ext cfg w.store _ m o ho)
  · exact h

theorem good_run (ext : Ext) (cfg : Cfg) (h : History) (w : World) (hg : Good ext w.store) :
    Good ext (runState ext cfg w h).store :=
  run_inv ext cfg (fun w => Good ext w.store) (fun w f m hw => good_deliver ext cfg w f m hw) h w hg

theorem good_nil (ext : Ext) : Good ext [] := ⟨trivial, fun k v h => by simp [Store.get] at h⟩

end Cctp
