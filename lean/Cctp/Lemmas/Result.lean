import Cctp.Model.Result
/-
  The guard-chain simp set: a `do` block in `R` returns `.ok b` iff every step does.
-/
namespace Cctp

@[simp] theorem req_ok (c : Prop) [Decidable c] (u : Unit) : req c = .ok u ↔ c := by
  unfold req; split <;> simp_all [pure, Except.pure, throw, throwThe, MonadExceptOf.throw]

@[simp] theorem must_ok (c : Prop) [Decidable c] (u : Unit) : must c = .ok u ↔ c := by
  unfold must; split <;> simp_all [pure, Except.pure, throw, throwThe, MonadExceptOf.throw]

@[simp] theorem getOr_ok {α} (o : Option α) (a : α) : getOr o = .ok a ↔ o = some a := by
  unfold getOr; split <;> simp_all [pure, Except.pure, throw, throwThe, MonadExceptOf.throw]

@[simp] theorem getMust_ok {α} (o : Option α) (a : α) : getMust o = .ok a ↔ o = some a := by
  unfold getMust; split <;> simp_all [pure, Except.pure, throw, throwThe, MonadExceptOf.throw]

@[simp] theorem bind_ok {α β} (x : R α) (f : α → R β) (b : β) :
    (x >>= f) = .ok b ↔ ∃ a, x = .ok a ∧ f a = .ok b := by
  cases x <;> simp [bind, Except.bind]

@[simp] theorem pure_ok {α} (a b : α) : (pure a : R α) = .ok b ↔ a = b := by
  simp [pure, Except.pure]

@[simp] theorem throw_ok {α} (e : Fail) (b : α) : (throw e : R α) = .ok b ↔ False := by
  simp [throw, throwThe, MonadExceptOf.throw]

@[simp] theorem map_ok {α β} (f : α → β) (x : R α) (b : β) :
    (f <$> x) = .ok b ↔ ∃ a, x = .ok a ∧ f a = b := by
  cases x <;> simp [Functor.map, Except.map]

/-! panics: a chain panics iff some step does while the earlier ones succeeded. -/

@[simp] theorem req_ne_panic (c : Prop) [Decidable c] : req c ≠ .error .panic := by
  unfold req; split <;> simp [pure, Except.pure, throw, throwThe, MonadExceptOf.throw]

@[simp] theorem getOr_ne_panic {α} (o : Option α) : getOr o ≠ .error .panic := by
  unfold getOr; split <;> simp [pure, Except.pure, throw, throwThe, MonadExceptOf.throw]

@[simp] theorem pure_ne_panic {α} (a : α) : (pure a : R α) ≠ .error .panic := by
  simp [pure, Except.pure]

theorem must_panic (c : Prop) [Decidable c] : must c = .error .panic ↔ ¬ c := by
  unfold must; split <;> simp_all [pure, Except.pure, throw, throwThe, MonadExceptOf.throw]

theorem getMust_panic {α} (o : Option α) : getMust o = .error .panic ↔ o = none := by
  unfold getMust; split <;> simp_all [pure, Except.pure, throw, throwThe, MonadExceptOf.throw]

theorem bind_panic {α β} (x : R α) (f : α → R β) :
    (x >>= f) = .error .panic ↔ x = .error .panic ∨ ∃ a, x = .ok a ∧ f a = .error .panic := by
  cases x <;> simp [bind, Except.bind]

/-- no-panic is compositional. -/
theorem bind_ne_panic {α β} (x : R α) (f : α → R β) (hx : x ≠ .error .panic)
    (hf : ∀ a, x = .ok a → f a ≠ .error .panic) : (x >>= f) ≠ .error .panic := by
  intro h; rw [bind_panic] at h
  rcases h with h | ⟨a, ha, hfa⟩
  · exact hx h
  · exact hf a ha hfa

@[simp] theorem reqAll_ok {α} (o : Option α) (p : α → Prop) [DecidablePred p] (u : Unit) :
    reqAll o p = .ok u ↔ ∀ a, o = some a → p a := by
  unfold reqAll; cases o <;> simp

@[simp] theorem reqAll_ne_panic {α} (o : Option α) (p : α → Prop) [DecidablePred p] :
    reqAll o p ≠ .error .panic := by
  unfold reqAll; cases o <;> simp

theorem R.cases_ok {α} (x : R α) : (∃ a, x = .ok a) ∨ x = .error .err ∨ x = .error .panic := by
  cases x with
  | ok a => exact Or.inl ⟨a, rfl⟩
  | error e => cases e <;> simp

end Cctp
