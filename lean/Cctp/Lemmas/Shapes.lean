import Cctp.Lemmas.Wire
import Cctp.Lemmas.Ledger
/-
  The complete observable shape of a successful send / deposit / replacement, with the emitted bytes
  read back by the reference decoders.  C05, C06, C08, C09 and C14 are projections of these.
-/
namespace Cctp
open Gen Spec

/-- destination caller as it appears on the wire: all-zero when none was requested. -/
def wireCaller (caller : Bytes) : Bytes := if caller.length = 0 then zeros 32 else caller

theorem send_shape {ext : Ext} {st : Store} {led : Ledger} {f : Bytes} {dest : Nat} {rcp body : Bytes} {o : Out}
    (h : sendMessage ext st led f dest rcp body = .ok o) :
    ∃ addr bz, ext.accAddr f = some addr ∧ sendPaused st = false ∧
      (∀ mx, getSize st = some mx → ¬ body.length > mx) ∧ rcp.length = 32 ∧ isZeros rcp = false ∧
      o.events = [Event.messageSent bz] ∧ o.deps = [] ∧ o.ledger = led ∧ o.resp = .nonce (curNonce st) ∧
      o.writes = [(Key.nextNonce, some (.nonce 0 (u64 (curNonce st + 1))))] ∧
      decodeMessage bz = some ⟨0, 4, dest % 2 ^ 32, curNonce st % 2 ^ 64, pad12 addr, rcp, zeros 32, body⟩ := by
  obtain ⟨addr, ev, ha, hs, rfl⟩ := (sendMessage_ok ..).mp h
  obtain ⟨hp, hsz, hz, _⟩ := (sendCore_ok ..).mp hs
  obtain ⟨bz, rfl, hd, _, hr, _⟩ := sendCore_wire hs
  refine ⟨addr, bz, ha, hp, hsz, hr, ?_, rfl, rfl, rfl, rfl, by simp [reserveNonce_write], ?_⟩
  · cases hzz : isZeros rcp with
    | false => rfl
    | true => exact absurd (Or.inr hzz) hz
  · simpa [DestinationCallerLen] using hd

theorem sendWithCaller_shape {ext : Ext} {st : Store} {led : Ledger} {f : Bytes} {dest : Nat} {rcp body caller : Bytes} {o : Out}
    (h : sendMessageWithCaller ext st led f dest rcp body caller = .ok o) :
    ∃ addr bz, ext.accAddr f = some addr ∧ sendPaused st = false ∧ caller.length = 32 ∧ caller ≠ zeros 32 ∧
      (∀ mx, getSize st = some mx → ¬ body.length > mx) ∧ rcp.length = 32 ∧ isZeros rcp = false ∧
      o.events = [Event.messageSent bz] ∧ o.deps = [] ∧ o.ledger = led ∧ o.resp = .nonce (curNonce st) ∧
      o.writes = [(Key.nextNonce, some (.nonce 0 (u64 (curNonce st + 1))))] ∧
      decodeMessage bz = some ⟨0, 4, dest % 2 ^ 32, curNonce st % 2 ^ 64, pad12 addr, rcp, caller, body⟩ := by
  obtain ⟨addr, ev, ha, hc1, hc2, hs, rfl⟩ := (sendMessageWithCaller_ok ..).mp h
  obtain ⟨hp, hsz, hz, _⟩ := (sendCore_ok ..).mp hs
  obtain ⟨bz, rfl, hd, _, hr, _⟩ := sendCore_wire hs
  refine ⟨addr, bz, ha, hp, by simpa [DestinationCallerLen] using hc1, by simpa [DestinationCallerLen] using hc2, hsz, hr, ?_,
    rfl, rfl, rfl, rfl, by simp [reserveNonce_write], hd⟩
  cases hzz : isZeros rcp with
  | false => rfl
  | true => exact absurd (Or.inr hzz) hz

/-- everything observable about a successful deposit. -/
structure DepositShape (ext : Ext) (cfg : Cfg) (st : Store) (led : Ledger) (f : Bytes) (amount : Option Int) (dest : Nat)
    (rcp tok caller : Bytes) (o : Out) : Prop where
  ex : ∃ addr maddr a msgr bz body,
    ext.accAddr f = some addr ∧ ext.accAddr cfg.moduleStr = some maddr ∧ amount = some a ∧ 0 < a ∧ a < 2 ^ 256 ∧
    rcp.length = 32 ∧ rcp ≠ zeros 32 ∧ getMessenger st dest = some msgr ∧ msgr.2.length = 32 ∧ isZeros msgr.2 = false ∧
    ext.equalFold led.mintingDenom tok = true ∧ ext.validDenom tok = true ∧ burnPaused st = false ∧ sendPaused st = false ∧
    (∀ l, getLimit st (ext.toLower tok) = some l → a ≤ l) ∧ (∀ mx, getSize st = some mx → 132 ≤ mx) ∧
    (caller.length = 0 ∨ (caller.length = 32 ∧ caller ≠ zeros 32)) ∧
    (led.transfer addr cfg.moduleAddr tok a).1 = true ∧
    ((led.transfer addr cfg.moduleAddr tok a).2.burn true cfg.moduleAddr tok a).1 = true ∧
    o.ledger = ((led.transfer addr cfg.moduleAddr tok a).2.burn true cfg.moduleAddr tok a).2 ∧
    o.deps = [Dep.transfer addr ModuleName tok a true, Dep.burn cfg.moduleStr tok a true] ∧
    o.events = [Event.messageSent bz,
      Event.depositForBurn (curNonce st) (toHex (ext.keccak256 (ext.toLower tok))) a f rcp dest msgr.2 caller] ∧
    o.resp = .nonce (curNonce st) ∧
    o.writes = [(Key.nextNonce, some (.nonce 0 (u64 (curNonce st + 1))))] ∧
    decodeMessage bz = some ⟨0, 4, dest % 2 ^ 32, curNonce st % 2 ^ 64, pad12 maddr, msgr.2, wireCaller caller, body⟩ ∧
    decodeBurn body = some ⟨0, ext.keccak256 (ext.toLower tok), rcp, a.toNat, pad12 addr⟩

theorem deposit_shape {ext : Ext} {cfg : Cfg} {st : Store} {led : Ledger} {f : Bytes} {amount : Option Int} {dest : Nat}
    {rcp tok caller : Bytes} {o : Out} (h : depositForBurn ext cfg st led f amount dest rcp tok caller = .ok o) :
    DepositShape ext cfg st led f amount dest rcp tok caller o := by
  obtain ⟨addr, a, msgr, body, inner, h1, h2, h3, h4, h5, h6, h7, h8, h9, h10, h11, h12, hin, rfl⟩ := (depositForBurn_ok ..).mp h
  obtain ⟨a', ha', hdb, hblen⟩ := burn_wire _ body h12
  simp only [Option.some.injEq] at ha'; subst ha'
  obtain ⟨_, hrl, _, a'', ha'', hlt, _⟩ := burn_bytes_ok _ body h12
  simp only [Option.some.injEq] at ha''; subst ha''
  have hnat : a.natAbs = a.toNat := by omega
  have halt : a < 2 ^ 256 := by omega
  have hlim : ∀ l, getLimit st (ext.toLower tok) = some l → a ≤ l := fun l hl => by have := h8 l hl; omega
  simp only [MessageBodyVersion, Nat.zero_mod, hnat] at hdb
  constructor
  unfold innerSend at hin
  by_cases hc : caller.length = 0
  · rw [if_pos hc] at hin
    obtain ⟨maddr, bz, hma, hsp, hsz, hmr, hmz, hev, _, hled, hresp, hw, hdec⟩ := send_shape hin
    refine ⟨addr, maddr, a, msgr, bz, body, h1, hma, h2, h3, halt, hrl, by simpa [MintRecipientLen] using h4, h5, hmr, hmz, h6, h9, h7, hsp,
      hlim, ?_, Or.inl hc, h10, h11, hled, rfl, ?_, by simp [hresp], hw, ?_, hdb⟩
    · intro mx hmx; have := hsz mx hmx; omega
    · simp [hev, hresp]
    · simpa [wireCaller, hc] using hdec
  · rw [if_neg hc] at hin
    obtain ⟨maddr, bz, hma, hsp, hcl, hcz, hsz, hmr, hmz, hev, _, hled, hresp, hw, hdec⟩ := sendWithCaller_shape hin
    refine ⟨addr, maddr, a, msgr, bz, body, h1, hma, h2, h3, halt, hrl, by simpa [MintRecipientLen] using h4, h5, hmr, hmz, h6, h9, h7, hsp,
      hlim, ?_, Or.inr ⟨hcl, hcz⟩, h10, h11, hled, rfl, ?_, by simp [hresp], hw, ?_, hdb⟩
    · intro mx hmx; have := hsz mx hmx; omega
    · simp [hev, hresp]
    · simpa [wireCaller, hc] using hdec

/-- everything observable about a successful replacement of a message. -/
theorem replace_shape {ext : Ext} {st : Store} {led : Ledger} {f orig att newBody newCaller : Bytes} {o : Out}
    (h : replaceMessage ext st led f orig att newBody newCaller = .ok o) :
    ∃ t om addr bz, sendPaused st = false ∧ getThreshold st = some t ∧
      verify ext orig att (attestersOf st) t = .ok () ∧ decodeMessage orig = some om ∧
      ext.accAddr f = some addr ∧ om.sender = pad12 addr ∧ om.sourceDomain = 4 ∧
      o.events = [Event.messageSent bz] ∧ o.writes = [] ∧ o.deps = [] ∧ o.ledger = led ∧ o.resp = .empty ∧
      decodeMessage bz = some ⟨0, 4, om.destDomain, om.nonce, om.sender, om.recipient, newCaller, newBody⟩ := by
  obtain ⟨hp, t, m, addr, ev, ht, hv, hpm, ha, hs, hsd, hc, rfl⟩ := (replaceMessage_ok ..).mp h
  obtain ⟨bz, rfl, hd, _⟩ := sendCore_wire hc
  rw [C16.parse_eq_spec] at hpm
  cases hdm : decodeMessage orig with
  | none => rw [hdm] at hpm; cases hpm
  | some om =>
    rw [hdm] at hpm; simp only [Except.ok.injEq] at hpm; subst hpm
    have hl : 116 ≤ orig.length := by
      by_cases hl : 116 ≤ orig.length
      · exact hl
      · simp [decodeMessage] at hdm; omega
    obtain ⟨m', hd', _, wf⟩ := C16.decode_encode orig hl
    rw [hdm] at hd'; cases hd'
    refine ⟨t, om, addr, bz, hp, ht, hv, rfl, ha, hs.symm, by simpa [NobleDomainId] using hsd, rfl, rfl, rfl, rfl, rfl, ?_⟩
    rw [hd, Nat.mod_eq_of_lt wf.dest, Nat.mod_eq_of_lt wf.nonce]

/-- everything observable about a successful replacement of a deposit. -/
theorem replaceDeposit_shape {ext : Ext} {cfg : Cfg} {st : Store} {led : Ledger} {f orig att newCaller newRcp : Bytes} {o : Out}
    (h : replaceDepositForBurn ext cfg st led f orig att newCaller newRcp = .ok o) :
    ∃ t om ob addr maddr bz nbody, burnPaused st = false ∧ sendPaused st = false ∧ getThreshold st = some t ∧
      verify ext orig att (attestersOf st) t = .ok () ∧ decodeMessage orig = some om ∧ decodeBurn om.body = some ob ∧
      ext.accAddr f = some addr ∧ ob.messageSender = pad12 addr ∧
      ext.accAddr cfg.moduleStr = some maddr ∧ om.sender = pad12 maddr ∧ om.sourceDomain = 4 ∧
      newRcp.length = 32 ∧ newRcp ≠ zeros 32 ∧
      o.events = [Event.messageSent bz, Event.depositForBurn om.nonce (toHex ob.burnToken) (Int.ofNat ob.amount) f newRcp
                    om.destDomain om.recipient newCaller] ∧
      o.writes = [] ∧ o.deps = [] ∧ o.ledger = led ∧
      decodeMessage bz = some ⟨0, 4, om.destDomain, om.nonce, om.sender, om.recipient, newCaller, nbody⟩ ∧
      decodeBurn nbody = some ⟨ob.version, ob.burnToken, newRcp, ob.amount, ob.messageSender⟩ := by
  obtain ⟨hbp, m, b, addr, nb, inner, hpm, hpb, ha, hs, hz, hnb, hin, rfl⟩ := (replaceDepositForBurn_ok ..).mp h
  obtain ⟨t, om, maddr, bz, hsp, ht, hv, hdm, hma, hsm, hsd, hev, hw, hdp, hled, _, hdec⟩ := replace_shape hin
  have hpm' := hpm
  rw [C16.parse_eq_spec, hdm] at hpm'
  simp only [Except.ok.injEq] at hpm'; subst hpm'
  rw [C16.burn_parse_eq_spec] at hpb
  cases hdb : decodeBurn om.body with
  | none => rw [hdb] at hpb; cases hpb
  | some ob =>
    rw [hdb] at hpb; simp only [Except.ok.injEq] at hpb; subst hpb
    have hl : om.body.length = 132 := by
      by_cases hl : om.body.length = 132
      · exact hl
      · simp [decodeBurn, hl] at hdb
    obtain ⟨ob', hob', _, wf⟩ := C16.burn_decode_encode om.body hl
    rw [hdb] at hob'; cases hob'
    obtain ⟨a', ha', hdnb, _⟩ := burn_wire _ nb hnb
    obtain ⟨_, hrl, _, _⟩ := burn_bytes_ok _ nb hnb
    simp only [toModel, Option.some.injEq] at ha' hdnb hrl hs hz ⊢
    subst ha'
    refine ⟨t, om, ob, addr, maddr, bz, nb, hbp, hsp, ht, hv, hdm, hdb, ha, hs.symm, hma, hsm, hsd, hrl,
      by simpa [MintRecipientLen] using hz, ?_, hw, hdp, hled, hdec, ?_⟩
    · simp [hev, toModel]
    · rw [hdnb, Nat.mod_eq_of_lt wf.version]; simp

end Cctp
