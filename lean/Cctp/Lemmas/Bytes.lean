import Cctp.Model.Bytes
/-
  Big-endian encoding: length, decode∘encode, encode∘decode, injectivity.
-/
namespace Cctp

@[simp] theorem be_length (w n : Nat) : (be w n).length = w := by
  induction w generalizing n with
  | zero => rfl
  | succ w ih => simp [be, ih]

theorem fromBE_snoc (bs : Bytes) (b : UInt8) : fromBE (bs ++ [b]) = fromBE bs * 256 + b.toNat := by
  simp [fromBE, List.foldl_append]

theorem fromBE_be (w n : Nat) : fromBE (be w n) = n % 256 ^ w := by
  induction w generalizing n with
  | zero => simp [be, fromBE, Nat.mod_one]
  | succ w ih =>
    rw [be, fromBE_snoc, ih]
    have h : (UInt8.ofNat (n % 256)).toNat = n % 256 := by simp
    rw [h, Nat.pow_succ]
    have := Nat.mod_mul (a := 256) (b := 256^w) (x := n)
    rw [Nat.mul_comm] at this; rw [this]; omega

theorem be_inj (w a b : Nat) (ha : a < 256^w) (hb : b < 256^w) (h : be w a = be w b) : a = b := by
  have := congrArg fromBE h
  rw [fromBE_be, fromBE_be, Nat.mod_eq_of_lt ha, Nat.mod_eq_of_lt hb] at this; exact this

theorem snoc_induction {α} {P : List α → Prop} (hnil : P [])
    (hsnoc : ∀ bs b, P bs → P (bs ++ [b])) : ∀ bs, P bs := by
  have h : ∀ l : List α, P l.reverse := by
    intro l
    induction l with
    | nil => simpa using hnil
    | cons a l ih => rw [List.reverse_cons]; exact hsnoc _ _ ih
  intro bs
  have := h bs.reverse
  rwa [List.reverse_reverse] at this

theorem fromBE_lt (bs : Bytes) : fromBE bs < 256 ^ bs.length := by
  induction bs using snoc_induction with
  | hnil => simp [fromBE]
  | hsnoc bs b ih =>
    rw [fromBE_snoc, List.length_append, List.length_singleton, Nat.pow_succ]
    have : b.toNat < 256 := UInt8.toNat_lt b
    omega

theorem be_fromBE (bs : Bytes) : be bs.length (fromBE bs) = bs := by
  induction bs using snoc_induction with
  | hnil => rfl
  | hsnoc bs b ih =>
    rw [List.length_append, List.length_singleton, be, fromBE_snoc]
    have hb : b.toNat < 256 := UInt8.toNat_lt b
    have h1 : (fromBE bs * 256 + b.toNat) / 256 = fromBE bs := by omega
    have h2 : (fromBE bs * 256 + b.toNat) % 256 = b.toNat := by omega
    rw [h1, h2, ih]; simp

theorem be_fromBE' (w : Nat) (bs : Bytes) (h : bs.length = w) : be w (fromBE bs) = bs := by
  subst h; exact be_fromBE bs

@[simp] theorem zeros_length (n : Nat) : (zeros n).length = n := by simp [zeros]

theorem pad12_length (a : Bytes) : (pad12 a).length = 32 := by
  simp [pad12, zeros]; omega

theorem isPrefixOf_append (p r : Bytes) : isPrefixOf p (p ++ r) = true := by
  induction p with
  | nil => cases r <;> rfl
  | cons a p ih => simp [isPrefixOf, ih]

end Cctp
