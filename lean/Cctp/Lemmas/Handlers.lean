import Cctp.Model.Handlers
import Cctp.Lemmas.Result
/-
  Success characterisations: each handler returns `.ok o` exactly when its guard chain holds, and
  then `o` is the explicit output.  Everything in Props/ is a projection of these.
-/
namespace Cctp
open Gen

theorem checkCaller_ok (ext : Ext) (caller from_ : Bytes) (u : Unit) :
    checkCaller ext caller from_ = .ok u ↔ (caller = zeros 32 ∨ ext.bech32Enc (caller.drop 12) = some from_) := by
  unfold checkCaller
  by_cases h : caller = zeros 32
  · simp [h]
  · simp only [h, if_false, bind_ok, getOr_ok, req_ok, false_or]
    constructor
    · rintro ⟨s, h1, h2⟩; subst h2; exact h1
    · intro h1; exact ⟨from_, h1, rfl⟩

/-! ### send -/

/-- the message `sendCore` serialises. -/
def outMsg (dest : Nat) (recipient caller sender : Bytes) (nonce : Nat) (body : Bytes) : Message :=
  { version := MessageBodyVersion, sourceDomain := NobleDomainId, destDomain := dest, nonce := nonce,
    sender := sender, recipient := recipient, caller := caller, body := body }

theorem sendCore_ok (st : Store) (dest : Nat) (rcp caller sender : Bytes) (nonce : Nat) (body : Bytes) (ev : Event) :
    sendCore st dest rcp caller sender nonce body = .ok ev ↔
      sendPaused st = false ∧ (∀ mx, getSize st = some mx → ¬ body.length > mx) ∧
      ¬ (rcp.length = 0 ∨ isZeros rcp = true) ∧
      ∃ bz, (outMsg dest rcp caller sender nonce body).bytes = .ok bz ∧ ev = Event.messageSent bz := by
  unfold sendCore outMsg
  simp only [bind_ok, req_ok, reqAll_ok, pure_ok, Bool.not_eq_true]
  constructor
  · rintro ⟨_, h1, _, h2, _, h3, bz, h4, h5⟩; exact ⟨h1, h2, h3, bz, h4, h5.symm⟩
  · rintro ⟨h1, h2, h3, bz, h4, h5⟩; exact ⟨(), h1, (), h2, (), h3, bz, h4, h5.symm⟩

/-- the counter value a send reserves. -/
def curNonce (st : Store) : Nat := (reserveNonce st).1

theorem reserveNonce_write (st : Store) :
    (reserveNonce st).2 = (Key.nextNonce, some (.nonce 0 (u64 (curNonce st + 1)))) := by
  simp [reserveNonce, curNonce]

theorem sendMessage_ok (ext : Ext) (st : Store) (led : Ledger) (from_ : Bytes) (dest : Nat) (rcp body : Bytes) (o : Out) :
    sendMessage ext st led from_ dest rcp body = .ok o ↔
      ∃ addr ev, ext.accAddr from_ = some addr ∧
        sendCore st dest rcp (zeros DestinationCallerLen) (pad12 addr) (curNonce st) body = .ok ev ∧
        o = { out0 led with writes := [(reserveNonce st).2], events := [ev], resp := .nonce (curNonce st) } := by
  unfold sendMessage curNonce
  simp only [bind_ok, getOr_ok, pure_ok]
  constructor
  · rintro ⟨addr, h1, ev, h2, h3⟩; exact ⟨addr, ev, h1, h2, h3.symm⟩
  · rintro ⟨addr, ev, h1, h2, h3⟩; exact ⟨addr, h1, ev, h2, h3.symm⟩

theorem sendMessageWithCaller_ok (ext : Ext) (st : Store) (led : Ledger) (from_ : Bytes) (dest : Nat)
    (rcp body caller : Bytes) (o : Out) :
    sendMessageWithCaller ext st led from_ dest rcp body caller = .ok o ↔
      ∃ addr ev, ext.accAddr from_ = some addr ∧ caller.length = DestinationCallerLen ∧
        caller ≠ zeros DestinationCallerLen ∧
        sendCore st dest rcp caller (pad12 addr) (curNonce st) body = .ok ev ∧
        o = { out0 led with writes := [(reserveNonce st).2], events := [ev], resp := .nonce (curNonce st) } := by
  unfold sendMessageWithCaller curNonce
  simp only [bind_ok, getOr_ok, req_ok, pure_ok, not_or, Decidable.not_not]
  constructor
  · rintro ⟨addr, h1, _, ⟨h2, h2'⟩, ev, h3, h4⟩; exact ⟨addr, ev, h1, h2, h2', h3, h4.symm⟩
  · rintro ⟨addr, ev, h1, h2, h2', h3, h4⟩; exact ⟨addr, h1, (), ⟨h2, h2'⟩, ev, h3, h4.symm⟩

/-! ### replace -/

theorem replaceMessage_ok (ext : Ext) (st : Store) (led : Ledger) (from_ orig att newBody newCaller : Bytes) (o : Out) :
    replaceMessage ext st led from_ orig att newBody newCaller = .ok o ↔
      sendPaused st = false ∧
      ∃ t m addr ev, getThreshold st = some t ∧ verify ext orig att (attestersOf st) t = .ok () ∧
        Message.parse orig = .ok m ∧ ext.accAddr from_ = some addr ∧ pad12 addr = m.sender ∧
        m.sourceDomain = NobleDomainId ∧
        sendCore st m.destDomain m.recipient newCaller m.sender m.nonce newBody = .ok ev ∧
        o = { out0 led with events := [ev] } := by
  unfold replaceMessage
  simp only [bind_ok, getOr_ok, req_ok, pure_ok, Bool.not_eq_true]
  constructor
  · rintro ⟨_, h1, t, h2, _, h3, m, h4, addr, h5, _, h6, _, h7, ev, h8, h9⟩
    exact ⟨h1, t, m, addr, ev, h2, h3, h4, h5, h6, h7, h8, h9.symm⟩
  · rintro ⟨h1, t, m, addr, ev, h2, h3, h4, h5, h6, h7, h8, h9⟩
    exact ⟨(), h1, t, h2, (), h3, m, h4, addr, h5, (), h6, (), h7, ev, h8, h9.symm⟩

theorem replaceDepositForBurn_ok (ext : Ext) (cfg : Cfg) (st : Store) (led : Ledger)
    (from_ orig att newCaller newRcp : Bytes) (o : Out) :
    replaceDepositForBurn ext cfg st led from_ orig att newCaller newRcp = .ok o ↔
      burnPaused st = false ∧
      ∃ m b addr nb inner, Message.parse orig = .ok m ∧ BurnMessage.parse m.body = .ok b ∧
        ext.accAddr from_ = some addr ∧ pad12 addr = b.messageSender ∧ newRcp ≠ zeros MintRecipientLen ∧
        BurnMessage.bytes { b with mintRecipient := newRcp } = .ok nb ∧
        replaceMessage ext st led cfg.moduleStr orig att nb newCaller = .ok inner ∧
        o = { inner with events := inner.events ++
          [Event.depositForBurn m.nonce (toHex b.burnToken) (b.amount.getD 0) from_ newRcp m.destDomain m.recipient newCaller] } := by
  unfold replaceDepositForBurn
  simp only [bind_ok, getOr_ok, req_ok, pure_ok, Bool.not_eq_true]
  constructor
  · rintro ⟨_, h1, m, h2, b, h3, addr, h4, _, h5, _, h6, nb, h7, inner, h8, h9⟩
    exact ⟨h1, m, b, addr, nb, inner, h2, h3, h4, h5, h6, h7, h8, h9.symm⟩
  · rintro ⟨h1, m, b, addr, nb, inner, h2, h3, h4, h5, h6, h7, h8, h9⟩
    exact ⟨(), h1, m, h2, b, h3, addr, h4, (), h5, (), h6, nb, h7, inner, h8, h9.symm⟩

/-! ### deposit -/

theorem depositForBurn_ok (ext : Ext) (cfg : Cfg) (st : Store) (led : Ledger) (from_ : Bytes)
    (amount : Option Int) (dest : Nat) (rcp tok caller : Bytes) (o : Out) :
    depositForBurn ext cfg st led from_ amount dest rcp tok caller = .ok o ↔
      ∃ addr a msgr body inner,
        ext.accAddr from_ = some addr ∧ amount = some a ∧ 0 < a ∧ rcp ≠ zeros MintRecipientLen ∧
        getMessenger st dest = some msgr ∧ ext.equalFold led.mintingDenom tok = true ∧ burnPaused st = false ∧
        (∀ l, getLimit st (ext.toLower tok) = some l → ¬ a > l) ∧ ext.validDenom tok = true ∧
        (led.transfer addr cfg.moduleAddr tok a).1 = true ∧
        ((led.transfer addr cfg.moduleAddr tok a).2.burn true cfg.moduleAddr tok a).1 = true ∧
        BurnMessage.bytes ⟨MessageBodyVersion, ext.keccak256 (ext.toLower tok), rcp, some a, pad12 addr⟩ = .ok body ∧
        innerSend ext cfg st ((led.transfer addr cfg.moduleAddr tok a).2.burn true cfg.moduleAddr tok a).2
          dest msgr.2 body caller = .ok inner ∧
        o = { inner with
              events := inner.events ++ [Event.depositForBurn (match inner.resp with | .nonce n => n | _ => 0)
                (toHex (ext.keccak256 (ext.toLower tok))) a from_ rcp dest msgr.2 caller],
              deps := [Dep.transfer addr ModuleName tok a true, Dep.burn cfg.moduleStr tok a true],
              resp := .nonce (match inner.resp with | .nonce n => n | _ => 0) } := by
  unfold depositForBurn
  simp only [bind_ok, getOr_ok, req_ok, reqAll_ok, pure_ok, Bool.not_eq_true]
  constructor
  · rintro ⟨addr, h1, a, h2, _, h3, _, h4, ⟨d, ma⟩, h5, _, h6, _, h7, _, h8, _, h9, _, h10, _, h11, body, h12, inner, h13, h14⟩
    exact ⟨addr, a, (d, ma), body, inner, h1, h2, h3, h4, h5, h6, h7, h8, h9, h10, h11, h12, h13, h14.symm⟩
  · rintro ⟨addr, a, ⟨d, ma⟩, body, inner, h1, h2, h3, h4, h5, h6, h7, h8, h9, h10, h11, h12, h13, h14⟩
    exact ⟨addr, h1, a, h2, (), h3, (), h4, (d, ma), h5, (), h6, (), h7, (), h8, (), h9, (), h10, (), h11, body, h12,
      inner, h13, h14.symm⟩

theorem depositForBurnWithCaller_ok (ext : Ext) (cfg : Cfg) (st : Store) (led : Ledger) (from_ : Bytes)
    (amount : Option Int) (dest : Nat) (rcp tok caller : Bytes) (o : Out) :
    depositForBurnWithCaller ext cfg st led from_ amount dest rcp tok caller = .ok o ↔
      caller.length ≠ 0 ∧ caller ≠ zeros DestinationCallerLen ∧
      depositForBurn ext cfg st led from_ amount dest rcp tok caller = .ok o := by
  unfold depositForBurnWithCaller
  simp only [bind_ok, req_ok, not_or]
  constructor
  · rintro ⟨_, ⟨h1, h2⟩, h3⟩; exact ⟨h1, h2, h3⟩
  · rintro ⟨h1, h2, h3⟩; exact ⟨(), ⟨h1, h2⟩, h3⟩

/-! ### receive -/

theorem mintBranch_ok (ext : Ext) (cfg : Cfg) (st : Store) (led : Ledger) (m : Message) (mo : MintOut) :
    mintBranch ext cfg st led m = .ok mo ↔
      burnPaused st = false ∧
      ∃ b pair msgr rcp, BurnMessage.parse m.body = .ok b ∧ b.version = MessageBodyVersion ∧
        getPair ext st m.sourceDomain b.burnToken = some pair ∧ getMessenger st m.sourceDomain = some msgr ∧
        m.sender = msgr.2 ∧ ext.bech32Enc (b.mintRecipient.drop 12) = some rcp ∧
        (led.mint true (ext.accAddr rcp) (ext.toLower pair.2.2) (b.amount.getD 0)).1 = true ∧
        mo = { events := [Event.mintAndWithdraw b.mintRecipient (b.amount.getD 0) (ext.toLower pair.2.2)],
               deps := [Dep.mint cfg.moduleStr rcp (ext.toLower pair.2.2) (b.amount.getD 0) true],
               ledger := (led.mint true (ext.accAddr rcp) (ext.toLower pair.2.2) (b.amount.getD 0)).2 } := by
  unfold mintBranch
  simp only [bind_ok, getOr_ok, req_ok, pure_ok, Bool.not_eq_true]
  constructor
  · rintro ⟨_, h1, b, h2, _, h3, ⟨pd, pt, pl⟩, h4, ⟨md, ma⟩, h5, _, h6, rcp, h7, _, h8, h9⟩
    exact ⟨h1, b, (pd, pt, pl), (md, ma), rcp, h2, h3, h4, h5, h6, h7, h8, h9.symm⟩
  · rintro ⟨h1, b, ⟨pd, pt, pl⟩, ⟨md, ma⟩, rcp, h2, h3, h4, h5, h6, h7, h8, h9⟩
    exact ⟨(), h1, b, h2, (), h3, (pd, pt, pl), h4, (md, ma), h5, (), h6, rcp, h7, (), h8, h9.symm⟩

theorem receiveMessage_ok (ext : Ext) (cfg : Cfg) (st : Store) (led : Ledger) (from_ msg att : Bytes) (o : Out) :
    receiveMessage ext cfg st led from_ msg att = .ok o ↔
      sendPaused st = false ∧ (attestersOf st).length ≠ 0 ∧
      ∃ t m mo, getThreshold st = some t ∧ verify ext msg att (attestersOf st) t = .ok () ∧
        Message.parse msg = .ok m ∧ m.destDomain = NobleDomainId ∧
        (m.caller = zeros 32 ∨ ext.bech32Enc (m.caller.drop 12) = some from_) ∧
        m.version = NobleMessageVersion ∧ isUsed st m.sourceDomain m.nonce = false ∧
        mintOrSkip ext cfg st led m = .ok mo ∧
        o = { writes := [(Key.usedNonce m.sourceDomain m.nonce, some (.nonce m.sourceDomain m.nonce))],
              events := mo.events ++ [Event.messageReceived from_ m.sourceDomain m.nonce m.sender m.body],
              deps := mo.deps, ledger := mo.ledger, resp := .success } := by
  unfold receiveMessage
  simp only [bind_ok, getOr_ok, req_ok, pure_ok, Bool.not_eq_true, checkCaller_ok]
  constructor
  · rintro ⟨_, h1, _, h2, t, h3, _, h4, m, h5, _, h6, _, h7, _, h8, _, h9, mo, h10, h11⟩
    exact ⟨h1, h2, t, m, mo, h3, h4, h5, h6, h7, h8, h9, h10, h11.symm⟩
  · rintro ⟨h1, h2, t, m, mo, h3, h4, h5, h6, h7, h8, h9, h10, h11⟩
    exact ⟨(), h1, (), h2, t, h3, (), h4, m, h5, (), h6, (), h7, (), h8, (), h9, mo, h10, h11.symm⟩

/-! ### administrative handlers -/

theorem updateOwner_ok (ext : Ext) (st : Store) (led : Ledger) (f new : Bytes) (o : Out) :
    updateOwner ext st led f new = .ok o ↔
      getRole st Key.owner = some f ∧ (ext.accAddr new).isSome ∧
      o = adminOut led [(Key.pendingOwner, some (.role new))] ⟨.ownershipTransferStarted, [.bytes f, .bytes new]⟩ := by
  unfold updateOwner
  simp only [bind_ok, getMust_ok, getOr_ok, req_ok, pure_ok]
  constructor
  · rintro ⟨owner, h1, _, h2, a, h3, h4⟩; subst h2; exact ⟨h1, by simp [h3], h4.symm⟩
  · rintro ⟨h1, h2, h3⟩
    obtain ⟨a, ha⟩ := Option.isSome_iff_exists.mp h2
    exact ⟨f, h1, (), rfl, a, ha, h3.symm⟩

theorem acceptOwner_ok (st : Store) (led : Ledger) (f : Bytes) (o : Out) :
    acceptOwner st led f = .ok o ↔
      ∃ owner, getRole st Key.owner = some owner ∧ getRole st Key.pendingOwner = some f ∧
        o = adminOut led [(Key.owner, some (.role f)), (Key.pendingOwner, none)]
              ⟨.ownerUpdated, [.bytes owner, .bytes f]⟩ := by
  unfold acceptOwner
  simp only [bind_ok, getMust_ok, getOr_ok, req_ok, pure_ok]
  constructor
  · rintro ⟨owner, h1, p, h2, _, h3, h4⟩; subst h3; exact ⟨owner, h1, h2, h4.symm⟩
  · rintro ⟨owner, h1, h2, h3⟩; exact ⟨owner, h1, f, h2, (), rfl, h3.symm⟩

theorem updateRole_ok (ext : Ext) (st : Store) (led : Ledger) (slot : Bytes) (kind : EvKind) (f new : Bytes) (o : Out) :
    updateRole ext st led slot kind f new = .ok o ↔
      getRole st Key.owner = some f ∧ (ext.accAddr new).isSome ∧
      ∃ cur, getRole st slot = some cur ∧
        o = adminOut led [(slot, some (.role new))] ⟨kind, [.bytes cur, .bytes new]⟩ := by
  unfold updateRole
  simp only [bind_ok, getMust_ok, getOr_ok, req_ok, pure_ok]
  constructor
  · rintro ⟨owner, h1, _, h2, a, h3, cur, h4, h5⟩; subst h2; exact ⟨h1, by simp [h3], cur, h4, h5.symm⟩
  · rintro ⟨h1, h2, cur, h4, h5⟩
    obtain ⟨a, ha⟩ := Option.isSome_iff_exists.mp h2
    exact ⟨f, h1, (), rfl, a, ha, cur, h4, h5.symm⟩

theorem updateMaxMessageBodySize_ok (st : Store) (led : Ledger) (f : Bytes) (size : Nat) (o : Out) :
    updateMaxMessageBodySize st led f size = .ok o ↔
      getRole st Key.owner = some f ∧
      o = adminOut led [(Key.maxBody, some (.size size))] ⟨.maxMessageBodySizeUpdated, [.nat size]⟩ := by
  unfold updateMaxMessageBodySize
  simp only [bind_ok, getMust_ok, req_ok, pure_ok]
  constructor
  · rintro ⟨owner, h1, _, h2, h3⟩; subst h2; exact ⟨h1, h3.symm⟩
  · rintro ⟨h1, h3⟩; exact ⟨f, h1, (), rfl, h3.symm⟩

theorem addRemoteTokenMessenger_ok (st : Store) (led : Ledger) (f : Bytes) (d : Nat) (addr : Bytes) (o : Out) :
    addRemoteTokenMessenger st led f d addr = .ok o ↔
      getRole st Key.owner = some f ∧ getMessenger st d = none ∧ addr.length = 32 ∧
      o = adminOut led [(Key.messenger d, some (.messenger d addr))] ⟨.remoteTokenMessengerAdded, [.nat d, .bytes addr]⟩ := by
  unfold addRemoteTokenMessenger
  simp only [bind_ok, getMust_ok, req_ok, pure_ok]
  constructor
  · rintro ⟨owner, h1, _, h2, _, h3, _, h4, h5⟩; subst h2; exact ⟨h1, h3, h4, h5.symm⟩
  · rintro ⟨h1, h3, h4, h5⟩; exact ⟨f, h1, (), rfl, (), h3, (), h4, h5.symm⟩

theorem removeRemoteTokenMessenger_ok (st : Store) (led : Ledger) (f : Bytes) (d : Nat) (o : Out) :
    removeRemoteTokenMessenger st led f d = .ok o ↔
      getRole st Key.owner = some f ∧ ∃ m, getMessenger st d = some m ∧
      o = adminOut led [(Key.messenger d, none)] ⟨.remoteTokenMessengerRemoved, [.nat d, .bytes m.2]⟩ := by
  unfold removeRemoteTokenMessenger
  simp only [bind_ok, getMust_ok, getOr_ok, req_ok, pure_ok]
  constructor
  · rintro ⟨owner, h1, _, h2, ⟨md, ma⟩, h3, h4⟩; subst h2; exact ⟨h1, (md, ma), h3, h4.symm⟩
  · rintro ⟨h1, ⟨md, ma⟩, h3, h4⟩; exact ⟨f, h1, (), rfl, (md, ma), h3, h4.symm⟩

theorem enableAttester_ok (st : Store) (led : Ledger) (f a : Bytes) (o : Out) :
    enableAttester st led f a = .ok o ↔
      getRole st Key.attesterManager = some f ∧ (fromHex a).length ≠ 0 ∧ getAttester st a = none ∧
      o = adminOut led [(Key.attester a, some (.attester a))] ⟨.attesterEnabled, [.bytes a]⟩ := by
  unfold enableAttester
  simp only [bind_ok, getMust_ok, req_ok, pure_ok]
  constructor
  · rintro ⟨m, h1, _, h2, _, h3, _, h4, h5⟩; subst h2; exact ⟨h1, h3, h4, h5.symm⟩
  · rintro ⟨h1, h3, h4, h5⟩; exact ⟨f, h1, (), rfl, (), h3, (), h4, h5.symm⟩

theorem disableAttester_ok (st : Store) (led : Ledger) (f a : Bytes) (o : Out) :
    disableAttester st led f a = .ok o ↔
      getRole st Key.attesterManager = some f ∧ (fromHex a).length ≠ 0 ∧ (getAttester st a).isSome ∧
      (attestersOf st).length ≠ 1 ∧ ∃ t, getThreshold st = some t ∧ ¬ u32 (attestersOf st).length ≤ t ∧
      o = adminOut led [(Key.attester a, none)] ⟨.attesterDisabled, [.bytes a]⟩ := by
  unfold disableAttester
  simp only [bind_ok, getMust_ok, getOr_ok, req_ok, pure_ok]
  constructor
  · rintro ⟨m, h1, _, h2, _, h3, x, h4, _, h5, t, h6, _, h7, h8⟩
    subst h2; exact ⟨h1, h3, by simp [h4], h5, t, h6, h7, h8.symm⟩
  · rintro ⟨h1, h3, h4, h5, t, h6, h7, h8⟩
    obtain ⟨x, hx⟩ := Option.isSome_iff_exists.mp h4
    exact ⟨f, h1, (), rfl, (), h3, x, hx, (), h5, t, h6, (), h7, h8.symm⟩

theorem updateSignatureThreshold_ok (st : Store) (led : Ledger) (f : Bytes) (amount : Nat) (o : Out) :
    updateSignatureThreshold st led f amount = .ok o ↔
      getRole st Key.attesterManager = some f ∧ amount ≠ 0 ∧ amount ≠ (getThreshold st).getD 0 ∧
      ¬ amount > u32 (attestersOf st).length ∧
      o = adminOut led [(Key.threshold, some (.threshold amount))]
            ⟨.signatureThresholdUpdated, [.nat ((getThreshold st).getD 0), .nat amount]⟩ := by
  unfold updateSignatureThreshold
  simp only [bind_ok, getMust_ok, req_ok, pure_ok]
  constructor
  · rintro ⟨m, h1, _, h2, _, h3, _, h4, _, h5, h6⟩; subst h2; exact ⟨h1, h3, h4, h5, h6.symm⟩
  · rintro ⟨h1, h3, h4, h5, h6⟩; exact ⟨f, h1, (), rfl, (), h3, (), h4, (), h5, h6.symm⟩

theorem setFlag_ok (st : Store) (led : Ledger) (key : Bytes) (value : Bool) (kind : EvKind) (f : Bytes) (o : Out) :
    setFlag st led key value kind f = .ok o ↔
      getRole st Key.pauser = some f ∧ o = adminOut led [(key, some (.flag value))] ⟨kind, []⟩ := by
  unfold setFlag
  simp only [bind_ok, getMust_ok, req_ok, pure_ok]
  constructor
  · rintro ⟨a, h1, _, h2, h3⟩; subst h2; exact ⟨h1, h3.symm⟩
  · rintro ⟨h1, h2⟩; exact ⟨f, h1, (), rfl, h2.symm⟩

theorem linkTokenPair_ok (ext : Ext) (st : Store) (led : Ledger) (f : Bytes) (d : Nat) (tok loc : Bytes) (o : Out) :
    linkTokenPair ext st led f d tok loc = .ok o ↔
      getRole st Key.tokenController = some f ∧ tok.length = 32 ∧ getPair ext st d tok = none ∧
      o = adminOut led [(Key.tokenPair ext d tok, some (.pair d tok (ext.toLower loc)))]
            ⟨.tokenPairLinked, [.bytes (ext.toLower loc), .nat d, .bytes tok]⟩ := by
  unfold linkTokenPair
  simp only [bind_ok, getMust_ok, req_ok, pure_ok]
  constructor
  · rintro ⟨m, h1, _, h2, _, h3, _, h4, h5⟩; subst h2; exact ⟨h1, h3, h4, h5.symm⟩
  · rintro ⟨h1, h3, h4, h5⟩; exact ⟨f, h1, (), rfl, (), h3, (), h4, h5.symm⟩

theorem unlinkTokenPair_ok (ext : Ext) (st : Store) (led : Ledger) (f : Bytes) (d : Nat) (tok : Bytes) (o : Out) :
    unlinkTokenPair ext st led f d tok = .ok o ↔
      getRole st Key.tokenController = some f ∧ tok.length = 32 ∧
      ∃ p, getPair ext st d tok = some p ∧
        o = adminOut led [(Key.tokenPair ext d p.2.1, none)]
              ⟨.tokenPairUnlinked, [.bytes p.2.2, .nat p.1, .bytes tok]⟩ := by
  unfold unlinkTokenPair
  simp only [bind_ok, getMust_ok, getOr_ok, req_ok, pure_ok]
  constructor
  · rintro ⟨m, h1, _, h2, _, h3, ⟨pd, pt, pl⟩, h4, h5⟩; subst h2; exact ⟨h1, h3, (pd, pt, pl), h4, h5.symm⟩
  · rintro ⟨h1, h3, ⟨pd, pt, pl⟩, h4, h5⟩; exact ⟨f, h1, (), rfl, (), h3, (pd, pt, pl), h4, h5.symm⟩

theorem setMaxBurnAmountPerMessage_ok (ext : Ext) (st : Store) (led : Ledger) (f loc : Bytes) (amount : Option Int) (o : Out) :
    setMaxBurnAmountPerMessage ext st led f loc amount = .ok o ↔
      getRole st Key.tokenController = some f ∧
      o = adminOut led [(Key.limit (ext.toLower loc), some (.limit (ext.toLower loc) (amount.getD 0)))]
            ⟨.setBurnLimitPerMessage, [.bytes (ext.toLower loc), .int (amount.getD 0)]⟩ := by
  unfold setMaxBurnAmountPerMessage
  simp only [bind_ok, getMust_ok, req_ok, pure_ok]
  constructor
  · rintro ⟨m, h1, _, h2, h3⟩; subst h2; exact ⟨h1, h3.symm⟩
  · rintro ⟨h1, h3⟩; exact ⟨f, h1, (), rfl, h3.symm⟩

end Cctp
