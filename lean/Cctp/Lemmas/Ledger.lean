import Cctp.Model.Ledger
/-
  The ledger (bank + fiat-token-factory as x/cctp sees them): when its three operations succeed, and
  what they do to balances and supply.
-/
namespace Cctp
namespace Ledger

theorem lookup_update_same {κ} [DecidableEq κ] (l : List (κ × Nat)) (k : κ) (v : Nat) :
    lookup (update l k v) k = v := by
  induction l with
  | nil => simp [update, lookup]
  | cons p rest ih =>
    obtain ⟨k', v'⟩ := p
    simp only [update]
    split
    · simp [lookup]
    · rename_i h; simp [lookup, h, ih]

theorem lookup_update_other {κ} [DecidableEq κ] (l : List (κ × Nat)) (k k2 : κ) (v : Nat) (h : k2 ≠ k) :
    lookup (update l k v) k2 = lookup l k2 := by
  induction l with
  | nil => simp [update, lookup, h]
  | cons p rest ih =>
    obtain ⟨k', v'⟩ := p
    simp only [update]
    split
    · rename_i e; subst e; simp [lookup, h]
    · simp only [lookup]; split
      · rfl
      · exact ih

/-- the fault bit a call consumes (an exhausted plan means "no fault"). -/
def nextFault (l : Ledger) : Bool := l.popFault.1

theorem mint_ok (l : Ledger) (to : Option Bytes) (denom : Bytes) (amt : Int) (h : (l.mint true to denom amt).1 = true) :
    nextFault l = false ∧ ∃ a, to = some a ∧ denom = l.mintingDenom ∧ 0 < amt ∧
      (l.mint true to denom amt).2.balance a denom = l.balance a denom + amt.toNat ∧
      (l.mint true to denom amt).2.supplyOf denom = l.supplyOf denom + amt.toNat ∧
      (∀ a' d', (a', d') ≠ (a, denom) → (l.mint true to denom amt).2.balance a' d' = l.balance a' d') ∧
      (∀ d', d' ≠ denom → (l.mint true to denom amt).2.supplyOf d' = l.supplyOf d') := by
  unfold mint at h ⊢
  simp only [nextFault]
  cases hf : l.popFault with
  | mk f l' =>
    have hl' : l'.bal = l.bal ∧ l'.supply = l.supply ∧ l'.mintingDenom = l.mintingDenom := by
      unfold popFault at hf; split at hf <;> (cases hf; simp)
    simp only [hf] at h ⊢
    cases f with
    | true => simp at h
    | false =>
      simp only [Bool.false_eq_true, if_false, Bool.not_true] at h ⊢
      cases to with
      | none => simp at h
      | some a =>
        simp only at h ⊢
        by_cases hd : denom ≠ l'.mintingDenom
        · simp [hd] at h
        · simp only [hd, if_false] at h ⊢
          by_cases ha : amt ≤ 0
          · simp [ha] at h
          · simp only [ha, if_false] at h ⊢
            refine ⟨trivial, a, rfl, by rw [← hl'.2.2]; exact Decidable.not_not.mp hd, by omega, ?_, ?_, ?_, ?_⟩
            · simp [balance, lookup_update_same, hl'.1]
            · simp [supplyOf, lookup_update_same, hl'.2.1]
            · intro a' d' hne; simp [balance, lookup_update_other _ _ _ _ hne, hl'.1]
            · intro d' hne; simp [supplyOf, lookup_update_other _ _ _ _ hne, hl'.2.1]

/-- a set fault bit makes the call fail, whatever else holds. -/
theorem mint_fault (l : Ledger) (to : Option Bytes) (denom : Bytes) (amt : Int) (h : nextFault l = true) :
    (l.mint true to denom amt).1 = false := by
  unfold mint nextFault at *
  cases hf : l.popFault with
  | mk f l' => rw [hf] at h; simp only at h; subst h; simp

theorem transfer_fault (l : Ledger) (a m d : Bytes) (amt : Int) (h : nextFault l = true) :
    (l.transfer a m d amt).1 = false := by
  unfold transfer nextFault at *
  cases hf : l.popFault with
  | mk f l' => rw [hf] at h; simp only at h; subst h; simp

theorem burn_fault (l : Ledger) (m d : Bytes) (amt : Int) (h : nextFault l = true) :
    (l.burn true m d amt).1 = false := by
  unfold burn nextFault at *
  cases hf : l.popFault with
  | mk f l' => rw [hf] at h; simp only at h; subst h; simp

theorem popFault_bal (l : Ledger) : l.popFault.2.bal = l.bal ∧ l.popFault.2.supply = l.supply ∧
    l.popFault.2.mintingDenom = l.mintingDenom := by
  unfold popFault; split <;> simp

theorem transfer_ok (l : Ledger) (a m d : Bytes) (amt : Int) (h : (l.transfer a m d amt).1 = true) :
    nextFault l = false ∧ 0 < amt ∧ amt.toNat ≤ l.balance a d ∧
    (l.transfer a m d amt).2.supply = l.supply ∧ (l.transfer a m d amt).2.mintingDenom = l.mintingDenom ∧
    (a ≠ m → (l.transfer a m d amt).2.balance a d = l.balance a d - amt.toNat ∧
             (l.transfer a m d amt).2.balance m d = l.balance m d + amt.toNat) ∧
    (∀ a' d', (a', d') ≠ (a, d) → (a', d') ≠ (m, d) → (l.transfer a m d amt).2.balance a' d' = l.balance a' d') := by
  unfold transfer at h ⊢
  simp only [nextFault]
  obtain ⟨hb, hs, hm⟩ := popFault_bal l
  cases hf : l.popFault with
  | mk f l' =>
    rw [hf] at hb hs hm; simp only at hb hs hm
    simp only [hf] at h ⊢
    cases f with
    | true => simp at h
    | false =>
      simp only [Bool.false_eq_true, if_false] at h ⊢
      by_cases ha : amt ≤ 0
      · simp [ha] at h
      · simp only [ha, if_false] at h ⊢
        by_cases hbal : l'.balance a d < amt.toNat
        · simp [hbal] at h
        · simp only [hbal, if_false] at h ⊢
          have hbe : l'.balance a d = l.balance a d := by simp [balance, hb]
          refine ⟨trivial, by omega, by omega, hs, hm, ?_, ?_⟩
          · intro hne
            have hne' : (a, d) ≠ (m, d) := fun e => hne (Prod.mk.inj e).1
            constructor
            · simp only [balance]
              rw [lookup_update_other _ _ _ _ hne', lookup_update_same, hb]
            · simp only [balance]
              rw [lookup_update_same, lookup_update_other _ _ _ _ (Ne.symm hne'), hb]
          · intro a' d' h1 h2
            simp only [balance]
            rw [lookup_update_other _ _ _ _ h2, lookup_update_other _ _ _ _ h1, hb]

theorem burn_ok (l : Ledger) (m d : Bytes) (amt : Int) (h : (l.burn true m d amt).1 = true) :
    nextFault l = false ∧ d = l.mintingDenom ∧ 0 < amt ∧ amt.toNat ≤ l.balance m d ∧
    (l.burn true m d amt).2.balance m d = l.balance m d - amt.toNat ∧
    (l.burn true m d amt).2.supplyOf d = l.supplyOf d - amt.toNat ∧
    (∀ a' d', (a', d') ≠ (m, d) → (l.burn true m d amt).2.balance a' d' = l.balance a' d') ∧
    (∀ d', d' ≠ d → (l.burn true m d amt).2.supplyOf d' = l.supplyOf d') := by
  unfold burn at h ⊢
  simp only [nextFault]
  obtain ⟨hb, hs, hm⟩ := popFault_bal l
  cases hf : l.popFault with
  | mk f l' =>
    rw [hf] at hb hs hm; simp only at hb hs hm
    simp only [hf] at h ⊢
    cases f with
    | true => simp at h
    | false =>
      simp only [Bool.false_eq_true, if_false, Bool.not_true] at h ⊢
      by_cases hd : d ≠ l'.mintingDenom
      · simp [hd] at h
      · simp only [hd, if_false] at h ⊢
        by_cases ha : amt ≤ 0
        · simp [ha] at h
        · simp only [ha, if_false] at h ⊢
          by_cases hbal : l'.balance m d < amt.toNat
          · simp [hbal] at h
          · simp only [hbal, if_false] at h ⊢
            have hbe : l'.balance m d = l.balance m d := by simp [balance, hb]
            refine ⟨trivial, by rw [← hm]; exact Decidable.not_not.mp hd, by omega, by omega, ?_, ?_, ?_, ?_⟩
            · simp [balance, lookup_update_same, hb]
            · simp [supplyOf, lookup_update_same, hs]
            · intro a' d' hne; simp [balance, lookup_update_other _ _ _ _ hne, hb]
            · intro d' hne; simp [supplyOf, lookup_update_other _ _ _ _ hne, hs]

end Ledger
end Cctp
