import Cctp.Props.C16
import Cctp.Lemmas.Handlers
/-
  What is on the wire: the bytes a handler serialises, read back with the literal-offset reference
  decoder of Spec/Layout.lean (not with the module's own codec).
-/
namespace Cctp
open Gen Spec

theorem be_mod (w n : Nat) : be w (n % 256 ^ w) = be w n := by
  induction w generalizing n with
  | zero => rfl
  | succ w ih =>
    simp only [be]
    have h1 : n % 256 ^ (w + 1) % 256 = n % 256 := by
      rw [Nat.pow_succ, Nat.mul_comm]; exact Nat.mod_mul_right_mod n 256 (256 ^ w)
    have h2 : n % 256 ^ (w + 1) / 256 = (n / 256) % 256 ^ w := by
      rw [Nat.pow_succ, Nat.mul_comm]; exact Nat.mod_mul_right_div_self n 256 (256 ^ w)
    rw [h1, h2, ih]

/-- a successful `Message.Bytes` means three 32-byte fields and the reference encoding. -/
theorem bytes_ok (m : Message) (bz : Bytes) (h : m.bytes = .ok bz) :
    m.sender.length = 32 ∧ m.recipient.length = 32 ∧ m.caller.length = 32 ∧ bz = encodeMessage m := by
  by_cases hl : m.sender.length = 32 ∧ m.recipient.length = 32 ∧ m.caller.length = 32
  · obtain ⟨h1, h2, h3⟩ := hl
    rw [C16.bytes_eq_spec m h1 h2 h3] at h
    exact ⟨h1, h2, h3, (Except.ok.inj h).symm⟩
  · rw [C16.bytes_bad_field_size m hl] at h; cases h

/-- a message with its integer fields reduced to their wire width. -/
def Message.norm (m : Message) : Message :=
  ⟨m.version % 2 ^ 32, m.sourceDomain % 2 ^ 32, m.destDomain % 2 ^ 32, m.nonce % 2 ^ 64, m.sender, m.recipient,
    m.caller, m.body⟩

/-- the reference decoder reads back exactly what was serialised (integers reduced to their field width). -/
theorem decode_of_bytes (m : Message) (bz : Bytes) (h : m.bytes = .ok bz) : decodeMessage bz = some m.norm := by
  obtain ⟨h1, h2, h3, rfl⟩ := bytes_ok m bz h
  have e32 : (2:Nat) ^ 32 = 256 ^ 4 := by decide
  have e64 : (2:Nat) ^ 64 = 256 ^ 8 := by decide
  have henc : encodeMessage m = encodeMessage m.norm := by
    simp only [encodeMessage, Message.norm, e32, e64, be_mod]
  rw [henc]
  apply C16.encode_decode
  exact ⟨Nat.mod_lt _ (by decide), Nat.mod_lt _ (by decide), Nat.mod_lt _ (by decide), Nat.mod_lt _ (by decide),
    h1, h2, h3⟩

/-- the MessageSent payload of `sendCore`, decoded by the reference decoder. -/
theorem sendCore_wire {st : Store} {dest : Nat} {rcp caller sender : Bytes} {nonce : Nat} {body : Bytes} {ev : Event}
    (h : sendCore st dest rcp caller sender nonce body = .ok ev) :
    ∃ bz, ev = Event.messageSent bz ∧
      decodeMessage bz = some ⟨0, 4, dest % 2 ^ 32, nonce % 2 ^ 64, sender, rcp, caller, body⟩ ∧
      sender.length = 32 ∧ rcp.length = 32 ∧ caller.length = 32 := by
  obtain ⟨_, _, _, bz, hb, rfl⟩ := (sendCore_ok ..).mp h
  have hd := decode_of_bytes _ bz hb
  obtain ⟨h1, h2, h3, _⟩ := bytes_ok _ bz hb
  refine ⟨bz, rfl, ?_, h1, h2, h3⟩
  rw [hd]; simp [outMsg, Message.norm, MessageBodyVersion, NobleDomainId]

/-- a successful `BurnMessage.Bytes` is the reference encoding of the body. -/
theorem burn_bytes_ok (b : BurnMessage) (bz : Bytes) (h : b.bytes = .ok bz) :
    b.burnToken.length = 32 ∧ b.mintRecipient.length = 32 ∧ b.messageSender.length = 32 ∧
    ∃ a, b.amount = some a ∧ a.natAbs < 2 ^ 256 ∧ bz = encodeBurn (ofModel b) := by
  by_cases hl : b.burnToken.length = 32 ∧ b.mintRecipient.length = 32 ∧ b.messageSender.length = 32
  · obtain ⟨h1, h2, h3⟩ := hl
    refine ⟨h1, h2, h3, ?_⟩
    have h' := h
    unfold BurnMessage.bytes at h'
    simp only [bind_ok, req_ok, getMust_ok, must_ok, pure_ok] at h'
    obtain ⟨_, _, _, _, _, _, a, ha, _, hlt, _⟩ := h'
    have e : (256:Nat) ^ AmountLen = 2 ^ 256 := by decide
    rw [e] at hlt
    refine ⟨a, ha, hlt, ?_⟩
    have := C16.burn_bytes_eq_spec b a ha hlt h1 h2 h3
    rw [this] at h; exact (Except.ok.inj h).symm
  · rw [C16.burn_bytes_bad_field_size b hl] at h; cases h

/-- the burn body a deposit serialises, read back by the reference decoder. -/
theorem burn_wire (b : BurnMessage) (bz : Bytes) (h : b.bytes = .ok bz) :
    ∃ a, b.amount = some a ∧
      decodeBurn bz = some ⟨b.version % 2 ^ 32, b.burnToken, b.mintRecipient, a.natAbs, b.messageSender⟩ ∧
      bz.length = 132 := by
  obtain ⟨h1, h2, h3, a, ha, hlt, rfl⟩ := burn_bytes_ok b bz h
  refine ⟨a, ha, ?_, ?_⟩
  · have e32 : (2:Nat) ^ 32 = 256 ^ 4 := by decide
    have henc : encodeBurn (ofModel b) = encodeBurn ⟨b.version % 2 ^ 32, b.burnToken, b.mintRecipient, a.natAbs, b.messageSender⟩ := by
      simp only [encodeBurn, ofModel, ha, Option.getD_some, e32, be_mod]
    rw [henc]
    exact C16.burn_encode_decode _ ⟨Nat.mod_lt _ (by decide), h1, h2, hlt, h3⟩
  · simp [encodeBurn, ofModel, h1, h2, h3]

end Cctp
