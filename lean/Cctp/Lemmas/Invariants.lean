import Cctp.Model.Handlers
import Cctp.Lemmas.Store
import Cctp.Lemmas.Keys
/-
  State invariants that every reachable state satisfies (proved preserved in Props/).
-/
namespace Cctp

/-- every stored token pair sits at the key derived from its own (domain, token) fields. -/
def PairsConsistent (ext : Ext) (st : Store) : Prop :=
  ∀ k d' t' l, st.get k = some (.pair d' t' l) → k = Key.tokenPair ext d' t'

/-- Named hypothesis about the external hash (never an axiom): two token-pair keys that coincide were
    derived from the same remote token.  This is (a consequence of) Keccak-256 collision resistance on
    the 36-byte preimages `BE32(domain) ‖ token`. -/
def TokenKeyInj (ext : Ext) : Prop :=
  ∀ d t d' t', Key.tokenPair ext d t = Key.tokenPair ext d' t' → t = t'

end Cctp
