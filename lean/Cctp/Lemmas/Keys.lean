import Cctp.Model.Keys
import Cctp.Lemmas.Bytes
/-
  Key spaces: every key constructor lands in its own class (decided on the bytes regenerated from
  /repo's keys.go), so keys of different classes never collide; fixed-width item keys are injective.
-/
namespace Cctp
open Gen

/-- the key space a full store key belongs to, read off its first bytes. -/
def Key.cls : Bytes → Nat
  | 111 :: _ => 0            -- "owner"
  | 112 :: 101 :: _ => 1     -- "pending-owner"
  | 97 :: _ => 2             -- "attester-manager"
  | 112 :: 97 :: _ => 3      -- "pauser"
  | 116 :: _ => 4            -- "token-controller"
  | 66 :: _ => 5             -- "BurningAndMintingPaused/value/"
  | 83 :: 101 :: _ => 6      -- "SendingAndReceivingMessagesPaused/value/"
  | 77 :: _ => 7             -- "MaxMessageBodySize/value/"
  | 78 :: _ => 8             -- "NextAvailableNonce/value/"
  | 83 :: 105 :: _ => 9      -- "SignatureThreshold/value/"
  | 65 :: _ => 10            -- "Attester/value/"
  | 80 :: _ => 11            -- "PerMessageBurnLimit/value/"
  | 85 :: _ => 12            -- "UsedNonce/value/"
  | 84 :: _ => 13            -- "TokenPair/value/"
  | 82 :: _ => 14            -- "RemoteTokenMessenger/value/"
  | _ => 99

namespace Key
@[simp] theorem cls_owner : cls owner = 0 := rfl
@[simp] theorem cls_pendingOwner : cls pendingOwner = 1 := rfl
@[simp] theorem cls_attesterManager : cls attesterManager = 2 := rfl
@[simp] theorem cls_pauser : cls pauser = 3 := rfl
@[simp] theorem cls_tokenController : cls tokenController = 4 := rfl
@[simp] theorem cls_burnPaused : cls burnPaused = 5 := rfl
@[simp] theorem cls_sendPaused : cls sendPaused = 6 := rfl
@[simp] theorem cls_maxBody : cls maxBody = 7 := rfl
@[simp] theorem cls_nextNonce : cls nextNonce = 8 := rfl
@[simp] theorem cls_threshold : cls threshold = 9 := rfl
@[simp] theorem cls_attester (a : Bytes) : cls (attester a) = 10 := rfl
@[simp] theorem cls_limit (d : Bytes) : cls (limit d) = 11 := rfl
@[simp] theorem cls_usedNonce (d n : Nat) : cls (usedNonce d n) = 12 := rfl
@[simp] theorem cls_tokenPair (ext : Ext) (d : Nat) (t : Bytes) : cls (tokenPair ext d t) = 13 := rfl
@[simp] theorem cls_messenger (d : Nat) : cls (messenger d) = 14 := rfl

theorem ne_of_cls {k1 k2 : Bytes} (h : cls k1 ≠ cls k2) : k1 ≠ k2 := fun e => h (e ▸ rfl)

theorem head_of_prefix (a : UInt8) (p k : Bytes) (h : isPrefixOf (a :: p) k = true) : ∃ t, k = a :: t := by
  cases k with
  | nil => simp [isPrefixOf] at h
  | cons x xs =>
    simp only [isPrefixOf, Bool.and_eq_true, beq_iff_eq] at h
    exact ⟨xs, by rw [h.1]⟩

/-- every key with the attester prefix is in the attester class, etc. (prefix ⇒ class) -/
theorem cls_of_prefix_attester (k : Bytes) (h : isPrefixOf AttesterKeyPrefix k = true) : cls k = 10 := by
  obtain ⟨t, rfl⟩ := head_of_prefix _ _ k h; rfl
theorem cls_of_prefix_usedNonce (k : Bytes) (h : isPrefixOf UsedNonceKeyPrefix k = true) : cls k = 12 := by
  obtain ⟨t, rfl⟩ := head_of_prefix _ _ k h; rfl
theorem cls_of_prefix_limit (k : Bytes) (h : isPrefixOf PerMessageBurnLimitKeyPrefix k = true) : cls k = 11 := by
  obtain ⟨t, rfl⟩ := head_of_prefix _ _ k h; rfl
theorem cls_of_prefix_tokenPair (k : Bytes) (h : isPrefixOf TokenPairKeyPrefix k = true) : cls k = 13 := by
  obtain ⟨t, rfl⟩ := head_of_prefix _ _ k h; rfl
theorem cls_of_prefix_messenger (k : Bytes) (h : isPrefixOf RemoteTokenMessengerKeyPrefix k = true) : cls k = 14 := by
  obtain ⟨t, rfl⟩ := head_of_prefix _ _ k h; rfl

end Key

theorem append_left_cancel' {a b c : Bytes} (h : a ++ b = a ++ c) : b = c := List.append_cancel_left h

theorem append_inj_of_length {a b c d : Bytes} (h : a ++ b = c ++ d) (hl : a.length = c.length) : a = c ∧ b = d :=
  List.append_inj h hl

/-- C02/C19: the used-nonce key determines (domain, nonce) on uint32 × uint64. -/
theorem usedNonceKey_injective (d n d' n' : Nat) (hd : d < 2 ^ 32) (hn : n < 2 ^ 64) (hd' : d' < 2 ^ 32)
    (hn' : n' < 2 ^ 64) (h : Key.usedNonce d n = Key.usedNonce d' n') : d = d' ∧ n = n' := by
  unfold Key.usedNonce at h
  simp only [List.append_assoc] at h
  have h1 := List.append_cancel_left h
  have h2 := List.append_inj h1 (by simp [DomainBytesLen])
  have h3 := List.append_inj h2.2 (by simp [UsedNonceLen])
  have e32 : (256:Nat) ^ DomainBytesLen = 2 ^ 32 := by decide
  have e64 : (256:Nat) ^ UsedNonceLen = 2 ^ 64 := by decide
  exact ⟨be_inj DomainBytesLen d d' (by omega) (by omega) h2.1, be_inj UsedNonceLen n n' (by omega) (by omega) h3.1⟩

theorem messengerKey_injective (d d' : Nat) (hd : d < 2 ^ 32) (hd' : d' < 2 ^ 32)
    (h : Key.messenger d = Key.messenger d') : d = d' := by
  unfold Key.messenger at h
  simp only [List.append_assoc] at h
  have h1 := List.append_cancel_left h
  have h2 := List.append_inj h1 (by simp [DomainBytesLen])
  have e32 : (256:Nat) ^ DomainBytesLen = 2 ^ 32 := by decide
  exact be_inj DomainBytesLen d d' (by omega) (by omega) h2.1

/-- item keys of the form `s ‖ "/"` determine `s`. -/
theorem attesterKey_injective (a a' : Bytes) (h : Key.attester a = Key.attester a') : a = a' := by
  unfold Key.attester at h
  simp only [List.append_assoc] at h
  have h1 := List.append_cancel_left h
  exact List.append_cancel_right h1

theorem limitKey_injective (a a' : Bytes) (h : Key.limit a = Key.limit a') : a = a' := by
  unfold Key.limit at h
  simp only [List.append_assoc] at h
  have h1 := List.append_cancel_left h
  exact List.append_cancel_right h1

/-- token-pair keys are `keccak(BE32 domain ‖ token) ‖ "/"`: injective exactly as far as Keccak is on the
    inputs involved (stated as a hypothesis about the two preimages, never as an axiom). -/
theorem tokenPairKey_injective (ext : Ext) (d d' : Nat) (t t' : Bytes) (hd : d < 2 ^ 32) (hd' : d' < 2 ^ 32)
    (hk : ext.keccak256 (be DomainBytesLen d ++ t) = ext.keccak256 (be DomainBytesLen d' ++ t') →
          be DomainBytesLen d ++ t = be DomainBytesLen d' ++ t')
    (h : Key.tokenPair ext d t = Key.tokenPair ext d' t') : d = d' ∧ t = t' := by
  unfold Key.tokenPair at h
  simp only [List.append_assoc] at h
  have h1 := List.append_cancel_left h
  have h2 := List.append_cancel_right h1
  have h3 := List.append_inj (hk h2) (by simp)
  have e32 : (256:Nat) ^ DomainBytesLen = 2 ^ 32 := by decide
  exact ⟨be_inj DomainBytesLen d d' (by omega) (by omega) h3.1, h3.2⟩

end Cctp
