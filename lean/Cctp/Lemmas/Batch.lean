import Cctp.Model.Batch
import Cctp.Lemmas.Frame
/-
  Multi-message transactions reduce to single-message histories: a chain of transactions behaves exactly as the flat
  history of the messages of its COMMITTED transactions, every one of which succeeded.  Every theorem stated over
  `run` (any history of single messages) therefore holds over `runTxs` (any history of transactions of any size).
-/
namespace Cctp

theorem run_append (ext : Ext) (cfg : Cfg) (w : World) (h1 h2 : History) :
    run ext cfg w (h1 ++ h2) =
      ((run ext cfg (run ext cfg w h1).1 h2).1, (run ext cfg w h1).2 ++ (run ext cfg (run ext cfg w h1).1 h2).2) := by
  induction h1 generalizing w with
  | nil => simp [run]
  | cons fm rest ih =>
    obtain ⟨f, m⟩ := fm
    simp only [List.cons_append, run, ih, List.cons_append]

theorem runState_append (ext : Ext) (cfg : Cfg) (w : World) (h1 h2 : History) :
    runState ext cfg w (h1 ++ h2) = runState ext cfg (runState ext cfg w h1) h2 := by
  simp [runState, run_append]

/-- a transaction whose messages all succeed is the flat run of its messages. -/
theorem runMsgs_eq_run (ext : Ext) (cfg : Cfg) (tx : Txn) :
    ∀ (w w' : World) (rs : List TxResult), runMsgs ext cfg w tx = some (w', rs) →
      run ext cfg w tx = (w', rs) ∧ ∀ r ∈ rs, r.fail = none := by
  induction tx with
  | nil =>
    intro w w' rs h
    simp only [runMsgs, Option.some.injEq, Prod.mk.injEq] at h
    obtain ⟨rfl, rfl⟩ := h
    simp [run]
  | cons fm rest ih =>
    intro w w' rs h
    obtain ⟨f, m⟩ := fm
    simp only [runMsgs] at h
    split at h
    · rename_i hf
      split at h
      · rename_i w2 rs2 hr
        simp only [Option.some.injEq, Prod.mk.injEq] at h
        obtain ⟨rfl, rfl⟩ := h
        obtain ⟨h1, h2⟩ := ih _ _ _ hr
        refine ⟨?_, ?_⟩
        · simp only [run, h1]
        · intro r hr'
          rcases List.mem_cons.1 hr' with rfl | hr'
          · exact hf
          · exact h2 r hr'
      · exact absurd h (by simp)
    · exact absurd h (by simp)

/-- a transaction with a failing message leaves nothing behind. -/
theorem deliverTx_failed (ext : Ext) (cfg : Cfg) (w : World) (tx : Txn) (h : runMsgs ext cfg w tx = none) :
    deliverTx ext cfg w tx = (w.settle, none) := by
  simp [deliverTx, h]

/-- a transaction fails iff one of its messages fails in the state the earlier ones produced: there is a first
failing message, all messages before it succeeded, and it failed on the branch they built. -/
theorem runMsgs_none_iff (ext : Ext) (cfg : Cfg) (tx : Txn) :
    ∀ w : World, runMsgs ext cfg w tx = none ↔
      ∃ (pre : Txn) (f : List Bool) (m : Msg) (post : Txn), tx = pre ++ (f, m) :: post ∧
        (∀ r ∈ (run ext cfg w pre).2, r.fail = none) ∧
        (deliver ext cfg (runState ext cfg w pre) f m).2.fail ≠ none := by
  induction tx with
  | nil => intro w; simp [runMsgs]
  | cons fm rest ih =>
    intro w
    obtain ⟨f, m⟩ := fm
    constructor
    · intro h
      simp only [runMsgs] at h
      split at h
      · rename_i hf
        split at h
        · exact absurd h (by simp)
        · rename_i hr
          obtain ⟨pre, f', m', post, e, hpre, hfail⟩ := (ih _).1 hr
          refine ⟨(f, m) :: pre, f', m', post, by simp [e], ?_, ?_⟩
          · intro r hr'
            simp only [run, List.mem_cons] at hr'
            rcases hr' with rfl | hr'
            · exact hf
            · exact hpre r hr'
          · simpa [runState, run] using hfail
      · rename_i e hf
        exact ⟨[], f, m, rest, rfl, by simp [run], by simp [runState, run, hf]⟩
    · rintro ⟨pre, f', m', post, e, hpre, hfail⟩
      simp only [runMsgs]
      cases pre with
      | nil =>
        simp only [List.nil_append, List.cons.injEq, Prod.mk.injEq] at e
        obtain ⟨⟨rfl, rfl⟩, rfl⟩ := e
        simp only [runState, run] at hfail
        split
        · rename_i hf; exact absurd hf hfail
        · rfl
      | cons p pre' =>
        simp only [List.cons_append, List.cons.injEq] at e
        obtain ⟨rfl, e⟩ := e
        have h0 : (deliver ext cfg w f m).2.fail = none := hpre _ (by simp [run])
        have : runMsgs ext cfg (deliver ext cfg w f m).1 rest = none := by
          refine (ih _).2 ⟨pre', f', m', post, e, ?_, ?_⟩
          · intro r hr; exact hpre r (by simp [run, hr])
          · simpa [runState, run] using hfail
        split
        · simp [this]
        · rfl

theorem settle_settle (w : World) : w.settle.settle = w.settle := rfl

/-- every delivery leaves no fault plan pending. -/
theorem deliver_settled (ext : Ext) (cfg : Cfg) (w : World) (f : List Bool) (m : Msg) :
    (deliver ext cfg w f m).1.settle = (deliver ext cfg w f m).1 := by
  unfold deliver
  split <;> rfl

/-- the fault plan left in the ledger between transactions is never read. -/
theorem deliver_settle (ext : Ext) (cfg : Cfg) (w : World) (f : List Bool) (m : Msg) :
    deliver ext cfg w.settle f m = deliver ext cfg w f m := by
  unfold deliver World.settle
  rfl

theorem run_settle (ext : Ext) (cfg : Cfg) (w : World) (h : History) (hne : h ≠ []) :
    run ext cfg w.settle h = run ext cfg w h := by
  cases h with
  | nil => exact absurd rfl hne
  | cons fm rest =>
    obtain ⟨f, m⟩ := fm
    simp only [run, deliver_settle]

theorem runMsgs_settle (ext : Ext) (cfg : Cfg) (w : World) (tx : Txn) (hne : tx ≠ []) :
    runMsgs ext cfg w.settle tx = runMsgs ext cfg w tx := by
  cases tx with
  | nil => exact absurd rfl hne
  | cons fm rest =>
    obtain ⟨f, m⟩ := fm
    simp only [runMsgs, deliver_settle]

theorem runState_settled (ext : Ext) (cfg : Cfg) (h : History) :
    ∀ w : World, w.settle = w → (runState ext cfg w h).settle = runState ext cfg w h := by
  induction h with
  | nil => intro w hw; simpa [runState, run] using hw
  | cons fm rest ih =>
    intro w _
    obtain ⟨f, m⟩ := fm
    rw [runState_cons]
    exact ih _ (deliver_settled ext cfg w f m)

/-- **Flattening.**  The state after any list of transactions is the state after the flat single-message history of
the committed ones.  (`w.settle = w`: no fault plan is pending in the starting state — true of every genesis state
and of every state a delivery leaves.) -/
theorem runTxs_flatten (ext : Ext) (cfg : Cfg) (txs : List Txn) :
    ∀ w : World, w.settle = w → (runTxs ext cfg w txs).1 = runState ext cfg w (committed ext cfg w txs) := by
  induction txs with
  | nil => intro w _; simp [runTxs, committed, runState, run]
  | cons tx rest ih =>
    intro w hw
    simp only [runTxs, committed, deliverTx]
    cases hr : runMsgs ext cfg w tx with
    | some p =>
      obtain ⟨w', rs⟩ := p
      obtain ⟨h1, _⟩ := runMsgs_eq_run ext cfg tx w w' rs hr
      have hw' : runState ext cfg w tx = w' := by simp [runState, h1]
      simp only [runState_append, hw']
      exact ih w' (hw' ▸ runState_settled ext cfg tx w hw)
    | none =>
      simp only [hw]
      exact ih w hw

/-- in the flat history of the committed transactions every message succeeds. -/
theorem committed_all_ok (ext : Ext) (cfg : Cfg) (txs : List Txn) :
    ∀ w : World, w.settle = w → ∀ r ∈ (run ext cfg w (committed ext cfg w txs)).2, r.fail = none := by
  induction txs with
  | nil => intro w _ r hr; simp [committed, run] at hr
  | cons tx rest ih =>
    intro w hw r hr
    simp only [committed] at hr
    cases hm : runMsgs ext cfg w tx with
    | some p =>
      obtain ⟨w', rs⟩ := p
      simp only [hm] at hr
      obtain ⟨h1, h2⟩ := runMsgs_eq_run ext cfg tx w w' rs hm
      rw [run_append, h1] at hr
      simp only [List.mem_append] at hr
      have hw' : runState ext cfg w tx = w' := by simp [runState, h1]
      rcases hr with hr | hr
      · exact h2 r hr
      · exact ih w' (hw' ▸ runState_settled ext cfg tx w hw) r hr
    | none =>
      simp only [hm, hw] at hr
      exact ih w hw r hr

/-- the results of the committed transactions, in order, are the results of that flat history. -/
theorem runTxs_results (ext : Ext) (cfg : Cfg) (txs : List Txn) :
    ∀ w : World, w.settle = w →
      ((runTxs ext cfg w txs).2.filterMap id).flatten = (run ext cfg w (committed ext cfg w txs)).2 := by
  induction txs with
  | nil => intro w _; simp [runTxs, committed, run]
  | cons tx rest ih =>
    intro w hw
    simp only [runTxs, committed, deliverTx]
    cases hm : runMsgs ext cfg w tx with
    | some p =>
      obtain ⟨w', rs⟩ := p
      obtain ⟨h1, _⟩ := runMsgs_eq_run ext cfg tx w w' rs hm
      have hw' : runState ext cfg w tx = w' := by simp [runState, h1]
      simp only [List.filterMap_cons, id, List.flatten_cons, run_append, h1]
      rw [ih w' (hw' ▸ runState_settled ext cfg tx w hw)]
    | none =>
      simp only [List.filterMap_cons, id, hw]
      exact ih w hw

/-- run-level induction for transactions: a predicate on worlds that every single delivery preserves holds after
every list of transactions. -/
theorem runTxs_inv (ext : Ext) (cfg : Cfg) (P : World → Prop)
    (hstep : ∀ w f m, P w → P (deliver ext cfg w f m).1)
    (txs : List Txn) (w : World) (hs : w.settle = w) (hw : P w) : P (runTxs ext cfg w txs).1 := by
  rw [runTxs_flatten ext cfg txs w hs]
  exact run_inv ext cfg P hstep _ w hw

/-! ### the incremental machine equals the specification -/

theorem steps_failed (ext : Ext) (cfg : Cfg) (msgs : Txn) :
    ∀ (w base : World), Chain.steps ext cfg { world := w, pending := some { base := base, failed := true } }
        ((msgs.map fun fm => BOp.msg fm.1 fm.2) ++ [.end_]) = { world := base.settle, pending := none } := by
  induction msgs with
  | nil => intro w base; simp [Chain.steps, Chain.step]
  | cons fm rest ih =>
    intro w base
    obtain ⟨f, m⟩ := fm
    simp only [List.map_cons, List.cons_append, Chain.steps, Chain.step, Bool.true_or]
    exact ih _ base

theorem steps_open (ext : Ext) (cfg : Cfg) (msgs : Txn) :
    ∀ (w base : World), Chain.steps ext cfg { world := w, pending := some { base := base, failed := false } }
        ((msgs.map fun fm => BOp.msg fm.1 fm.2) ++ [.end_]) =
      (match runMsgs ext cfg w msgs with
       | some (w', _) => { world := w', pending := none }
       | none => { world := base.settle, pending := none }) := by
  induction msgs with
  | nil => intro w base; simp [Chain.steps, Chain.step, runMsgs]
  | cons fm rest ih =>
    intro w base
    obtain ⟨f, m⟩ := fm
    simp only [List.map_cons, List.cons_append, Chain.steps, Chain.step, Bool.false_or, runMsgs]
    cases hf : (deliver ext cfg w f m).2.fail with
    | none =>
      simp only [Option.isSome_none]
      rw [ih]
      cases runMsgs ext cfg (deliver ext cfg w f m).1 rest with
      | some p => rfl
      | none => rfl
    | some e =>
      simp only [Option.isSome_some]
      exact steps_failed ext cfg rest _ base

/-- **The machine the driver runs implements `deliverTx`**: `begin`, the messages, `end` from a state with no open
transaction ends in the state `deliverTx` specifies, with no transaction open. -/
theorem steps_tx (ext : Ext) (cfg : Cfg) (w : World) (tx : Txn) :
    Chain.steps ext cfg { world := w, pending := none } tx.ops =
      { world := (deliverTx ext cfg w tx).1, pending := none } := by
  simp only [Txn.ops, List.cons_append, Chain.steps, Chain.step]
  rw [steps_open]
  simp only [deliverTx]
  cases runMsgs ext cfg w tx with
  | some p => rfl
  | none => rfl

/-- and so a whole chain of transactions, fed op by op, ends in the state `runTxs` specifies. -/
theorem steps_txs (ext : Ext) (cfg : Cfg) (txs : List Txn) :
    ∀ w : World, Chain.steps ext cfg { world := w, pending := none } (txs.flatMap Txn.ops) =
      { world := (runTxs ext cfg w txs).1, pending := none } := by
  have steps_append : ∀ (a b : List BOp) (c : Chain),
      Chain.steps ext cfg c (a ++ b) = Chain.steps ext cfg (Chain.steps ext cfg c a) b := by
    intro a
    induction a with
    | nil => intro b c; rfl
    | cons o rest ih => intro b c; simp only [List.cons_append, Chain.steps]; exact ih b _
  induction txs with
  | nil => intro w; simp [Chain.steps, runTxs]
  | cons tx rest ih =>
    intro w
    simp only [List.flatMap_cons, steps_append, steps_tx, runTxs]
    exact ih _

end Cctp
