import Cctp.Lemmas.Typed
import Cctp.Model.Genesis
/-
  The store after a batch of writes, key by key: the last write to a key wins.
-/
namespace Cctp

/-- the last write to key `k` in `ws` (`none` = no write names `k`). -/
def lastWrite (ws : List Store.Write) (k : Bytes) : Option (Option Val) :=
  match ws with
  | [] => none
  | w :: rest =>
    match lastWrite rest k with
    | some v => some v
    | none => if w.1 = k then some w.2 else none

theorem lastWrite_append (a b : List Store.Write) (k : Bytes) :
    lastWrite (a ++ b) k = (lastWrite b k).orElse (fun _ => lastWrite a k) := by
  induction a with
  | nil => simp only [List.nil_append, lastWrite]; cases lastWrite b k <;> rfl
  | cons w rest ih =>
    simp only [List.cons_append, lastWrite, ih]
    cases hb : lastWrite b k <;> simp [Option.orElse]

theorem get_applyAll (s : Store) (ws : List Store.Write) (k : Bytes) (hwf : s.WF) :
    (s.applyAll ws).get k = match lastWrite ws k with | some v => v | none => s.get k := by
  induction ws generalizing s with
  | nil => rfl
  | cons w rest ih =>
    simp only [Store.applyAll, List.foldl_cons]
    have := ih (s.apply w) (Store.wf_apply s w hwf)
    simp only [Store.applyAll] at this
    rw [this]
    simp only [lastWrite]
    cases hl : lastWrite rest k with
    | some v => rfl
    | none =>
      simp only [get_apply s w k hwf]
      by_cases e : k = w.1
      · simp [e]
      · have : ¬ w.1 = k := fun h => e h.symm
        simp [e, this]

/-- no write of the batch names `k`. -/
theorem lastWrite_none_of_forall {ws : List Store.Write} {k : Bytes} (h : ∀ w ∈ ws, w.1 ≠ k) : lastWrite ws k = none := by
  induction ws with
  | nil => rfl
  | cons w rest ih =>
    simp only [lastWrite, ih (fun w' hw' => h w' (List.mem_cons_of_mem _ hw'))]
    simp [h w List.mem_cons_self]

/-- a batch built from a list with pairwise distinct keys: the write of each element is the last one to its key. -/
theorem lastWrite_map_of_nodup {α} (l : List α) (key : α → Bytes) (val : α → Val) (e : α)
    (hnd : (l.map key).Nodup) (he : e ∈ l) :
    lastWrite (l.map fun x => (key x, some (val x))) (key e) = some (some (val e)) := by
  induction l with
  | nil => cases he
  | cons x rest ih =>
    simp only [List.map_cons, List.nodup_cons] at hnd
    obtain ⟨hx, hrest⟩ := hnd
    simp only [List.map_cons, lastWrite]
    rcases List.mem_cons.mp he with rfl | he'
    · -- e is the head: no later write has its key
      have : lastWrite (rest.map fun x => (key x, some (val x))) (key e) = none := by
        apply lastWrite_none_of_forall
        intro w hw
        obtain ⟨y, hy, rfl⟩ := List.mem_map.mp hw
        intro heq
        exact hx (List.mem_map.mpr ⟨y, hy, heq⟩)
      simp [this]
    · simp [ih hrest he']

theorem lastWrite_mem {ws : List Store.Write} {k : Bytes} {v : Option Val} (h : lastWrite ws k = some v) : (k, v) ∈ ws := by
  induction ws with
  | nil => simp [lastWrite] at h
  | cons w rest ih =>
    simp only [lastWrite] at h
    cases hl : lastWrite rest k with
    | some v' =>
      simp only [hl, Option.some.injEq] at h
      subst h; exact List.mem_cons_of_mem _ (ih hl)
    | none =>
      simp only [hl] at h
      by_cases e : w.1 = k
      · simp only [e, if_true, Option.some.injEq] at h
        subst h; subst e; exact List.mem_cons_self
      · simp [e] at h

/-- `noDup` (the map-based duplicate check of Validate) is exactly "no key occurs twice". -/
theorem noDup_iff (ks : List Bytes) : noDup ks = true ↔ ks.Nodup := by
  induction ks with
  | nil => simp [noDup]
  | cons k rest ih =>
    simp only [noDup, Bool.and_eq_true, Bool.not_eq_true', List.nodup_cons, ih]
    constructor
    · rintro ⟨h1, h2⟩; exact ⟨by simpa using h1, h2⟩
    · rintro ⟨h1, h2⟩; exact ⟨by simpa using h1, h2⟩

end Cctp
