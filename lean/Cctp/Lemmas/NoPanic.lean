import Cctp.Lemmas.Handlers
import Cctp.Lemmas.Typed
/-
  Panic analysis: where the model (hence the Go code it mirrors) can panic, and that it cannot elsewhere.
-/
namespace Cctp
open Gen

@[simp] theorem req_panic_iff (c : Prop) [Decidable c] : req c = .error .panic ↔ False := by
  simp [req_ne_panic]
@[simp] theorem getOr_panic_iff {α} (o : Option α) : getOr o = .error .panic ↔ False := by
  simp [getOr_ne_panic]
@[simp] theorem pure_panic_iff {α} (a : α) : (pure a : R α) = .error .panic ↔ False := by
  simp [pure_ne_panic]
@[simp] theorem reqAll_panic_iff {α} (o : Option α) (p : α → Prop) [DecidablePred p] :
    reqAll o p = .error .panic ↔ False := by simp [reqAll_ne_panic]
@[simp] theorem getMust_panic_iff {α} (o : Option α) : getMust o = .error .panic ↔ o = none := getMust_panic o
@[simp] theorem must_panic_iff (c : Prop) [Decidable c] : must c = .error .panic ↔ ¬ c := must_panic c
@[simp] theorem bind_panic_iff {α β} (x : R α) (f : α → R β) :
    (x >>= f) = .error .panic ↔ x = .error .panic ∨ ∃ a, x = .ok a ∧ f a = .error .panic := bind_panic x f
@[simp] theorem map_panic_iff {α β} (f : α → β) (x : R α) : (f <$> x) = .error .panic ↔ x = .error .panic := by
  cases x <;> simp [Functor.map, Except.map]
@[simp] theorem ok_ne_panic {α} (a : α) : (Except.ok a : R α) = .error .panic ↔ False := by simp

/-- the four role slots the handlers read with a panicking getter are set. -/
structure RolesSet (st : Store) : Prop where
  owner : (getRole st Key.owner).isSome
  attesterManager : (getRole st Key.attesterManager).isSome
  pauser : (getRole st Key.pauser).isSome
  tokenController : (getRole st Key.tokenController).isSome

theorem parse_ne_panic (bz : Bytes) : Message.parse bz ≠ .error .panic := by
  intro h; simp [Message.parse] at h

theorem burn_parse_ne_panic (bz : Bytes) : BurnMessage.parse bz ≠ .error .panic := by
  intro h; simp [BurnMessage.parse] at h

theorem message_bytes_ne_panic (m : Message) : m.bytes ≠ .error .panic := by
  intro h; simp [Message.bytes] at h

/-- `BurnMessage.Bytes` panics exactly on a nil amount or one of more than 256 bits (given the field sizes). -/
theorem burn_bytes_ne_panic (b : BurnMessage) (a : Int) (ha : b.amount = some a) (hlt : a.natAbs < 2 ^ 256) :
    b.bytes ≠ .error .panic := by
  intro h
  have e : (256:Nat) ^ AmountLen = 2 ^ 256 := by decide
  simp [BurnMessage.bytes, ha, e] at h
  omega

theorem sendCore_ne_panic (st : Store) (d : Nat) (r c s : Bytes) (n : Nat) (b : Bytes) :
    sendCore st d r c s n b ≠ .error .panic := by
  intro h
  simp only [sendCore, bind_panic_iff, req_panic_iff, reqAll_panic_iff, pure_panic_iff, false_or, or_false] at h
  obtain ⟨_, _, _, _, _, _, h⟩ := h
  rcases h with h | ⟨_, _, h⟩
  · exact message_bytes_ne_panic _ h
  · exact h

theorem verifyLoop_ne_panic (ext : Ext) (d att : Bytes) (attesters : List Bytes) (t fuel i : Nat) (prev : Option Bytes)
    (hb : 65 * (i + fuel) ≤ att.length) (hlen : att.length < 2 ^ 32) :
    verifyLoop ext d att attesters t fuel i prev ≠ .error .panic := by
  induction fuel generalizing i prev with
  | zero => simp [verifyLoop]
  | succ fuel ih =>
    intro h
    have hlo : u32 (i * SignatureLength) = 65 * i := by
      simp only [u32, SignatureLength]; rw [Nat.mod_eq_of_lt (by omega)]; omega
    have hhi : u32 (65 * i + SignatureLength) = 65 * i + 65 := by
      simp only [u32, SignatureLength]; rw [Nat.mod_eq_of_lt (by omega)]
    simp only [verifyLoop, hlo, hhi, bind_panic_iff, must_panic_iff, getOr_panic_iff, reqAll_panic_iff, req_panic_iff,
      false_or] at h
    rcases h with h | ⟨_, _, _, _, _, _, _, _, h⟩
    · omega
    · exact ih (i + 1) _ (by omega) h

theorem verify_ne_panic (ext : Ext) (msg att : Bytes) (attesters : List Bytes) (t : Nat) (hlen : att.length < 2 ^ 32) :
    verify ext msg att attesters t ≠ .error .panic := by
  intro h
  simp only [verify, bind_panic_iff, req_panic_iff, false_or, req_ok] at h
  obtain ⟨_, hl, _, _, h⟩ := h
  have hl' : att.length = 65 * t := hl
  exact verifyLoop_ne_panic ext _ att attesters t t 0 none (by omega) hlen h

end Cctp
