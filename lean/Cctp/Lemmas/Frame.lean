import Cctp.Props.C15
/-
  Frame reasoning by key class: a transaction leaves every key outside the classes of its documented
  write set untouched.  Run-level induction principles.
-/
namespace Cctp
open Cctp.Spec Gen

/-- the key classes (see `Key.cls`) a transaction type may write. -/
def docClasses : Msg → List Nat
  | .receiveMessage .. => [12]
  | .sendMessage .. | .sendMessageWithCaller .. | .depositForBurn .. | .depositForBurnWithCaller .. => [8]
  | .replaceMessage .. | .replaceDepositForBurn .. => []
  | .acceptOwner _ => [0, 1]
  | .updateOwner .. => [1]
  | .updateAttesterManager .. => [2]
  | .updateTokenController .. => [4]
  | .updatePauser .. => [3]
  | .updateMaxMessageBodySize .. => [7]
  | .addRemoteTokenMessenger .. | .removeRemoteTokenMessenger .. => [14]
  | .enableAttester .. | .disableAttester .. => [10]
  | .updateSignatureThreshold .. => [9]
  | .pauseBurning _ | .unpauseBurning _ => [5]
  | .pauseSending _ | .unpauseSending _ => [6]
  | .linkTokenPair .. | .unlinkTokenPair .. => [13]
  | .setMaxBurnAmountPerMessage .. => [11]

theorem documented_cls (ext : Ext) (m : Msg) : ∀ k ∈ documented ext m, Key.cls k ∈ docClasses m := by
  intro k hk
  cases m <;> simp only [documented, docClasses, List.mem_cons, List.mem_singleton, List.not_mem_nil, or_false] at hk ⊢
  all_goals first
    | (rcases hk with rfl | rfl <;> simp)
    | (subst hk; simp)
    | (split at hk <;> simp at hk; subst hk; simp)
    | exact absurd hk (by simp)

/-- every write of a successful handler call lies in the key classes of its transaction type
    (no hypothesis on the state: also the delete of UnlinkTokenPair stays in the token-pair class). -/
theorem handle_writes_cls (ext : Ext) (cfg : Cfg) (st : Store) (led : Ledger) (m : Msg) (o : Out)
    (h : handle ext cfg st led m = .ok o) : ∀ w ∈ o.writes, Key.cls w.1 ∈ docClasses m := by
  cases m with
  | acceptOwner f =>
    obtain ⟨owner, _, _, rfl⟩ := (acceptOwner_ok ..).mp h
    intro w hw; simp [C15.adminOut_writes] at hw; rcases hw with rfl | rfl <;> simp [docClasses]
  | addRemoteTokenMessenger f d a =>
    obtain ⟨_, _, _, rfl⟩ := (addRemoteTokenMessenger_ok ..).mp h
    intro w hw; simp [C15.adminOut_writes] at hw; subst hw; simp [docClasses]
  | depositForBurn f a d r t =>
    intro w hw; rw [C15.depositForBurn_writes h] at hw; simp at hw; subst hw; simp [docClasses]
  | depositForBurnWithCaller f a d r t c =>
    obtain ⟨_, _, h'⟩ := (depositForBurnWithCaller_ok ..).mp h
    intro w hw; rw [C15.depositForBurn_writes h'] at hw; simp at hw; subst hw; simp [docClasses]
  | disableAttester f a =>
    obtain ⟨_, _, _, _, t, _, _, rfl⟩ := (disableAttester_ok ..).mp h
    intro w hw; simp [C15.adminOut_writes] at hw; subst hw; simp [docClasses]
  | enableAttester f a =>
    obtain ⟨_, _, _, rfl⟩ := (enableAttester_ok ..).mp h
    intro w hw; simp [C15.adminOut_writes] at hw; subst hw; simp [docClasses]
  | linkTokenPair f d t l =>
    obtain ⟨_, _, _, rfl⟩ := (linkTokenPair_ok ..).mp h
    intro w hw; simp [C15.adminOut_writes] at hw; subst hw; simp [docClasses]
  | pauseBurning f =>
    obtain ⟨_, rfl⟩ := (setFlag_ok ..).mp h
    intro w hw; simp [C15.adminOut_writes] at hw; subst hw; simp [docClasses]
  | pauseSending f =>
    obtain ⟨_, rfl⟩ := (setFlag_ok ..).mp h
    intro w hw; simp [C15.adminOut_writes] at hw; subst hw; simp [docClasses]
  | receiveMessage f msg att =>
    obtain ⟨m, hp, hw'⟩ := C15.receiveMessage_writes h
    intro w hw; rw [hw'] at hw; simp at hw; subst hw; simp [docClasses]
  | removeRemoteTokenMessenger f d =>
    obtain ⟨_, mm, _, rfl⟩ := (removeRemoteTokenMessenger_ok ..).mp h
    intro w hw; simp [C15.adminOut_writes] at hw; subst hw; simp [docClasses]
  | replaceDepositForBurn f o' a c r =>
    intro w hw; rw [C15.replaceDepositForBurn_writes h] at hw; simp at hw
  | replaceMessage f o' a b c =>
    intro w hw; rw [C15.replaceMessage_writes h] at hw; simp at hw
  | sendMessage f d r b =>
    intro w hw; rw [C15.sendMessage_writes h] at hw; simp at hw; subst hw; simp [docClasses]
  | sendMessageWithCaller f d r b c =>
    intro w hw; rw [C15.sendMessageWithCaller_writes h] at hw; simp at hw; subst hw; simp [docClasses]
  | unlinkTokenPair f d t l =>
    obtain ⟨_, _, p, _, rfl⟩ := (unlinkTokenPair_ok ..).mp h
    intro w hw; simp [C15.adminOut_writes] at hw; subst hw; simp [docClasses]
  | unpauseBurning f =>
    obtain ⟨_, rfl⟩ := (setFlag_ok ..).mp h
    intro w hw; simp [C15.adminOut_writes] at hw; subst hw; simp [docClasses]
  | unpauseSending f =>
    obtain ⟨_, rfl⟩ := (setFlag_ok ..).mp h
    intro w hw; simp [C15.adminOut_writes] at hw; subst hw; simp [docClasses]
  | updateOwner f n =>
    obtain ⟨_, _, rfl⟩ := (updateOwner_ok ..).mp h
    intro w hw; simp [C15.adminOut_writes] at hw; subst hw; simp [docClasses]
  | updateAttesterManager f n =>
    obtain ⟨_, _, cur, _, rfl⟩ := (updateRole_ok ..).mp h
    intro w hw; simp [C15.adminOut_writes] at hw; subst hw; simp [docClasses]
  | updateTokenController f n =>
    obtain ⟨_, _, cur, _, rfl⟩ := (updateRole_ok ..).mp h
    intro w hw; simp [C15.adminOut_writes] at hw; subst hw; simp [docClasses]
  | updatePauser f n =>
    obtain ⟨_, _, cur, _, rfl⟩ := (updateRole_ok ..).mp h
    intro w hw; simp [C15.adminOut_writes] at hw; subst hw; simp [docClasses]
  | updateMaxMessageBodySize f s =>
    obtain ⟨_, rfl⟩ := (updateMaxMessageBodySize_ok ..).mp h
    intro w hw; simp [C15.adminOut_writes] at hw; subst hw; simp [docClasses]
  | setMaxBurnAmountPerMessage f l a =>
    obtain ⟨_, rfl⟩ := (setMaxBurnAmountPerMessage_ok ..).mp h
    intro w hw; simp [C15.adminOut_writes] at hw; subst hw; simp [docClasses]
  | updateSignatureThreshold f a =>
    obtain ⟨_, _, _, _, rfl⟩ := (updateSignatureThreshold_ok ..).mp h
    intro w hw; simp [C15.adminOut_writes] at hw; subst hw; simp [docClasses]

/-- keys of a class the transaction type does not write keep their value (even across `deliver`). -/
theorem get_deliver_of_cls (ext : Ext) (cfg : Cfg) (w : World) (faults : List Bool) (m : Msg)
    (k : Bytes) (h : Key.cls k ∉ docClasses m) :
    (deliver ext cfg w faults m).1.store.get k = w.store.get k := by
  unfold deliver
  split
  · rename_i o ho
    simp only
    apply Store.get_applyAll_other
    intro wr hwr e
    exact h (e ▸ handle_writes_cls ext cfg w.store _ m o ho wr hwr)
  · rfl

/-- run-level induction: a predicate on worlds preserved by every delivery holds after every history. -/
theorem run_inv (ext : Ext) (cfg : Cfg) (P : World → Prop)
    (hstep : ∀ w f m, P w → P (deliver ext cfg w f m).1) :
    ∀ (h : History) (w : World), P w → P (runState ext cfg w h) := by
  intro h
  induction h with
  | nil => intro w hw; exact hw
  | cons fm rest ih =>
    intro w hw
    obtain ⟨f, m⟩ := fm
    simp only [runState, run]
    exact ih _ (hstep w f m hw)

theorem runState_cons (ext : Ext) (cfg : Cfg) (w : World) (f : List Bool) (m : Msg) (rest : History) :
    runState ext cfg w ((f, m) :: rest) = runState ext cfg (deliver ext cfg w f m).1 rest := by
  simp [runState, run]

theorem run_results_cons (ext : Ext) (cfg : Cfg) (w : World) (f : List Bool) (m : Msg) (rest : History) :
    (run ext cfg w ((f, m) :: rest)).2 = (deliver ext cfg w f m).2 :: (run ext cfg (deliver ext cfg w f m).1 rest).2 := by
  simp [run]

end Cctp
