import Cctp.Spec.WriteSets
import Cctp.Lemmas.Handlers
import Cctp.Lemmas.Invariants
import Cctp.Model.Tx
import Cctp.Model.Queries
import Cctp.Model.Genesis
/-
  C15 — each transaction touches only the state it is documented to change.
-/
namespace Cctp.C15
open Cctp Cctp.Spec Gen

theorem adminOut_writes (led : Ledger) (ws : List Store.Write) (ev : Event) : (adminOut led ws ev).writes = ws := rfl

/-- the shared senders write exactly the counter. -/
theorem sendMessage_writes {ext st led f d r b o} (h : sendMessage ext st led f d r b = .ok o) :
    o.writes = [(Key.nextNonce, some (.nonce 0 (u64 (curNonce st + 1))))] := by
  obtain ⟨addr, ev, _, _, rfl⟩ := (sendMessage_ok ..).mp h
  simp [reserveNonce_write]

theorem sendMessageWithCaller_writes {ext st led f d r b c o} (h : sendMessageWithCaller ext st led f d r b c = .ok o) :
    o.writes = [(Key.nextNonce, some (.nonce 0 (u64 (curNonce st + 1))))] := by
  obtain ⟨addr, ev, _, _, _, _, rfl⟩ := (sendMessageWithCaller_ok ..).mp h
  simp [reserveNonce_write]

theorem innerSend_writes {ext cfg st led d r b c o} (h : innerSend ext cfg st led d r b c = .ok o) :
    o.writes = [(Key.nextNonce, some (.nonce 0 (u64 (curNonce st + 1))))] := by
  unfold innerSend at h
  split at h
  · exact sendMessage_writes h
  · exact sendMessageWithCaller_writes h

theorem depositForBurn_writes {ext cfg st led f a d r t c o} (h : depositForBurn ext cfg st led f a d r t c = .ok o) :
    o.writes = [(Key.nextNonce, some (.nonce 0 (u64 (curNonce st + 1))))] := by
  obtain ⟨addr, a', msgr, body, inner, _, _, _, _, _, _, _, _, _, _, _, _, hin, rfl⟩ := (depositForBurn_ok ..).mp h
  exact (innerSend_writes hin : inner.writes = _)

theorem replaceMessage_writes {ext st led f o' a b c o} (h : replaceMessage ext st led f o' a b c = .ok o) :
    o.writes = [] := by
  obtain ⟨_, t, m, addr, ev, _, _, _, _, _, _, _, rfl⟩ := (replaceMessage_ok ..).mp h
  rfl

theorem replaceDepositForBurn_writes {ext cfg st led f o' a c r o}
    (h : replaceDepositForBurn ext cfg st led f o' a c r = .ok o) : o.writes = [] := by
  obtain ⟨_, m, b, addr, nb, inner, _, _, _, _, _, _, hin, rfl⟩ := (replaceDepositForBurn_ok ..).mp h
  exact (replaceMessage_writes hin : inner.writes = _)

theorem receiveMessage_writes {ext cfg st led f msg att o} (h : receiveMessage ext cfg st led f msg att = .ok o) :
    ∃ m, Message.parse msg = .ok m ∧
      o.writes = [(Key.usedNonce m.sourceDomain m.nonce, some (.nonce m.sourceDomain m.nonce))] := by
  obtain ⟨_, _, t, m, mo, _, _, hp, _, _, _, _, _, rfl⟩ := (receiveMessage_ok ..).mp h
  exact ⟨m, hp, rfl⟩

/-- **Write-set confinement.**  Whatever a successful handler call writes or deletes lies in the
    documented write set of its transaction type, for every state, ledger and input. -/
theorem writes_within_documented (ext : Ext) (cfg : Cfg) (st : Store) (led : Ledger) (m : Msg) (o : Out)
    (hc : PairsConsistent ext st) (hk : TokenKeyInj ext) (h : handle ext cfg st led m = .ok o) :
    ∀ w ∈ o.writes, w.1 ∈ documented ext m := by
  cases m with
  | acceptOwner f =>
    obtain ⟨owner, _, _, rfl⟩ := (acceptOwner_ok ..).mp h
    intro w hw; simp [adminOut_writes] at hw; rcases hw with rfl | rfl <;> simp [documented]
  | addRemoteTokenMessenger f d a =>
    obtain ⟨_, _, _, rfl⟩ := (addRemoteTokenMessenger_ok ..).mp h
    intro w hw; simp [adminOut_writes] at hw; subst hw; simp [documented]
  | depositForBurn f a d r t =>
    intro w hw; rw [depositForBurn_writes h] at hw; simp at hw; subst hw; simp [documented]
  | depositForBurnWithCaller f a d r t c =>
    obtain ⟨_, _, h'⟩ := (depositForBurnWithCaller_ok ..).mp h
    intro w hw; rw [depositForBurn_writes h'] at hw; simp at hw; subst hw; simp [documented]
  | disableAttester f a =>
    obtain ⟨_, _, _, _, t, _, _, rfl⟩ := (disableAttester_ok ..).mp h
    intro w hw; simp [adminOut_writes] at hw; subst hw; simp [documented]
  | enableAttester f a =>
    obtain ⟨_, _, _, rfl⟩ := (enableAttester_ok ..).mp h
    intro w hw; simp [adminOut_writes] at hw; subst hw; simp [documented]
  | linkTokenPair f d t l =>
    obtain ⟨_, _, _, rfl⟩ := (linkTokenPair_ok ..).mp h
    intro w hw; simp [adminOut_writes] at hw; subst hw; simp [documented]
  | pauseBurning f =>
    obtain ⟨_, rfl⟩ := (setFlag_ok ..).mp h
    intro w hw; simp [adminOut_writes] at hw; subst hw; simp [documented]
  | pauseSending f =>
    obtain ⟨_, rfl⟩ := (setFlag_ok ..).mp h
    intro w hw; simp [adminOut_writes] at hw; subst hw; simp [documented]
  | receiveMessage f msg att =>
    obtain ⟨m, hp, hw'⟩ := receiveMessage_writes h
    intro w hw; rw [hw'] at hw; simp at hw; subst hw; simp [documented, hp]
  | removeRemoteTokenMessenger f d =>
    obtain ⟨_, mm, _, rfl⟩ := (removeRemoteTokenMessenger_ok ..).mp h
    intro w hw; simp [adminOut_writes] at hw; subst hw; simp [documented]
  | replaceDepositForBurn f o' a c r =>
    intro w hw; rw [replaceDepositForBurn_writes h] at hw; simp at hw
  | replaceMessage f o' a b c =>
    intro w hw; rw [replaceMessage_writes h] at hw; simp at hw
  | sendMessage f d r b =>
    intro w hw; rw [sendMessage_writes h] at hw; simp at hw; subst hw; simp [documented]
  | sendMessageWithCaller f d r b c =>
    intro w hw; rw [sendMessageWithCaller_writes h] at hw; simp at hw; subst hw; simp [documented]
  | unlinkTokenPair f d t l =>
    obtain ⟨_, _, ⟨pd, pt, pl⟩, hp, rfl⟩ := (unlinkTokenPair_ok ..).mp h
    intro w hw; simp [adminOut_writes] at hw; subst hw
    simp only [documented, List.mem_singleton]
    -- the deleted key is derived from the STORED pair; consistency makes it the named key
    unfold getPair at hp
    split at hp
    · rename_i d' t' l' hget
      simp only [Option.some.injEq, Prod.mk.injEq] at hp
      obtain ⟨rfl, rfl, rfl⟩ := hp
      have e := hc _ _ _ _ hget
      have : t = t' := hk _ _ _ _ e
      subst this; rfl
    · exact absurd hp (by simp)
  | unpauseBurning f =>
    obtain ⟨_, rfl⟩ := (setFlag_ok ..).mp h
    intro w hw; simp [adminOut_writes] at hw; subst hw; simp [documented]
  | unpauseSending f =>
    obtain ⟨_, rfl⟩ := (setFlag_ok ..).mp h
    intro w hw; simp [adminOut_writes] at hw; subst hw; simp [documented]
  | updateOwner f n =>
    obtain ⟨_, _, rfl⟩ := (updateOwner_ok ..).mp h
    intro w hw; simp [adminOut_writes] at hw; subst hw; simp [documented]
  | updateAttesterManager f n =>
    obtain ⟨_, _, cur, _, rfl⟩ := (updateRole_ok ..).mp h
    intro w hw; simp [adminOut_writes] at hw; subst hw; simp [documented]
  | updateTokenController f n =>
    obtain ⟨_, _, cur, _, rfl⟩ := (updateRole_ok ..).mp h
    intro w hw; simp [adminOut_writes] at hw; subst hw; simp [documented]
  | updatePauser f n =>
    obtain ⟨_, _, cur, _, rfl⟩ := (updateRole_ok ..).mp h
    intro w hw; simp [adminOut_writes] at hw; subst hw; simp [documented]
  | updateMaxMessageBodySize f s =>
    obtain ⟨_, rfl⟩ := (updateMaxMessageBodySize_ok ..).mp h
    intro w hw; simp [adminOut_writes] at hw; subst hw; simp [documented]
  | setMaxBurnAmountPerMessage f l a =>
    obtain ⟨_, rfl⟩ := (setMaxBurnAmountPerMessage_ok ..).mp h
    intro w hw; simp [adminOut_writes] at hw; subst hw; simp [documented]
  | updateSignatureThreshold f a =>
    obtain ⟨_, _, _, _, rfl⟩ := (updateSignatureThreshold_ok ..).mp h
    intro w hw; simp [adminOut_writes] at hw; subst hw; simp [documented]

/-- Replacements write nothing at all — handler level, not merely after a rollback. -/
theorem replacements_write_nothing (ext : Ext) (cfg : Cfg) (st : Store) (led : Ledger) (o : Out) :
    (∀ f o' a b c, handle ext cfg st led (.replaceMessage f o' a b c) = .ok o → o.writes = []) ∧
    (∀ f o' a c r, handle ext cfg st led (.replaceDepositForBurn f o' a c r) = .ok o → o.writes = []) :=
  ⟨fun _ _ _ _ _ h => replaceMessage_writes h, fun _ _ _ _ _ h => replaceDepositForBurn_writes h⟩

/-- A failed transaction commits nothing: store and ledger after `deliver` are the ones before. -/
theorem failed_tx_commits_nothing (ext : Ext) (cfg : Cfg) (w : World) (faults : List Bool) (m : Msg)
    (h : (deliver ext cfg w faults m).2.fail ≠ none) :
    (deliver ext cfg w faults m).1.store = w.store ∧
    (deliver ext cfg w faults m).1.ledger = { w.ledger with faults := [] } ∧
    (deliver ext cfg w faults m).2.events = [] ∧ (deliver ext cfg w faults m).2.writes = [] := by
  unfold deliver at h ⊢
  split
  · rename_i o ho; simp [ho] at h
  · simp

/-- The state after a transaction differs from the state before only inside the documented write set. -/
theorem untouched_outside_documented (ext : Ext) (cfg : Cfg) (w : World) (faults : List Bool) (m : Msg)
    (hc : PairsConsistent ext w.store) (hinj : TokenKeyInj ext) (k : Bytes) (hk : k ∉ documented ext m) :
    (deliver ext cfg w faults m).1.store.get k = w.store.get k := by
  unfold deliver
  split
  · rename_i o ho
    simp only
    apply Store.get_applyAll_other
    intro wr hwr e
    exact hk (e ▸ writes_within_documented ext cfg w.store _ m o hc hinj ho wr hwr)
  · rfl

/-- Queries and genesis export are functions of the store that return no store: they cannot write.
    (Stated as: their result type carries no state; recorded here so the claim is visible.) -/
theorem queries_and_export_are_pure (ext : Ext) (st : Store) (nilReq : Bool) (q : Query) :
    ∃ r : R QResp, query ext st nilReq q = r ∧ ∃ g : R Genesis, Genesis.exportG st = g := ⟨_, rfl, _, rfl⟩

/-! non-vacuity: a concrete successful pause writes exactly the burn flag, which is documented -/
example : ∃ o, handle ⟨id, fun _ _ => none, fun _ => none, fun _ => none, id, fun _ _ => false, fun _ => false, id⟩
      ⟨[], []⟩ [(Key.pauser, .role [1])] ⟨[], [], [], []⟩ (.pauseBurning [1]) = .ok o ∧
      o.writes = [(Key.burnPaused, some (.flag true))] :=
  ⟨_, rfl, rfl⟩

end Cctp.C15
