import Cctp.Spec.Toy
import Cctp.Lemmas.Shapes
import Cctp.Native.Keccak
/-
  C08 — deposits are accepted exactly under the documented preconditions.
-/
namespace Cctp.C08
open Cctp Cctp.Spec Gen

/-- the documented preconditions of a deposit (`caller = []` is the variant without destination caller). -/
structure Pre (ext : Ext) (cfg : Cfg) (st : Store) (led : Ledger) (f : Bytes) (amount : Option Int) (dest : Nat)
    (rcp tok caller : Bytes) : Prop where
  ex : ∃ addr a msgr,
    ext.accAddr f = some addr ∧                                   -- the depositor is a valid account
    amount = some a ∧ 0 < a ∧ a < 2 ^ 256 ∧                       -- strictly positive (and a 256-bit value)
    (∀ l, getLimit st (ext.toLower tok) = some l → a ≤ l) ∧       -- at most the per-message limit, if any
    ext.equalFold led.mintingDenom tok = true ∧ ext.validDenom tok = true ∧   -- the minting denom
    rcp.length = 32 ∧ rcp ≠ zeros 32 ∧                            -- a non-zero 32-byte mint recipient
    getMessenger st dest = some msgr ∧ msgr.2.length = 32 ∧ isZeros msgr.2 = false ∧   -- a non-zero messenger
    burnPaused st = false ∧ sendPaused st = false ∧               -- neither pause flag
    (∀ mx, getSize st = some mx → 132 ≤ mx) ∧                     -- the 132-byte body fits
    (ext.accAddr cfg.moduleStr).isSome ∧                          -- (the module address string parses)
    (led.transfer addr cfg.moduleAddr tok a).1 = true ∧           -- the depositor can pay
    ((led.transfer addr cfg.moduleAddr tok a).2.burn true cfg.moduleAddr tok a).1 = true ∧   -- the burn succeeds
    (caller.length = 0 ∨ (caller.length = 32 ∧ caller ≠ zeros 32))   -- with-caller: non-zero 32-byte caller

/-- Named fact about the external hash (true of Keccak-256, never an axiom): digests are 32 bytes. -/
def KeccakLen (ext : Ext) : Prop := ∀ b, (ext.keccak256 b).length = 32

theorem sendCore_succeeds (st : Store) (dest : Nat) (rcp caller sender : Bytes) (nonce : Nat) (body : Bytes)
    (hp : sendPaused st = false) (hsz : ∀ mx, getSize st = some mx → ¬ body.length > mx)
    (hr : rcp.length = 32) (hz : isZeros rcp = false) (hc : caller.length = 32) (hs : sender.length = 32) :
    ∃ ev, sendCore st dest rcp caller sender nonce body = .ok ev := by
  refine ⟨_, (sendCore_ok ..).mpr ⟨hp, hsz, ?_, _, C16.bytes_eq_spec _ hs hr hc, rfl⟩⟩
  intro h; rcases h with h | h
  · omega
  · rw [hz] at h; cases h

/-- **A deposit succeeds exactly when the preconditions hold.** -/
theorem deposit_ok_iff (ext : Ext) (cfg : Cfg) (st : Store) (led : Ledger) (f : Bytes) (amount : Option Int) (dest : Nat)
    (rcp tok caller : Bytes) (hk : KeccakLen ext) :
    (∃ o, depositForBurn ext cfg st led f amount dest rcp tok caller = .ok o) ↔
      Pre ext cfg st led f amount dest rcp tok caller := by
  constructor
  · rintro ⟨o, h⟩
    obtain ⟨addr, maddr, a, msgr, bz, body, h1, h2, h3, h4, h5, h6, h7, h8, h9, h10, h11, h12, h13, h14, h15, h16, h17, h18, h19, _⟩ :=
      (deposit_shape h).ex
    exact ⟨addr, a, msgr, h1, h3, h4, h5, h15, h11, h12, h6, h7, h8, h9, h10, h13, h14, h16, by simp [h2], h18, h19, h17⟩
  · rintro ⟨addr, a, msgr, h1, h3, h4, h5, h15, h11, h12, h6, h7, h8, h9, h10, h13, h14, h16, h2, h18, h19, h17⟩
    obtain ⟨maddr, hma⟩ := Option.isSome_iff_exists.mp h2
    -- the burn body serialises: three 32-byte fields and a 256-bit amount
    have hnat : a.natAbs < 2 ^ 256 := by omega
    have hb := C16.burn_bytes_eq_spec ⟨MessageBodyVersion, ext.keccak256 (ext.toLower tok), rcp, some a, pad12 addr⟩ a rfl hnat
      (hk _) h6 (pad12_length _)
    have hblen : (encodeBurn (ofModel ⟨MessageBodyVersion, ext.keccak256 (ext.toLower tok), rcp, some a, pad12 addr⟩)).length = 132 := by
      have := hk (ext.toLower tok)
      simp [encodeBurn, ofModel, this, h6, pad12_length]
    have hsz : ∀ mx, getSize st = some mx →
        ¬ (encodeBurn (ofModel ⟨MessageBodyVersion, ext.keccak256 (ext.toLower tok), rcp, some a, pad12 addr⟩)).length > mx := by
      intro mx hmx; have := h16 mx hmx; omega
    have hin : ∃ inner, innerSend ext cfg st ((led.transfer addr cfg.moduleAddr tok a).2.burn true cfg.moduleAddr tok a).2 dest msgr.2
        (encodeBurn (ofModel ⟨MessageBodyVersion, ext.keccak256 (ext.toLower tok), rcp, some a, pad12 addr⟩)) caller = .ok inner := by
      unfold innerSend
      rcases h17 with hc | ⟨hc1, hc2⟩
      · rw [if_pos hc]
        obtain ⟨ev, hev⟩ := sendCore_succeeds st dest msgr.2 (zeros DestinationCallerLen) (pad12 maddr) (curNonce st) _ h14 hsz h9 h10
          (by simp [DestinationCallerLen]) (pad12_length _)
        exact ⟨_, (sendMessage_ok ..).mpr ⟨maddr, ev, hma, hev, rfl⟩⟩
      · have hne : ¬ caller.length = 0 := by omega
        rw [if_neg hne]
        obtain ⟨ev, hev⟩ := sendCore_succeeds st dest msgr.2 caller (pad12 maddr) (curNonce st) _ h14 hsz h9 h10 hc1 (pad12_length _)
        exact ⟨_, (sendMessageWithCaller_ok ..).mpr ⟨maddr, ev, hma, by simpa [DestinationCallerLen] using hc1,
          by simpa [DestinationCallerLen] using hc2, hev, rfl⟩⟩
    obtain ⟨inner, hinner⟩ := hin
    exact ⟨_, (depositForBurn_ok ..).mpr ⟨addr, a, msgr, _, inner, h1, h3, h4, by simpa [MintRecipientLen] using h7, h8, h11, h13,
      fun l hl => by have := h15 l hl; omega, h12, h18, h19, hb, hinner, rfl⟩⟩

/-- the with-caller transaction type additionally requires a destination caller to be given. -/
theorem deposit_with_caller_ok_iff (ext : Ext) (cfg : Cfg) (st : Store) (led : Ledger) (f : Bytes) (amount : Option Int)
    (dest : Nat) (rcp tok caller : Bytes) (hk : KeccakLen ext) :
    (∃ o, handle ext cfg st led (.depositForBurnWithCaller f amount dest rcp tok caller) = .ok o) ↔
      caller.length = 32 ∧ caller ≠ zeros 32 ∧ Pre ext cfg st led f amount dest rcp tok caller := by
  constructor
  · rintro ⟨o, h⟩
    obtain ⟨h1, h2, h3⟩ := (depositForBurnWithCaller_ok ..).mp h
    have hp := (deposit_ok_iff ext cfg st led f amount dest rcp tok caller hk).mp ⟨o, h3⟩
    obtain ⟨addr, a, msgr, _, _, _, _, _, _, _, _, _, _, _, _, _, _, _, _, _, _, hc⟩ := hp.ex
    rcases hc with hc | ⟨hc1, hc2⟩
    · exact absurd hc h1
    · exact ⟨hc1, hc2, hp⟩
  · rintro ⟨h1, h2, hp⟩
    obtain ⟨o, ho⟩ := (deposit_ok_iff ext cfg st led f amount dest rcp tok caller hk).mpr hp
    exact ⟨o, (depositForBurnWithCaller_ok ..).mpr ⟨by omega, by simpa [DestinationCallerLen] using h2, ho⟩⟩

/-- **amount = limit is accepted and amount = limit + 1 is rejected, for every limit**: the limit clause of
    the preconditions is `a ≤ l`, nothing else. -/
theorem limit_inclusive (l : Int) : (l ≤ l) ∧ ¬ (l + 1 ≤ l) := ⟨Int.le_refl l, by omega⟩

theorem limit_plus_one_rejected (ext : Ext) (cfg : Cfg) (st : Store) (led : Ledger) (f : Bytes) (dest : Nat)
    (rcp tok caller : Bytes) (l : Int) (hl : getLimit st (ext.toLower tok) = some l) :
    ∀ o, depositForBurn ext cfg st led f (some (l + 1)) dest rcp tok caller ≠ .ok o := by
  intro o h
  obtain ⟨_, _, a, _, _, _, _, _, ha, _, _, _, _, _, _, _, _, _, _, _, hlim, _⟩ := (deposit_shape h).ex
  cases ha
  have := hlim l hl
  omega

/-- the limit is looked up under the LOWER-CASED token, whatever spelling the request uses. -/
theorem limit_lookup_lowercased (ext : Ext) (cfg : Cfg) (st : Store) (led : Ledger) (f : Bytes) (a : Int) (dest : Nat)
    (rcp tok caller : Bytes) (o : Out) (h : depositForBurn ext cfg st led f (some a) dest rcp tok caller = .ok o) :
    ∀ l, getLimit st (ext.toLower tok) = some l → a ≤ l := by
  obtain ⟨_, _, a', _, _, _, _, _, ha, _, _, _, _, _, _, _, _, _, _, _, hlim, _⟩ := (deposit_shape h).ex
  cases ha; exact hlim

/-- an absent amount, zero and negative amounts are rejected (with an error, see C20 for "not a panic"). -/
theorem nonpositive_rejected (ext : Ext) (cfg : Cfg) (st : Store) (led : Ledger) (f : Bytes) (amount : Option Int) (dest : Nat)
    (rcp tok caller : Bytes) (h : amount = none ∨ ∃ a, amount = some a ∧ a ≤ 0) :
    ∀ o, depositForBurn ext cfg st led f amount dest rcp tok caller ≠ .ok o := by
  intro o ho
  obtain ⟨_, _, a, _, _, _, _, _, ha, hpos, _⟩ := (deposit_shape ho).ex
  rcases h with h | ⟨a', h, hle⟩
  · rw [h] at ha; cases ha
  · rw [h] at ha; cases ha; omega

/-- body size boundary: a maximum body size of exactly 132 admits deposits, 131 does not. -/
theorem body_size_boundary : (132 ≤ 132) ∧ ¬ (132 ≤ 131) := by decide

/-! non-vacuity: the toy hash has 32-byte digests, a concrete deposit satisfies every precondition, and the same deposit
    over the configured limit (100) or with a failing bank does not -/
theorem toy_keccakLen : KeccakLen Toy.ext := by
  intro b; simp [Toy.ext, zeros]
example : Pre Toy.ext Toy.cfg Toy.st Toy.led Toy.alice (some 5) 0 (List.replicate 32 9) Toy.denom [] :=
  (deposit_ok_iff Toy.ext Toy.cfg Toy.st Toy.led Toy.alice (some 5) 0 (List.replicate 32 9) Toy.denom [] toy_keccakLen).mp
    ((Toy.isOk_iff _).mp (by decide +kernel))
example : ¬ Pre Toy.ext Toy.cfg Toy.st Toy.led Toy.alice (some 101) 0 (List.replicate 32 9) Toy.denom [] := fun h =>
  absurd ((Toy.isOk_iff _).mpr ((deposit_ok_iff _ _ _ _ _ _ _ _ _ _ toy_keccakLen).mpr h)) (by decide +kernel)
example : Pre Toy.ext Toy.cfg Toy.st Toy.led Toy.alice (some 100) 0 (List.replicate 32 9) Toy.denom [] :=
  (deposit_ok_iff _ _ _ _ _ _ _ _ _ _ toy_keccakLen).mp ((Toy.isOk_iff _).mp (by decide +kernel))

/-- the hypothesis `KeccakLen` is discharged for the executable instance the correspondence check runs: whatever the
    other external functions are, an `Ext` whose hash is the model's own Keccak-256 has 32-byte digests. -/
theorem native_keccakLen (ext : Ext) (h : ext.keccak256 = Native.keccak256) : KeccakLen ext := by
  intro b; rw [h]; exact Native.keccak256_length b

/-- … so for that instance the "exactly when" holds with no hypothesis about the hash left. -/
theorem deposit_ok_iff_native (ext : Ext) (hnat : ext.keccak256 = Native.keccak256) (cfg : Cfg) (st : Store) (led : Ledger)
    (f : Bytes) (amount : Option Int) (dest : Nat) (rcp tok caller : Bytes) :
    (∃ o, depositForBurn ext cfg st led f amount dest rcp tok caller = .ok o) ↔
      Pre ext cfg st led f amount dest rcp tok caller :=
  deposit_ok_iff ext cfg st led f amount dest rcp tok caller (native_keccakLen ext hnat)

end Cctp.C08
