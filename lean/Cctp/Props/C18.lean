import Cctp.Spec.Toy
import Cctp.Props.C17
/-
  C18 — execution is deterministic and depends only on chain state.   (PARTIAL, level "other")
  What a theorem can carry: the model is a FUNCTION of (genesis, history), so every replay that agrees with
  the model agrees with every other replay; the store after InitGenesis does not depend on the order of the
  genesis lists; writes to distinct keys commute; and the regenerated static scan finds no source of
  nondeterminism in the module's own code.  What only the runtime can show (Go map order, goroutine
  scheduling, memory retained outside the store through aliasing) is explored by the harness: the same
  history replayed on a fresh instance, after an unrelated history in the same process, and concurrently
  on several goroutines must give byte-identical app hashes, responses and events.
-/
namespace Cctp.C18
open Cctp Gen Genesis

/-- two sorted stores that answer every lookup alike are the same list (hence the same iteration order,
    the same exported genesis, the same root hash input). -/
theorem store_ext {s1 s2 : Store} (h1 : s1.WF) (h2 : s2.WF) (h : ∀ k, s1.get k = s2.get k) : s1 = s2 :=
  Store.ext_of_get h1 h2 h

/-- writes to distinct keys commute. -/
theorem set_commute (s : Store) (hs : s.WF) (k1 k2 : Bytes) (v1 v2 : Val) (hne : k1 ≠ k2) :
    (s.set k1 v1).set k2 v2 = (s.set k2 v2).set k1 v1 := by
  apply store_ext (Store.wf_set _ _ _ (Store.wf_set _ _ _ hs)) (Store.wf_set _ _ _ (Store.wf_set _ _ _ hs))
  intro k
  by_cases e1 : k = k1
  · subst e1
    rw [Store.get_set_other _ _ _ _ hne, Store.get_set_same, Store.get_set_same]
  · by_cases e2 : k = k2
    · subst e2
      rw [Store.get_set_same, Store.get_set_other _ _ _ _ e1, Store.get_set_same]
    · rw [Store.get_set_other _ _ _ _ e2, Store.get_set_other _ _ _ _ e1, Store.get_set_other _ _ _ _ e1,
        Store.get_set_other _ _ _ _ e2]

/-- a batch of writes with pairwise distinct keys can be applied in any order. -/
theorem lastWrite_perm {α} (l1 l2 : List α) (key : α → Bytes) (val : α → Val) (hp : l1.Perm l2) (hnd : (l1.map key).Nodup) (k : Bytes) :
    lastWrite (l1.map fun x => (key x, some (val x))) k = lastWrite (l2.map fun x => (key x, some (val x))) k := by
  have hnd2 : (l2.map key).Nodup := (hp.map key).nodup_iff.mp hnd
  by_cases hex : ∃ e ∈ l1, key e = k
  · obtain ⟨e, he, rfl⟩ := hex
    rw [lastWrite_map_of_nodup l1 key val e hnd he, lastWrite_map_of_nodup l2 key val e hnd2 (hp.mem_iff.mp he)]
  · have n1 : lastWrite (l1.map fun x => (key x, some (val x))) k = none := by
      apply lastWrite_none_of_forall
      intro w hw hk
      obtain ⟨x, hx, rfl⟩ := List.mem_map.mp hw
      exact hex ⟨x, hx, hk⟩
    have n2 : lastWrite (l2.map fun x => (key x, some (val x))) k = none := by
      apply lastWrite_none_of_forall
      intro w hw hk
      obtain ⟨x, hx, rfl⟩ := List.mem_map.mp hw
      exact hex ⟨x, hp.mem_iff.mpr hx, hk⟩
    rw [n1, n2]

/-- **The store after InitGenesis does not depend on the order of the genesis lists**: two validated genesis
    states that differ only by a reordering of their five keyed lists initialise to the same store. -/
theorem init_order_independent (ext : Ext) (g1 g2 : Genesis) (st1 st2 : Store)
    (hv : g1.validate ext = true)
    (hr : g1.owner = g2.owner ∧ g1.attesterManager = g2.attesterManager ∧ g1.pauser = g2.pauser ∧ g1.tokenController = g2.tokenController)
    (hsc : g1.burnPaused = g2.burnPaused ∧ g1.sendPaused = g2.sendPaused ∧ g1.maxBody = g2.maxBody ∧ g1.nextNonce = g2.nextNonce ∧
           g1.threshold = g2.threshold)
    (hl : g1.attesters.Perm g2.attesters ∧ g1.limits.Perm g2.limits ∧ g1.pairs.Perm g2.pairs ∧ g1.used.Perm g2.used ∧
          g1.messengers.Perm g2.messengers)
    (h1 : Genesis.init ext [] g1 = .ok st1) (h2 : Genesis.init ext [] g2 = .ok st2) : st1 = st2 := by
  obtain ⟨n1, n2, n3, n4, n5, _, _⟩ := C17.validate_rejects_collisions ext g1 hv
  apply store_ext (C17.good_init ext g1 st1 h1).wf (C17.good_init ext g2 st2 h2).wf
  intro k
  rw [C17.get_init ext g1 st1 h1, C17.get_init ext g2 st2 h2, C17.lastWrite_init, C17.lastWrite_init]
  have e0 : C17.segRoles g1 = C17.segRoles g2 := by simp [C17.segRoles, hr.1, hr.2.1, hr.2.2.1, hr.2.2.2]
  have e3 : C17.segScalars g1 = C17.segScalars g2 := by
    simp [C17.segScalars, hsc.1, hsc.2.1, hsc.2.2.1, hsc.2.2.2.1, hsc.2.2.2.2]
  have e1 := lastWrite_perm g1.attesters g2.attesters Key.attester Val.attester hl.1 n1 k
  have e2 := lastWrite_perm g1.limits g2.limits (fun l => Key.limit l.1) (fun l => Val.limit l.1 l.2) hl.2.1 n2 k
  have e4 := lastWrite_perm g1.pairs g2.pairs (fun p => Key.tokenPair ext p.1 p.2.1) (fun p => Val.pair p.1 p.2.1 p.2.2) hl.2.2.1 n3 k
  have e5 := lastWrite_perm g1.used g2.used (fun u => Key.usedNonce u.1 u.2) (fun u => Val.nonce u.1 u.2) hl.2.2.2.1 n4 k
  have e6 := lastWrite_perm g1.messengers g2.messengers (fun m => Key.messenger m.1) (fun m => Val.messenger m.1 m.2) hl.2.2.2.2 n5 k
  simp only [C17.segAtt, C17.segLim, C17.segPairs, C17.segUsed, C17.segMsgr] at *
  rw [e0, e1, e2, e3, e4, e5, e6]


/-- the model is a function: the result of a history is determined by the starting world and the history. -/
theorem replay_deterministic (ext : Ext) (cfg : Cfg) (w1 w2 : World) (h1 h2 : History) (hw : w1 = w2) (hh : h1 = h2) :
    run ext cfg w1 h1 = run ext cfg w2 h2 := by subst hw; subst hh; rfl

/-! ### discarded branches: simulations, CheckTx, messages of a transaction that fails later -/

/-- a step of a node's life: a transaction that is delivered (and committed iff it succeeds), or one that is run on a
    branch which is thrown away whatever the outcome. -/
inductive Step where
  | deliver (faults : List Bool) (m : Msg)
  | simulate (faults : List Bool) (m : Msg)

/-- what a simulation reports: the outcome the delivery would have. -/
def simulate (ext : Ext) (cfg : Cfg) (w : World) (f : List Bool) (m : Msg) : TxResult := (deliver ext cfg w f m).2

def stepWorld (ext : Ext) (cfg : Cfg) (w : World) : Step → World
  | .deliver f m => (deliver ext cfg w f m).1
  | .simulate _ _ => w

def delivered : List Step → History
  | [] => []
  | .deliver f m :: rest => (f, m) :: delivered rest
  | .simulate _ _ :: rest => delivered rest

/-- **No result depends on what was merely simulated**: the state after any interleaving of deliveries and discarded
    runs is the state after the deliveries alone — so every later response, event and query answer is too. -/
theorem simulations_leave_no_trace (ext : Ext) (cfg : Cfg) (steps : List Step) (w : World) :
    steps.foldl (stepWorld ext cfg) w = runState ext cfg w (delivered steps) := by
  induction steps generalizing w with
  | nil => rfl
  | cons s rest ih =>
    cases s with
    | deliver f m => simp only [List.foldl_cons, stepWorld, delivered, runState_cons]; exact ih _
    | simulate f m => simp only [List.foldl_cons, stepWorld, delivered]; exact ih _

/-- … and a simulation predicts the delivery that follows it exactly. -/
theorem simulation_predicts (ext : Ext) (cfg : Cfg) (w : World) (f : List Bool) (m : Msg) :
    simulate ext cfg w f m = (deliver ext cfg (stepWorld ext cfg w (.simulate f m)) f m).2 := rfl

/-! non-vacuity: a concrete interleaving -- a simulated receive, the same receive delivered, a simulated deposit that is
    never delivered -- ends in the state of the one delivery alone -/
example : [Step.simulate [] Toy.receive, .deliver [] Toy.receive, .simulate [] Toy.deposit].foldl (stepWorld Toy.ext Toy.cfg) Toy.world =
    (deliver Toy.ext Toy.cfg Toy.world [] Toy.receive).1 := by
  rw [simulations_leave_no_trace]
  simp only [delivered, runState, run]

end Cctp.C18
