import Cctp.Lemmas.Batch
import Cctp.Spec.Toy
import Cctp.Lemmas.LastWrite
import Cctp.Lemmas.NoPanic
/-
  C17 — genesis import/export preserves state; validation rejects ambiguity.
-/
namespace Cctp.C17
open Cctp Gen Genesis

/-- **Validation rejects any genesis in which two entries of a keyed list would occupy the same key**
    (for all five lists — the token-pair check consulted the wrong index map before the fix recorded in
    known_findings.jsonl), and requires both pause flags. -/
theorem validate_rejects_collisions (ext : Ext) (g : Genesis) (h : g.validate ext = true) :
    (g.attesters.map Key.attester).Nodup ∧ (g.limits.map fun l => Key.limit l.1).Nodup ∧
    (g.pairs.map fun p => Key.tokenPair ext p.1 p.2.1).Nodup ∧ (g.used.map fun u => Key.usedNonce u.1 u.2).Nodup ∧
    (g.messengers.map fun m => Key.messenger m.1).Nodup ∧ g.burnPaused.isSome ∧ g.sendPaused.isSome := by
  simp only [validate, Bool.and_eq_true, noDup_iff] at h
  obtain ⟨⟨⟨⟨⟨⟨⟨⟨⟨⟨⟨_, _⟩, _⟩, _⟩, h1⟩, h2⟩, h3⟩, h4⟩, _⟩, h5⟩, h6⟩, h7⟩ := h
  exact ⟨h1, h2, h5, h6, h7, h3, h4⟩

/-- validation also rejects token pairs whose remote token is not 32 bytes (such a pair would be stored under
    a key that no query and no receive can derive — see known_findings.jsonl, fixed). -/
theorem validate_token_lengths (ext : Ext) (g : Genesis) (h : g.validate ext = true) :
    ∀ p ∈ g.pairs, p.2.1.length = 32 := by
  simp only [validate, Bool.and_eq_true, List.all_eq_true, decide_eq_true_eq] at h
  obtain ⟨⟨⟨⟨_, h8⟩, _⟩, _⟩, _⟩ := h
  exact h8

/-! ### the store after InitGenesis, key by key -/

def segRoles (g : Genesis) : List Store.Write :=
  [ (Key.owner, some (.role g.owner)), (Key.attesterManager, some (.role g.attesterManager)),
    (Key.pauser, some (.role g.pauser)), (Key.tokenController, some (.role g.tokenController)) ]
def segAtt (g : Genesis) : List Store.Write := g.attesters.map fun a => (Key.attester a, some (.attester a))
def segLim (g : Genesis) : List Store.Write := g.limits.map fun l => (Key.limit l.1, some (.limit l.1 l.2))
def segScalars (g : Genesis) : List Store.Write :=
  [ (Key.burnPaused, some (.flag (g.burnPaused.getD true))), (Key.sendPaused, some (.flag (g.sendPaused.getD true))),
    (Key.maxBody, some (.size (g.maxBody.getD 8000))),
    (Key.nextNonce, some (nonceVal g.nextNonce)),
    (Key.threshold, some (.threshold (g.threshold.getD 1))) ]
def segPairs (ext : Ext) (g : Genesis) : List Store.Write :=
  g.pairs.map fun p => (Key.tokenPair ext p.1 p.2.1, some (.pair p.1 p.2.1 p.2.2))
def segUsed (g : Genesis) : List Store.Write := g.used.map fun u => (Key.usedNonce u.1 u.2, some (.nonce u.1 u.2))
def segMsgr (g : Genesis) : List Store.Write := g.messengers.map fun m => (Key.messenger m.1, some (.messenger m.1 m.2))

theorem initWrites_eq (ext : Ext) (g : Genesis) :
    initWrites ext g = segRoles g ++ (segAtt g ++ (segLim g ++ (segScalars g ++ (segPairs ext g ++ (segUsed g ++ segMsgr g))))) := by
  simp [initWrites, segRoles, segAtt, segLim, segScalars, segPairs, segUsed, segMsgr, List.append_assoc]

theorem init_store (ext : Ext) (g : Genesis) (st : Store) (h : Genesis.init ext [] g = .ok st) :
    st = Store.applyAll [] (initWrites ext g) ∧ g.threshold ≠ some 0 := by
  simp only [Genesis.init, bind_ok, must_ok, pure_ok] at h
  obtain ⟨_, h1, h2⟩ := h
  exact ⟨h2.symm, h1⟩

/-- classes of the keys each segment writes. -/
theorem seg_cls (ext : Ext) (g : Genesis) :
    (∀ w ∈ segRoles g, Key.cls w.1 ≤ 4) ∧ (∀ w ∈ segAtt g, Key.cls w.1 = 10) ∧ (∀ w ∈ segLim g, Key.cls w.1 = 11) ∧
    (∀ w ∈ segScalars g, 5 ≤ Key.cls w.1 ∧ Key.cls w.1 ≤ 9) ∧ (∀ w ∈ segPairs ext g, Key.cls w.1 = 13) ∧
    (∀ w ∈ segUsed g, Key.cls w.1 = 12) ∧ (∀ w ∈ segMsgr g, Key.cls w.1 = 14) := by
  refine ⟨?_, ?_, ?_, ?_, ?_, ?_, ?_⟩
  · intro w hw; simp [segRoles] at hw; rcases hw with rfl | rfl | rfl | rfl <;> simp
  · intro w hw; simp only [segAtt, List.mem_map] at hw; obtain ⟨a, _, rfl⟩ := hw; simp
  · intro w hw; simp only [segLim, List.mem_map] at hw; obtain ⟨a, _, rfl⟩ := hw; simp
  · intro w hw; simp [segScalars] at hw; rcases hw with rfl | rfl | rfl | rfl | rfl <;> simp
  · intro w hw; simp only [segPairs, List.mem_map] at hw; obtain ⟨a, _, rfl⟩ := hw; simp
  · intro w hw; simp only [segUsed, List.mem_map] at hw; obtain ⟨a, _, rfl⟩ := hw; simp
  · intro w hw; simp only [segMsgr, List.mem_map] at hw; obtain ⟨a, _, rfl⟩ := hw; simp

theorem lastWrite_other_cls {seg : List Store.Write} {k : Bytes} (h : ∀ w ∈ seg, Key.cls w.1 ≠ Key.cls k) :
    lastWrite seg k = none :=
  lastWrite_none_of_forall (fun w hw e => h w hw (by rw [e]))

/-- the last write of InitGenesis to a key of class `c` is the last write of the segment of that class. -/
theorem lastWrite_init (ext : Ext) (g : Genesis) (k : Bytes) :
    lastWrite (initWrites ext g) k =
      if Key.cls k ≤ 4 then lastWrite (segRoles g) k
      else if Key.cls k = 10 then lastWrite (segAtt g) k
      else if Key.cls k = 11 then lastWrite (segLim g) k
      else if 5 ≤ Key.cls k ∧ Key.cls k ≤ 9 then lastWrite (segScalars g) k
      else if Key.cls k = 13 then lastWrite (segPairs ext g) k
      else if Key.cls k = 12 then lastWrite (segUsed g) k
      else if Key.cls k = 14 then lastWrite (segMsgr g) k
      else none := by
  obtain ⟨c0, c1, c2, c3, c4, c5, c6⟩ := seg_cls ext g
  rw [initWrites_eq]
  simp only [lastWrite_append]
  have n0 : ¬ Key.cls k ≤ 4 → lastWrite (segRoles g) k = none := fun h => lastWrite_other_cls (fun w hw e => h (e ▸ c0 w hw))
  have n1 : Key.cls k ≠ 10 → lastWrite (segAtt g) k = none := fun h => lastWrite_other_cls (fun w hw e => h (e ▸ c1 w hw))
  have n2 : Key.cls k ≠ 11 → lastWrite (segLim g) k = none := fun h => lastWrite_other_cls (fun w hw e => h (e ▸ c2 w hw))
  have n3 : ¬ (5 ≤ Key.cls k ∧ Key.cls k ≤ 9) → lastWrite (segScalars g) k = none :=
    fun h => lastWrite_other_cls (fun w hw e => h (e ▸ c3 w hw))
  have n4 : Key.cls k ≠ 13 → lastWrite (segPairs ext g) k = none := fun h => lastWrite_other_cls (fun w hw e => h (e ▸ c4 w hw))
  have n5 : Key.cls k ≠ 12 → lastWrite (segUsed g) k = none := fun h => lastWrite_other_cls (fun w hw e => h (e ▸ c5 w hw))
  have n6 : Key.cls k ≠ 14 → lastWrite (segMsgr g) k = none := fun h => lastWrite_other_cls (fun w hw e => h (e ▸ c6 w hw))
  by_cases h0 : Key.cls k ≤ 4
  · rw [if_pos h0, n1 (by omega), n2 (by omega), n3 (by omega), n4 (by omega), n5 (by omega), n6 (by omega)]; simp [Option.orElse]
  · rw [if_neg h0, n0 h0]
    by_cases h1 : Key.cls k = 10
    · rw [if_pos h1, n2 (by omega), n3 (by omega), n4 (by omega), n5 (by omega), n6 (by omega)]; simp [Option.orElse]; cases lastWrite (segAtt g) k <;> rfl
    · rw [if_neg h1, n1 h1]
      by_cases h2 : Key.cls k = 11
      · rw [if_pos h2, n3 (by omega), n4 (by omega), n5 (by omega), n6 (by omega)]; simp [Option.orElse]; cases lastWrite (segLim g) k <;> rfl
      · rw [if_neg h2, n2 h2]
        by_cases h3 : 5 ≤ Key.cls k ∧ Key.cls k ≤ 9
        · rw [if_pos h3, n4 (by omega), n5 (by omega), n6 (by omega)]; simp [Option.orElse]; cases lastWrite (segScalars g) k <;> rfl
        · rw [if_neg h3, n3 h3]
          by_cases h4 : Key.cls k = 13
          · rw [if_pos h4, n5 (by omega), n6 (by omega)]; simp [Option.orElse]; cases lastWrite (segPairs ext g) k <;> rfl
          · rw [if_neg h4, n4 h4]
            by_cases h5 : Key.cls k = 12
            · rw [if_pos h5, n6 (by omega)]; simp [Option.orElse]; cases lastWrite (segUsed g) k <;> rfl
            · rw [if_neg h5, n5 h5]
              by_cases h6 : Key.cls k = 14
              · rw [if_pos h6]; simp [Option.orElse]; cases lastWrite (segMsgr g) k <;> rfl
              · rw [if_neg h6, n6 h6]; rfl

theorem get_init (ext : Ext) (g : Genesis) (st : Store) (h : Genesis.init ext [] g = .ok st) (k : Bytes) :
    st.get k = (lastWrite (initWrites ext g) k).getD none := by
  rw [(init_store ext g st h).1, get_applyAll _ _ _ Store.wf_nil]
  cases lastWrite (initWrites ext g) k <;> rfl


/-- every entry of a keyed genesis list whose keys are pairwise distinct is stored at its key. -/
theorem stored_of_listed {α} (ext : Ext) (g : Genesis) (st : Store) (h : Genesis.init ext [] g = .ok st)
    (l : List α) (key : α → Bytes) (val : α → Val) (hnd : (l.map key).Nodup)
    (hseg : ∀ k, (∃ e ∈ l, key e = k) → lastWrite (initWrites ext g) k = lastWrite (l.map fun x => (key x, some (val x))) k)
    (e : α) (he : e ∈ l) : st.get (key e) = some (val e) := by
  rw [get_init ext g st h, hseg _ ⟨e, he, rfl⟩, lastWrite_map_of_nodup l key val e hnd he]; rfl

/-- conversely every stored value was written by InitGenesis (the store started empty). -/
theorem listed_of_stored (ext : Ext) (g : Genesis) (st : Store) (h : Genesis.init ext [] g = .ok st) (k : Bytes) (v : Val)
    (hg : st.get k = some v) : (k, some v) ∈ initWrites ext g := by
  rw [get_init ext g st h] at hg
  cases hl : lastWrite (initWrites ext g) k with
  | none => rw [hl] at hg; cases hg
  | some ov => rw [hl] at hg; simp only [Option.getD_some] at hg; subst hg; exact lastWrite_mem hl

theorem good_init (ext : Ext) (g : Genesis) (st : Store) (h : Genesis.init ext [] g = .ok st) : Good ext st := by
  rw [(init_store ext g st h).1]
  apply good_applyAll _ (good_nil ext)
  intro w hw v hv
  rw [initWrites_eq] at hw
  simp only [List.mem_append, segRoles, segAtt, segLim, segScalars, segPairs, segUsed, segMsgr, List.mem_cons, List.mem_map,
    List.not_mem_nil, or_false] at hw
  rcases hw with (rfl | rfl | rfl | rfl) | ⟨a, _, rfl⟩ | ⟨a, _, rfl⟩ | (rfl | rfl | rfl | rfl | rfl) | ⟨a, _, rfl⟩ | ⟨a, _, rfl⟩ | ⟨a, _, rfl⟩ <;>
    (simp only [Option.some.injEq] at hv; subst hv) <;> first
      | (simp [ValOK]; done)
      | (rcases g.nextNonce with _ | ⟨d, n⟩ <;> simp [ValOK, nonceVal])

/-- after InitGenesis the four role slots are set (possibly to the empty string — an empty value is stored
    and read back as present). -/
theorem init_roles_set (ext : Ext) (g : Genesis) (st : Store) (h : Genesis.init ext [] g = .ok st) :
    RolesSet st ∧ getRole st Key.owner = some g.owner ∧ getRole st Key.attesterManager = some g.attesterManager ∧
    getRole st Key.pauser = some g.pauser ∧ getRole st Key.tokenController = some g.tokenController ∧
    getRole st Key.pendingOwner = none := by
  have e : ∀ k, Key.cls k ≤ 4 → st.get k = (lastWrite (segRoles g) k).getD none := by
    intro k hk; rw [get_init ext g st h, lastWrite_init, if_pos hk]
  have h0 := e Key.owner (by simp)
  have h1 := e Key.attesterManager (by simp)
  have h2 := e Key.pauser (by simp)
  have h3 := e Key.tokenController (by simp)
  have h4 := e Key.pendingOwner (by simp)
  have ne : ∀ {a b : Bytes}, Key.cls a ≠ Key.cls b → ¬ a = b := fun h => Key.ne_of_cls h
  simp only [segRoles, lastWrite, ne (by simp : Key.cls Key.tokenController ≠ Key.cls Key.owner),
    ne (by simp : Key.cls Key.pauser ≠ Key.cls Key.owner), ne (by simp : Key.cls Key.attesterManager ≠ Key.cls Key.owner),
    if_true, if_false, Option.getD_some] at h0
  simp only [segRoles, lastWrite, ne (by simp : Key.cls Key.tokenController ≠ Key.cls Key.attesterManager),
    ne (by simp : Key.cls Key.pauser ≠ Key.cls Key.attesterManager), if_true, if_false, Option.getD_some] at h1
  simp only [segRoles, lastWrite, ne (by simp : Key.cls Key.tokenController ≠ Key.cls Key.pauser), if_true, if_false,
    Option.getD_some] at h2
  simp only [segRoles, lastWrite, if_true, Option.getD_some] at h3
  simp only [segRoles, lastWrite, ne (by simp : Key.cls Key.tokenController ≠ Key.cls Key.pendingOwner),
    ne (by simp : Key.cls Key.pauser ≠ Key.cls Key.pendingOwner), ne (by simp : Key.cls Key.attesterManager ≠ Key.cls Key.pendingOwner),
    ne (by simp : Key.cls Key.owner ≠ Key.cls Key.pendingOwner), if_false, Option.getD_none] at h4
  refine ⟨⟨by simp [getRole, h0], by simp [getRole, h1], by simp [getRole, h2], by simp [getRole, h3]⟩,
    by simp [getRole, h0], by simp [getRole, h1], by simp [getRole, h2], by simp [getRole, h3], by simp [getRole, h4]⟩

/-- the scalars after InitGenesis: the given values, or the documented defaults (paused, 8000, 0, 1). -/
theorem init_scalars (ext : Ext) (g : Genesis) (st : Store) (h : Genesis.init ext [] g = .ok st) :
    getFlag st Key.burnPaused = some (g.burnPaused.getD true) ∧ getFlag st Key.sendPaused = some (g.sendPaused.getD true) ∧
    getSize st = some (g.maxBody.getD 8000) ∧ getNextNonce st = some (g.nextNonce.getD (0, 0)) ∧
    getThreshold st = some (g.threshold.getD 1) := by
  have e : ∀ k, (5 ≤ Key.cls k ∧ Key.cls k ≤ 9) → st.get k = (lastWrite (segScalars g) k).getD none := by
    intro k hk
    rw [get_init ext g st h, lastWrite_init, if_neg (by omega), if_neg (by omega), if_neg (by omega), if_pos hk]
  have ne : ∀ {a b : Bytes}, Key.cls a ≠ Key.cls b → ¬ a = b := fun h => Key.ne_of_cls h
  have h0 := e Key.burnPaused (by simp)
  have h1 := e Key.sendPaused (by simp)
  have h2 := e Key.maxBody (by simp)
  have h3 := e Key.nextNonce (by simp)
  have h4 := e Key.threshold (by simp)
  simp only [segScalars, lastWrite, ne (by simp : Key.cls Key.threshold ≠ Key.cls Key.burnPaused),
    ne (by simp : Key.cls Key.nextNonce ≠ Key.cls Key.burnPaused), ne (by simp : Key.cls Key.maxBody ≠ Key.cls Key.burnPaused),
    ne (by simp : Key.cls Key.sendPaused ≠ Key.cls Key.burnPaused), if_true, if_false, Option.getD_some] at h0
  simp only [segScalars, lastWrite, ne (by simp : Key.cls Key.threshold ≠ Key.cls Key.sendPaused),
    ne (by simp : Key.cls Key.nextNonce ≠ Key.cls Key.sendPaused), ne (by simp : Key.cls Key.maxBody ≠ Key.cls Key.sendPaused),
    if_true, if_false, Option.getD_some] at h1
  simp only [segScalars, lastWrite, ne (by simp : Key.cls Key.threshold ≠ Key.cls Key.maxBody),
    ne (by simp : Key.cls Key.nextNonce ≠ Key.cls Key.maxBody), if_true, if_false, Option.getD_some] at h2
  simp only [segScalars, lastWrite, ne (by simp : Key.cls Key.threshold ≠ Key.cls Key.nextNonce), if_true, if_false,
    Option.getD_some] at h3
  simp only [segScalars, lastWrite, if_true, Option.getD_some] at h4
  refine ⟨by simp [getFlag, h0], by simp [getFlag, h1], by simp [getSize, h2], ?_, by simp [getThreshold, h4]⟩
  cases hn : g.nextNonce with
  | none => simp [getNextNonce, h3, hn, nonceVal]
  | some p => obtain ⟨d, n⟩ := p; simp [getNextNonce, h3, hn, nonceVal]


theorem mem_scanMap_iff {α} (st : Store) (hwf : st.WF) (pfx : Bytes) (f : Val → Option α) (x : α) :
    x ∈ scanMap st pfx f ↔ ∃ k v, st.get k = some v ∧ isPrefixOf pfx k = true ∧ f v = some x := by
  simp only [scanMap, List.mem_filterMap, Store.mem_scan]
  constructor
  · rintro ⟨⟨k, v⟩, ⟨hm, hp⟩, hf⟩; exact ⟨k, v, Store.get_of_mem hwf hm, hp, hf⟩
  · rintro ⟨k, v, hg, hp, hf⟩; exact ⟨(k, v), ⟨Store.mem_of_get hg, hp⟩, hf⟩

theorem attestersOf_eq_scanMap (st : Store) :
    attestersOf st = scanMap st AttesterKeyPrefix (fun | .attester a => some a | _ => none) := by
  unfold attestersOf scanMap
  congr 1

theorem prefix_attester (a : Bytes) : isPrefixOf AttesterKeyPrefix (Key.attester a) = true := by
  simp only [Key.attester, List.append_assoc]; exact isPrefixOf_append _ _
theorem prefix_limit (a : Bytes) : isPrefixOf PerMessageBurnLimitKeyPrefix (Key.limit a) = true := by
  simp only [Key.limit, List.append_assoc]; exact isPrefixOf_append _ _
theorem prefix_used (d n : Nat) : isPrefixOf UsedNonceKeyPrefix (Key.usedNonce d n) = true := by
  simp only [Key.usedNonce, List.append_assoc]; exact isPrefixOf_append _ _
theorem prefix_pair (ext : Ext) (d : Nat) (t : Bytes) : isPrefixOf TokenPairKeyPrefix (Key.tokenPair ext d t) = true := by
  simp only [Key.tokenPair, List.append_assoc]; exact isPrefixOf_append _ _
theorem prefix_msgr (d : Nat) : isPrefixOf RemoteTokenMessengerKeyPrefix (Key.messenger d) = true := by
  simp only [Key.messenger, List.append_assoc]; exact isPrefixOf_append _ _


theorem nonceVal_nonce (o : Option (Nat × Nat)) : ∃ d n, nonceVal o = .nonce d n := by
  cases o with
  | none => exact ⟨0, 0, rfl⟩
  | some p => exact ⟨p.1, p.2, rfl⟩

theorem mem_init_attester {ext : Ext} {g : Genesis} {k a : Bytes} (hm : (k, some (Val.attester a)) ∈ initWrites ext g) :
    a ∈ g.attesters := by
  rw [initWrites_eq] at hm
  simp [segRoles, segAtt, segLim, segScalars, segPairs, segUsed, segMsgr] at hm
  rcases hm with ⟨h, _⟩ | ⟨_, h⟩
  · exact h
  · obtain ⟨d, n, e⟩ := nonceVal_nonce g.nextNonce; rw [e] at h; cases h

theorem mem_init_limit {ext : Ext} {g : Genesis} {k d : Bytes} {x : Int} (hm : (k, some (Val.limit d x)) ∈ initWrites ext g) :
    (d, x) ∈ g.limits := by
  rw [initWrites_eq] at hm
  simp [segRoles, segAtt, segLim, segScalars, segPairs, segUsed, segMsgr] at hm
  rcases hm with ⟨a, b, h, _, rfl, rfl⟩ | ⟨_, h⟩
  · exact h
  · obtain ⟨d', n, e⟩ := nonceVal_nonce g.nextNonce; rw [e] at h; cases h

theorem mem_init_pair {ext : Ext} {g : Genesis} {k t l : Bytes} {d : Nat} (hm : (k, some (Val.pair d t l)) ∈ initWrites ext g) :
    (d, t, l) ∈ g.pairs := by
  rw [initWrites_eq] at hm
  simp [segRoles, segAtt, segLim, segScalars, segPairs, segUsed, segMsgr] at hm
  rcases hm with ⟨_, h⟩ | ⟨a, a1, b, h, _, rfl, rfl, rfl⟩
  · obtain ⟨d', n, e⟩ := nonceVal_nonce g.nextNonce; rw [e] at h; cases h
  · exact h

theorem mem_init_nonce {ext : Ext} {g : Genesis} {k : Bytes} {d n : Nat} (hm : (k, some (Val.nonce d n)) ∈ initWrites ext g) :
    k = Key.nextNonce ∨ (d, n) ∈ g.used := by
  rw [initWrites_eq] at hm
  simp [segRoles, segAtt, segLim, segScalars, segPairs, segUsed, segMsgr] at hm
  rcases hm with ⟨h, _⟩ | ⟨a, b, h, _, rfl, rfl⟩
  · exact Or.inl h
  · exact Or.inr h

theorem mem_init_msgr {ext : Ext} {g : Genesis} {k a : Bytes} {d : Nat} (hm : (k, some (Val.messenger d a)) ∈ initWrites ext g) :
    (d, a) ∈ g.messengers := by
  rw [initWrites_eq] at hm
  simp [segRoles, segAtt, segLim, segScalars, segPairs, segUsed, segMsgr] at hm
  rcases hm with ⟨_, h⟩ | ⟨x, y, h, _, rfl, rfl⟩
  · obtain ⟨d', n, e⟩ := nonceVal_nonce g.nextNonce; rw [e] at h; cases h
  · exact h

/-- **export(init g) = g, as sets, with defaults filled in.**  For every genesis accepted by validation and by
    initialisation, exporting after initialising succeeds and yields the same roles, the same flags, the
    scalars with absent optionals replaced by their documented defaults, and exactly the entries of each of
    the five keyed lists (nothing lost, nothing invented, nothing silently overwritten). -/
theorem export_init (ext : Ext) (g : Genesis) (st : Store) (hv : g.validate ext = true)
    (hi : Genesis.init ext [] g = .ok st) :
    ∃ g', exportG st = .ok g' ∧
      g'.owner = g.owner ∧ g'.attesterManager = g.attesterManager ∧ g'.pauser = g.pauser ∧ g'.tokenController = g.tokenController ∧
      g'.burnPaused = g.burnPaused ∧ g'.sendPaused = g.sendPaused ∧
      g'.maxBody = some (g.maxBody.getD 8000) ∧ g'.nextNonce = some (g.nextNonce.getD (0, 0)) ∧
      g'.threshold = some (g.threshold.getD 1) ∧
      (∀ a, a ∈ g'.attesters ↔ a ∈ g.attesters) ∧ (∀ x, x ∈ g'.limits ↔ x ∈ g.limits) ∧
      (∀ x, x ∈ g'.pairs ↔ x ∈ g.pairs) ∧ (∀ x, x ∈ g'.used ↔ x ∈ g.used) ∧ (∀ x, x ∈ g'.messengers ↔ x ∈ g.messengers) := by
  obtain ⟨_, r1, r2, r3, r4, _⟩ := init_roles_set ext g st hi
  obtain ⟨s1, s2, s3, s4, s5⟩ := init_scalars ext g st hi
  obtain ⟨n1, n2, n3, n4, n5, hbp, hsp⟩ := validate_rejects_collisions ext g hv
  have hgood := good_init ext g st hi
  obtain ⟨bp, hbp'⟩ := Option.isSome_iff_exists.mp hbp
  obtain ⟨sp, hsp'⟩ := Option.isSome_iff_exists.mp hsp
  have hex : exportG st = .ok
      { owner := g.owner, attesterManager := g.attesterManager, pauser := g.pauser, tokenController := g.tokenController
        attesters := attestersOf st
        limits := scanMap st PerMessageBurnLimitKeyPrefix limOf
        burnPaused := some ((getFlag st Key.burnPaused).getD false)
        sendPaused := some ((getFlag st Key.sendPaused).getD false)
        maxBody := getSize st
        nextNonce := getNextNonce st
        threshold := getThreshold st
        pairs := scanMap st TokenPairKeyPrefix pairOf
        used := scanMap st UsedNonceKeyPrefix usedOf
        messengers := scanMap st RemoteTokenMessengerKeyPrefix msgrOf } := by
    simp [exportG, r1, r2, r3, r4, getMust, bind, Except.bind, pure, Except.pure]
  refine ⟨_, hex, rfl, rfl, rfl, rfl, by simp [s1, hbp'], by simp [s2, hsp'], s3, s4, s5, ?_, ?_, ?_, ?_, ?_⟩
  -- the five lists: stored ⇔ listed
  · intro a
    rw [attestersOf_eq_scanMap, mem_scanMap_iff st hgood.wf]
    constructor
    · rintro ⟨k, v, hg, _, hf⟩
      cases v <;> simp [limOf, pairOf, usedOf, msgrOf] at hf
      subst hf
      exact mem_init_attester (listed_of_stored ext g st hi k _ hg)
    · intro ha
      have := stored_of_listed ext g st hi g.attesters Key.attester Val.attester n1
        (fun k ⟨e, _, he⟩ => by rw [lastWrite_init, if_neg (by rw [← he]; simp), if_pos (by rw [← he]; simp)]; rfl) a ha
      exact ⟨_, _, this, prefix_attester a, rfl⟩
  · intro x
    rw [mem_scanMap_iff st hgood.wf]
    constructor
    · rintro ⟨k, v, hg, _, hf⟩
      cases v <;> simp [limOf, pairOf, usedOf, msgrOf] at hf
      subst hf
      exact mem_init_limit (listed_of_stored ext g st hi k _ hg)
    · intro hx
      have := stored_of_listed ext g st hi g.limits (fun l => Key.limit l.1) (fun l => Val.limit l.1 l.2) n2
        (fun k ⟨e, _, he⟩ => by
          rw [lastWrite_init, if_neg (by rw [← he]; simp), if_neg (by rw [← he]; simp), if_pos (by rw [← he]; simp)]; rfl) x hx
      exact ⟨_, _, this, prefix_limit _, rfl⟩
  · intro x
    rw [mem_scanMap_iff st hgood.wf]
    constructor
    · rintro ⟨k, v, hg, _, hf⟩
      cases v <;> simp [limOf, pairOf, usedOf, msgrOf] at hf
      subst hf
      exact mem_init_pair (listed_of_stored ext g st hi k _ hg)
    · intro hx
      have := stored_of_listed ext g st hi g.pairs (fun p => Key.tokenPair ext p.1 p.2.1) (fun p => Val.pair p.1 p.2.1 p.2.2) n3
        (fun k ⟨e, _, he⟩ => by
          rw [lastWrite_init, if_neg (by rw [← he]; simp), if_neg (by rw [← he]; simp), if_neg (by rw [← he]; simp),
            if_neg (by rw [← he]; simp), if_pos (by rw [← he]; simp)]; rfl) x hx
      exact ⟨_, _, this, prefix_pair ext _ _, rfl⟩
  · intro x
    rw [mem_scanMap_iff st hgood.wf]
    constructor
    · rintro ⟨k, v, hg, hp, hf⟩
      cases v <;> simp [limOf, pairOf, usedOf, msgrOf] at hf
      subst hf
      rcases mem_init_nonce (listed_of_stored ext g st hi k _ hg) with hk | hm
      · -- the next-nonce record lives outside the used-nonce prefix
        exact absurd (Key.cls_of_prefix_usedNonce k hp) (by rw [hk]; simp)
      · exact hm
    · intro hx
      have := stored_of_listed ext g st hi g.used (fun u => Key.usedNonce u.1 u.2) (fun u => Val.nonce u.1 u.2) n4
        (fun k ⟨e, _, he⟩ => by
          rw [lastWrite_init, if_neg (by rw [← he]; simp), if_neg (by rw [← he]; simp), if_neg (by rw [← he]; simp),
            if_neg (by rw [← he]; simp), if_neg (by rw [← he]; simp), if_pos (by rw [← he]; simp)]; rfl) x hx
      exact ⟨_, _, this, prefix_used _ _, rfl⟩
  · intro x
    rw [mem_scanMap_iff st hgood.wf]
    constructor
    · rintro ⟨k, v, hg, _, hf⟩
      cases v <;> simp [limOf, pairOf, usedOf, msgrOf] at hf
      subst hf
      exact mem_init_msgr (listed_of_stored ext g st hi k _ hg)
    · intro hx
      have := stored_of_listed ext g st hi g.messengers (fun m => Key.messenger m.1) (fun m => Val.messenger m.1 m.2) n5
        (fun k ⟨e, _, he⟩ => by
          rw [lastWrite_init, if_neg (by rw [← he]; simp), if_neg (by rw [← he]; simp), if_neg (by rw [← he]; simp),
            if_neg (by rw [← he]; simp), if_neg (by rw [← he]; simp), if_neg (by rw [← he]; simp), if_pos (by rw [← he]; simp)]; rfl) x hx
      exact ⟨_, _, this, prefix_msgr _, rfl⟩

/-! ### the other direction: init (export st) = st -/

theorem getRole_some {st : Store} {k r : Bytes} (h : getRole st k = some r) : st.get k = some (.role r) := by
  unfold getRole at h; split at h <;> simp_all
theorem getFlag_some {st : Store} {k : Bytes} {b : Bool} (h : getFlag st k = some b) : st.get k = some (.flag b) := by
  unfold getFlag at h; split at h <;> simp_all
theorem getSize_some {st : Store} {n : Nat} (h : getSize st = some n) : st.get Key.maxBody = some (.size n) := by
  unfold getSize at h; split at h <;> simp_all
theorem getThreshold_some {st : Store} {n : Nat} (h : getThreshold st = some n) : st.get Key.threshold = some (.threshold n) := by
  unfold getThreshold at h; split at h <;> simp_all
theorem getNextNonce_some {st : Store} {p : Nat × Nat} (h : getNextNonce st = some p) :
    st.get Key.nextNonce = some (.nonce p.1 p.2) := by
  unfold getNextNonce at h; split at h
  · simp only [Option.some.injEq] at h; subst h; assumption
  · cases h

/-- the keys of a sorted store are pairwise distinct. -/
theorem keys_nodup {s : Store} (h : s.WF) : (s.map Prod.fst).Nodup := by
  induction s with
  | nil => exact List.nodup_nil
  | cons p rest ih =>
    obtain ⟨k, v⟩ := p
    obtain ⟨h1, h2⟩ := h
    simp only [List.map_cons, List.nodup_cons]
    refine ⟨?_, ih h2⟩
    intro hm
    obtain ⟨e, he, hk⟩ := List.mem_map.mp hm
    have := h1 e he
    rw [hk, blt_irrefl] at this
    cases this

/-- the keys rebuilt from the values found by a prefix scan are the store keys they were found under. -/
theorem scanMap_keys {α} (l : List (Bytes × Val)) (f : Val → Option α) (key : α → Bytes)
    (hk : ∀ kv ∈ l, ∀ x, f kv.2 = some x → key x = kv.1) :
    (l.filterMap fun kv => f kv.2).map key = (l.filter fun kv => (f kv.2).isSome).map Prod.fst := by
  induction l with
  | nil => rfl
  | cons p rest ih =>
    have ih' := ih (fun kv hkv => hk kv (List.mem_cons_of_mem _ hkv))
    cases hf : f p.2 with
    | none => simp [hf, ih']
    | some x =>
      have := hk p List.mem_cons_self x hf
      simp [hf, ih', this]

theorem scanMap_nodup {α} (st : Store) (hwf : st.WF) (pfx : Bytes) (f : Val → Option α) (key : α → Bytes)
    (hk : ∀ k v, st.get k = some v → ∀ x, f v = some x → key x = k) :
    ((scanMap st pfx f).map key).Nodup := by
  unfold scanMap
  rw [scanMap_keys _ f key (fun kv hkv x hx => hk kv.1 kv.2 (Store.get_of_mem hwf (Store.mem_scan.mp hkv).1) x hx)]
  have h1 : ((st.scan pfx).filter fun kv => (f kv.2).isSome).Sublist st :=
    List.Sublist.trans List.filter_sublist (by unfold Store.scan; exact List.filter_sublist)
  exact List.Nodup.sublist (h1.map Prod.fst) (keys_nodup hwf)

/-- a store the module can be in after genesis: the four roles and five scalars are present, and no ownership
    transfer is in flight (the pending owner is what `pending_owner_lost` shows cannot survive). -/
structure Exportable (st : Store) : Prop where
  roles : RolesSet st
  noPending : st.get Key.pendingOwner = none
  burnFlag : (getFlag st Key.burnPaused).isSome
  sendFlag : (getFlag st Key.sendPaused).isSome
  size : (getSize st).isSome
  nonce : (getNextNonce st).isSome
  threshold : ∃ t, getThreshold st = some t ∧ t ≠ 0


def attOf : Val → Option Bytes | .attester a => some a | _ => none

theorem attestersOf_scanMap_attOf (st : Store) : attestersOf st = scanMap st AttesterKeyPrefix attOf := by
  unfold attestersOf scanMap
  congr 1

/-- what `ExportGenesis` returns on a store whose four roles are `o a p t`. -/
def exported (st : Store) (o a p t : Bytes) : Genesis where
  owner := o
  attesterManager := a
  pauser := p
  tokenController := t
  attesters := attestersOf st
  limits := scanMap st PerMessageBurnLimitKeyPrefix limOf
  burnPaused := some ((getFlag st Key.burnPaused).getD false)
  sendPaused := some ((getFlag st Key.sendPaused).getD false)
  maxBody := getSize st
  nextNonce := getNextNonce st
  threshold := getThreshold st
  pairs := scanMap st TokenPairKeyPrefix pairOf
  used := scanMap st UsedNonceKeyPrefix usedOf
  messengers := scanMap st RemoteTokenMessengerKeyPrefix msgrOf

theorem export_ok {st : Store} (h : RolesSet st) :
    ∃ o a p t, getRole st Key.owner = some o ∧ getRole st Key.attesterManager = some a ∧
      getRole st Key.pauser = some p ∧ getRole st Key.tokenController = some t ∧
      exportG st = .ok (exported st o a p t) := by
  obtain ⟨o, ho⟩ := Option.isSome_iff_exists.mp h.owner
  obtain ⟨a, ha⟩ := Option.isSome_iff_exists.mp h.attesterManager
  obtain ⟨p, hp⟩ := Option.isSome_iff_exists.mp h.pauser
  obtain ⟨t, ht⟩ := Option.isSome_iff_exists.mp h.tokenController
  refine ⟨o, a, p, t, ho, ha, hp, ht, ?_⟩
  simp [exportG, exported, ho, ha, hp, ht, getMust, bind, Except.bind, pure, Except.pure]

/-- the exported lists are free of key collisions (so the export passes the duplicate checks of Validate). -/
theorem exported_nodup (ext : Ext) {st : Store} (hg : Good ext st) (o a p t : Bytes) :
    ((exported st o a p t).attesters.map Key.attester).Nodup ∧
    ((exported st o a p t).limits.map fun l => Key.limit l.1).Nodup ∧
    ((exported st o a p t).pairs.map fun p => Key.tokenPair ext p.1 p.2.1).Nodup ∧
    ((exported st o a p t).used.map fun u => Key.usedNonce u.1 u.2).Nodup ∧
    ((exported st o a p t).messengers.map fun m => Key.messenger m.1).Nodup := by
  simp only [exported]
  refine ⟨?_, ?_, ?_, ?_, ?_⟩
  · rw [attestersOf_scanMap_attOf]
    apply scanMap_nodup st hg.wf _ attOf Key.attester
    intro k v hgk x hx
    cases v <;> simp [attOf] at hx
    subst hx; exact (hg.typed k _ hgk).symm
  · apply scanMap_nodup st hg.wf _ limOf (fun l => Key.limit l.1)
    intro k v hgk x hx
    cases v <;> simp [limOf] at hx
    subst hx; exact (hg.typed k _ hgk).symm
  · apply scanMap_nodup st hg.wf _ pairOf (fun p => Key.tokenPair ext p.1 p.2.1)
    intro k v hgk x hx
    cases v <;> simp [pairOf] at hx
    subst hx; exact (hg.typed k _ hgk).symm
  · -- used nonces: the scan is restricted to the used-nonce prefix, which excludes the next-nonce record
    unfold scanMap
    rw [scanMap_keys _ usedOf (fun u => Key.usedNonce u.1 u.2)]
    · have h1 : ((st.scan UsedNonceKeyPrefix).filter fun kv => (usedOf kv.2).isSome).Sublist st :=
        List.Sublist.trans List.filter_sublist (by unfold Store.scan; exact List.filter_sublist)
      exact List.Nodup.sublist (h1.map Prod.fst) (keys_nodup hg.wf)
    · intro kv hkv x hx
      obtain ⟨hm, hp⟩ := Store.mem_scan.mp hkv
      have hgk := Store.get_of_mem hg.wf hm
      obtain ⟨k, v⟩ := kv
      cases v <;> simp [usedOf] at hx
      subst hx
      rcases hg.typed k _ hgk with h | h
      · exact absurd (Key.cls_of_prefix_usedNonce k hp) (by rw [h]; simp)
      · exact h.symm
  · apply scanMap_nodup st hg.wf _ msgrOf (fun m => Key.messenger m.1)
    intro k v hgk x hx
    cases v <;> simp [msgrOf] at hx
    subst hx; exact (hg.typed k _ hgk).symm

/-! the `hseg` side conditions of `stored_of_listed`, one per keyed list -/
theorem hseg_att (ext : Ext) (g : Genesis) (k : Bytes) (h : ∃ e ∈ g.attesters, Key.attester e = k) :
    lastWrite (initWrites ext g) k = lastWrite (g.attesters.map fun x => (Key.attester x, some (Val.attester x))) k := by
  obtain ⟨e, _, he⟩ := h
  rw [lastWrite_init, if_neg (by rw [← he]; simp), if_pos (by rw [← he]; simp)]; rfl
theorem hseg_lim (ext : Ext) (g : Genesis) (k : Bytes) (h : ∃ e ∈ g.limits, Key.limit e.1 = k) :
    lastWrite (initWrites ext g) k = lastWrite (g.limits.map fun x => (Key.limit x.1, some (Val.limit x.1 x.2))) k := by
  obtain ⟨e, _, he⟩ := h
  rw [lastWrite_init, if_neg (by rw [← he]; simp), if_neg (by rw [← he]; simp), if_pos (by rw [← he]; simp)]; rfl
theorem hseg_pair (ext : Ext) (g : Genesis) (k : Bytes) (h : ∃ e ∈ g.pairs, Key.tokenPair ext e.1 e.2.1 = k) :
    lastWrite (initWrites ext g) k =
      lastWrite (g.pairs.map fun x => (Key.tokenPair ext x.1 x.2.1, some (Val.pair x.1 x.2.1 x.2.2))) k := by
  obtain ⟨e, _, he⟩ := h
  rw [lastWrite_init, if_neg (by rw [← he]; simp), if_neg (by rw [← he]; simp), if_neg (by rw [← he]; simp),
    if_neg (by rw [← he]; simp), if_pos (by rw [← he]; simp)]; rfl
theorem hseg_used (ext : Ext) (g : Genesis) (k : Bytes) (h : ∃ e ∈ g.used, Key.usedNonce e.1 e.2 = k) :
    lastWrite (initWrites ext g) k = lastWrite (g.used.map fun x => (Key.usedNonce x.1 x.2, some (Val.nonce x.1 x.2))) k := by
  obtain ⟨e, _, he⟩ := h
  rw [lastWrite_init, if_neg (by rw [← he]; simp), if_neg (by rw [← he]; simp), if_neg (by rw [← he]; simp),
    if_neg (by rw [← he]; simp), if_neg (by rw [← he]; simp), if_pos (by rw [← he]; simp)]; rfl
theorem hseg_msgr (ext : Ext) (g : Genesis) (k : Bytes) (h : ∃ e ∈ g.messengers, Key.messenger e.1 = k) :
    lastWrite (initWrites ext g) k =
      lastWrite (g.messengers.map fun x => (Key.messenger x.1, some (Val.messenger x.1 x.2))) k := by
  obtain ⟨e, _, he⟩ := h
  rw [lastWrite_init, if_neg (by rw [← he]; simp), if_neg (by rw [← he]; simp), if_neg (by rw [← he]; simp),
    if_neg (by rw [← he]; simp), if_neg (by rw [← he]; simp), if_neg (by rw [← he]; simp), if_pos (by rw [← he]; simp)]; rfl

/-- **init(export st) = st** — the round trip in the other direction, for every store the module can be in
    after genesis *with no ownership transfer in flight*: exporting succeeds, the export passes the duplicate
    checks, importing it into an empty chain succeeds and rebuilds the very same store (same keys, same
    values, hence same iteration order and same answers to every query).  The excluded case is exactly the
    known finding `pending_owner_lost`. -/
theorem init_export_partial (ext : Ext) (st : Store) (hg : Good ext st) (hx : Exportable st) :
    ∃ g, exportG st = .ok g ∧ Genesis.init ext [] g = .ok st ∧
      (g.attesters.map Key.attester).Nodup ∧ (g.limits.map fun l => Key.limit l.1).Nodup ∧
      (g.pairs.map fun p => Key.tokenPair ext p.1 p.2.1).Nodup ∧ (g.used.map fun u => Key.usedNonce u.1 u.2).Nodup ∧
      (g.messengers.map fun m => Key.messenger m.1).Nodup := by
  obtain ⟨o, a, p, t, ho, ha, hp, ht, hex⟩ := export_ok hx.roles
  obtain ⟨n1, n2, n3, n4, n5⟩ := exported_nodup ext hg o a p t
  obtain ⟨bf, hbf⟩ := Option.isSome_iff_exists.mp hx.burnFlag
  obtain ⟨sf, hsf⟩ := Option.isSome_iff_exists.mp hx.sendFlag
  obtain ⟨sz, hsz⟩ := Option.isSome_iff_exists.mp hx.size
  obtain ⟨nn, hnn⟩ := Option.isSome_iff_exists.mp hx.nonce
  obtain ⟨th, hth, hth0⟩ := hx.threshold
  refine ⟨exported st o a p t, hex, ?_, n1, n2, n3, n4, n5⟩
  generalize hgdef : exported st o a p t = g at *
  have gOwner : g.owner = o := by rw [← hgdef]; rfl
  have gAm : g.attesterManager = a := by rw [← hgdef]; rfl
  have gPa : g.pauser = p := by rw [← hgdef]; rfl
  have gTc : g.tokenController = t := by rw [← hgdef]; rfl
  have gAtt : g.attesters = attestersOf st := by rw [← hgdef]; rfl
  have gLim : g.limits = scanMap st PerMessageBurnLimitKeyPrefix limOf := by rw [← hgdef]; rfl
  have gBp : g.burnPaused = some bf := by rw [← hgdef]; simp [exported, hbf]
  have gSp : g.sendPaused = some sf := by rw [← hgdef]; simp [exported, hsf]
  have gMb : g.maxBody = some sz := by rw [← hgdef]; simp [exported, hsz]
  have gNn : g.nextNonce = some nn := by rw [← hgdef]; simp [exported, hnn]
  have gTh : g.threshold = some th := by rw [← hgdef]; simp [exported, hth]
  have gPairs : g.pairs = scanMap st TokenPairKeyPrefix pairOf := by rw [← hgdef]; rfl
  have gUsed : g.used = scanMap st UsedNonceKeyPrefix usedOf := by rw [← hgdef]; rfl
  have gMsgr : g.messengers = scanMap st RemoteTokenMessengerKeyPrefix msgrOf := by rw [← hgdef]; rfl
  -- importing succeeds
  have hinit : Genesis.init ext [] g = .ok (Store.applyAll [] (initWrites ext g)) := by
    have : g.threshold ≠ some 0 := by rw [gTh]; intro h; exact hth0 (Option.some.inj h)
    simp [Genesis.init, must, this, bind, Except.bind, pure, Except.pure]
  generalize hst' : Store.applyAll [] (initWrites ext g) = st' at hinit
  have hgood' := good_init ext g st' hinit
  suffices h : st' = st by rw [hinit, h]
  apply Store.ext_of_get hgood'.wf hg.wf
  intro k
  obtain ⟨_, r1, r2, r3, r4, _⟩ := init_roles_set ext g st' hinit
  obtain ⟨s1, s2, s3, s4, s5⟩ := init_scalars ext g st' hinit
  -- (a) everything stored is restored
  have fwd : ∀ v, st.get k = some v → st'.get k = some v := by
    intro v hv
    have hty := hg.typed k v hv
    cases v with
    | role r =>
      rcases hty with rfl | rfl | rfl | rfl | rfl
      · have : o = r := by have := getRole_some ho; rw [hv] at this; injection this with h; injection h with h; exact h.symm
        rw [getRole_some r1, gOwner, this]
      · rw [hx.noPending] at hv; cases hv
      · have : a = r := by have := getRole_some ha; rw [hv] at this; injection this with h; injection h with h; exact h.symm
        rw [getRole_some r2, gAm, this]
      · have : p = r := by have := getRole_some hp; rw [hv] at this; injection this with h; injection h with h; exact h.symm
        rw [getRole_some r3, gPa, this]
      · have : t = r := by have := getRole_some ht; rw [hv] at this; injection this with h; injection h with h; exact h.symm
        rw [getRole_some r4, gTc, this]
    | attester x =>
      subst hty
      have hm : x ∈ g.attesters := by
        rw [gAtt, attestersOf_scanMap_attOf, mem_scanMap_iff st hg.wf]; exact ⟨_, _, hv, prefix_attester x, rfl⟩
      exact stored_of_listed ext g st' hinit g.attesters Key.attester Val.attester n1 (hseg_att ext g) x hm
    | limit d x =>
      subst hty
      have hm : (d, x) ∈ g.limits := by
        rw [gLim, mem_scanMap_iff st hg.wf]; exact ⟨_, _, hv, prefix_limit d, rfl⟩
      exact stored_of_listed ext g st' hinit g.limits (fun l => Key.limit l.1) (fun l => Val.limit l.1 l.2) n2 (hseg_lim ext g) (d, x) hm
    | flag b =>
      rcases hty with rfl | rfl
      · have : bf = b := by have := getFlag_some hbf; rw [hv] at this; injection this with h; injection h with h; exact h.symm
        rw [getFlag_some s1, gBp, this]; rfl
      · have : sf = b := by have := getFlag_some hsf; rw [hv] at this; injection this with h; injection h with h; exact h.symm
        rw [getFlag_some s2, gSp, this]; rfl
    | size n =>
      subst hty
      have : sz = n := by have := getSize_some hsz; rw [hv] at this; injection this with h; injection h with h; exact h.symm
      rw [getSize_some s3, gMb, this]; rfl
    | nonce d n =>
      rcases hty with rfl | rfl
      · have : nn = (d, n) := by
          have := getNextNonce_some hnn; rw [hv] at this; injection this with h; injection h with h1 h2
          exact Prod.ext h1.symm h2.symm
        rw [getNextNonce_some s4, gNn, this]; rfl
      · have hm : (d, n) ∈ g.used := by
          rw [gUsed, mem_scanMap_iff st hg.wf]; exact ⟨_, _, hv, prefix_used d n, rfl⟩
        exact stored_of_listed ext g st' hinit g.used (fun u => Key.usedNonce u.1 u.2) (fun u => Val.nonce u.1 u.2) n4 (hseg_used ext g) (d, n) hm
    | threshold n =>
      subst hty
      have : th = n := by have := getThreshold_some hth; rw [hv] at this; injection this with h; injection h with h; exact h.symm
      rw [getThreshold_some s5, gTh, this]; rfl
    | pair d tk l =>
      subst hty
      have hm : (d, tk, l) ∈ g.pairs := by
        rw [gPairs, mem_scanMap_iff st hg.wf]; exact ⟨_, _, hv, prefix_pair ext d tk, rfl⟩
      exact stored_of_listed ext g st' hinit g.pairs (fun p => Key.tokenPair ext p.1 p.2.1) (fun p => Val.pair p.1 p.2.1 p.2.2) n3
        (hseg_pair ext g) (d, tk, l) hm
    | messenger d x =>
      subst hty
      have hm : (d, x) ∈ g.messengers := by
        rw [gMsgr, mem_scanMap_iff st hg.wf]; exact ⟨_, _, hv, prefix_msgr d, rfl⟩
      exact stored_of_listed ext g st' hinit g.messengers (fun m => Key.messenger m.1) (fun m => Val.messenger m.1 m.2) n5
        (hseg_msgr ext g) (d, x) hm
  -- (b) nothing is invented
  have bwd : ∀ v, st'.get k = some v → st.get k = some v := by
    intro v hv
    have hm := listed_of_stored ext g st' hinit k v hv
    rw [initWrites_eq] at hm
    simp only [List.mem_append, segRoles, segAtt, segLim, segScalars, segPairs, segUsed, segMsgr, List.mem_cons, List.mem_map,
      List.not_mem_nil, or_false, Prod.mk.injEq, Option.some.injEq] at hm
    rcases hm with (⟨rfl, rfl⟩ | ⟨rfl, rfl⟩ | ⟨rfl, rfl⟩ | ⟨rfl, rfl⟩) | ⟨x, hxm, rfl, rfl⟩ | ⟨x, hxm, rfl, rfl⟩ |
      (⟨rfl, rfl⟩ | ⟨rfl, rfl⟩ | ⟨rfl, rfl⟩ | ⟨rfl, rfl⟩ | ⟨rfl, rfl⟩) | ⟨x, hxm, rfl, rfl⟩ | ⟨x, hxm, rfl, rfl⟩ | ⟨x, hxm, rfl, rfl⟩
    · rw [gOwner]; exact getRole_some ho
    · rw [gAm]; exact getRole_some ha
    · rw [gPa]; exact getRole_some hp
    · rw [gTc]; exact getRole_some ht
    · rw [gAtt, attestersOf_scanMap_attOf, mem_scanMap_iff st hg.wf] at hxm
      obtain ⟨k', v', hgk, _, hf⟩ := hxm
      cases v' <;> simp [attOf] at hf
      subst hf; rw [← hg.typed k' _ hgk]; exact hgk
    · rw [gLim, mem_scanMap_iff st hg.wf] at hxm
      obtain ⟨k', v', hgk, _, hf⟩ := hxm
      cases v' <;> simp [limOf] at hf
      subst hf; rw [← hg.typed k' _ hgk]; exact hgk
    · rw [gBp]; exact getFlag_some hbf
    · rw [gSp]; exact getFlag_some hsf
    · rw [gMb]; exact getSize_some hsz
    · rw [gNn]; exact getNextNonce_some hnn
    · rw [gTh]; exact getThreshold_some hth
    · rw [gPairs, mem_scanMap_iff st hg.wf] at hxm
      obtain ⟨k', v', hgk, _, hf⟩ := hxm
      cases v' <;> simp [pairOf] at hf
      subst hf; rw [← hg.typed k' _ hgk]; exact hgk
    · rw [gUsed, mem_scanMap_iff st hg.wf] at hxm
      obtain ⟨k', v', hgk, hp', hf⟩ := hxm
      cases v' <;> simp [usedOf] at hf
      subst hf
      rcases hg.typed k' _ hgk with h | h
      · exact absurd (Key.cls_of_prefix_usedNonce k' hp') (by rw [h]; simp)
      · rw [← h]; exact hgk
    · rw [gMsgr, mem_scanMap_iff st hg.wf] at hxm
      obtain ⟨k', v', hgk, _, hf⟩ := hxm
      cases v' <;> simp [msgrOf] at hf
      subst hf; rw [← hg.typed k' _ hgk]; exact hgk
  cases h1 : st'.get k with
  | none =>
    cases h2 : st.get k with
    | none => rfl
    | some v => rw [fwd v h2] at h1; cases h1
  | some v => rw [bwd v h1]


/-! ### every state reachable from a genesis (with no transfer in flight) survives export + import -/

/-- the nine slots InitGenesis always fills. -/
def slotKeys : List Bytes :=
  [Key.owner, Key.attesterManager, Key.pauser, Key.tokenController, Key.burnPaused, Key.sendPaused, Key.maxBody,
   Key.nextNonce, Key.threshold]

theorem slot_cls {k : Bytes} (h : k ∈ slotKeys) :
    ¬ (Key.cls k = 1 ∨ Key.cls k = 10 ∨ Key.cls k = 13 ∨ Key.cls k = 14) := by
  simp only [slotKeys, List.mem_cons, List.not_mem_nil, or_false] at h
  rcases h with rfl | rfl | rfl | rfl | rfl | rfl | rfl | rfl | rfl <;> simp

/-- all nine slots are filled and the stored threshold is not 0. -/
structure Settled (st : Store) : Prop where
  filled : ∀ k ∈ slotKeys, (st.get k).isSome
  thr : ∀ t, st.get Key.threshold = some (.threshold t) → t ≠ 0

theorem settled_deliver (ext : Ext) (cfg : Cfg) (w : World) (f : List Bool) (m : Msg) (hg : Good ext w.store)
    (hs : Settled w.store) : Settled (deliver ext cfg w f m).1.store := by
  unfold deliver
  split
  · rename_i o ho
    have hget : ∀ k, (w.store.applyAll o.writes).get k =
        match lastWrite o.writes k with | some v => v | none => w.store.get k := fun k => get_applyAll _ _ _ hg.wf
    constructor
    · intro k hk
      show ((w.store.applyAll o.writes).get k).isSome
      rw [hget k]
      cases hl : lastWrite o.writes k with
      | none => exact hs.filled k hk
      | some ov =>
        cases ov with
        | some v => rfl
        | none => exact absurd (handle_deletes_cls ext cfg _ _ m o ho _ (lastWrite_mem hl) rfl) (slot_cls hk)
    · intro t ht
      have ht' : (w.store.applyAll o.writes).get Key.threshold = some (.threshold t) := ht
      rw [hget Key.threshold] at ht'
      cases hl : lastWrite o.writes Key.threshold with
      | none => rw [hl] at ht'; exact hs.thr t ht'
      | some ov =>
        rw [hl] at ht'
        simp only at ht'
        subst ht'
        have hm := lastWrite_mem hl
        have hc := handle_writes_cls ext cfg _ _ m o ho _ hm
        cases m <;> simp [docClasses] at hc
        rename_i fr a
        obtain ⟨_, ha, _, _, rfl⟩ := (updateSignatureThreshold_ok ..).mp ho
        simp [C15.adminOut_writes] at hm
        first | (rw [← hm]; exact ha) | (rw [hm]; exact ha) | (subst hm; exact ha)
  · exact hs

theorem settled_run (ext : Ext) (cfg : Cfg) (h : History) (w : World) (hg : Good ext w.store) (hs : Settled w.store) :
    Settled (runState ext cfg w h).store :=
  (run_inv ext cfg (fun w => Good ext w.store ∧ Settled w.store)
    (fun w f m hw => ⟨good_deliver ext cfg w f m hw.1, settled_deliver ext cfg w f m hw.1 hw.2⟩) h w ⟨hg, hs⟩).2

/-- in a well-typed store a filled slot holds a value of the slot's kind. -/
theorem exportable_of_settled (ext : Ext) (st : Store) (hg : Good ext st) (hs : Settled st)
    (hp : st.get Key.pendingOwner = none) : Exportable st := by
  have slot : ∀ k ∈ slotKeys, ∃ v, st.get k = some v ∧ ValOK ext k v := fun k hk => by
    obtain ⟨v, hv⟩ := Option.isSome_iff_exists.mp (hs.filled k hk)
    exact ⟨v, hv, hg.typed k v hv⟩
  have ne : ∀ {a b : Bytes}, Key.cls a ≠ Key.cls b → a ≠ b := fun h => Key.ne_of_cls h
  have role : ∀ k ∈ slotKeys, Key.cls k ≤ 4 → (getRole st k).isSome := by
    intro k hk hc
    obtain ⟨v, hv, hty⟩ := slot k hk
    cases v <;> simp only [ValOK] at hty
    case role r => simp [getRole, hv]
    all_goals (first | (rcases hty with h | h <;> (rw [h] at hc; simp at hc)) | (rw [hty] at hc; simp at hc))
  have flag : ∀ k ∈ slotKeys, (Key.cls k = 5 ∨ Key.cls k = 6) → (getFlag st k).isSome := by
    intro k hk hc
    obtain ⟨v, hv, hty⟩ := slot k hk
    cases v <;> simp only [ValOK] at hty
    case flag b => simp [getFlag, hv]
    all_goals (first | (rcases hty with h | h | h | h | h <;> (rw [h] at hc; simp at hc))
                     | (rcases hty with h | h <;> (rw [h] at hc; simp at hc)) | (rw [hty] at hc; simp at hc))
  refine ⟨⟨role _ (by simp [slotKeys]) (by simp), role _ (by simp [slotKeys]) (by simp), role _ (by simp [slotKeys]) (by simp),
    role _ (by simp [slotKeys]) (by simp)⟩, hp, flag _ (by simp [slotKeys]) (by simp), flag _ (by simp [slotKeys]) (by simp), ?_, ?_, ?_⟩
  · obtain ⟨v, hv, hty⟩ := slot Key.maxBody (by simp [slotKeys])
    cases v <;> simp only [ValOK] at hty
    case size n => simp [getSize, hv]
    all_goals (first | (rcases hty with h | h | h | h | h <;> exact absurd h (ne (by simp)))
                     | (rcases hty with h | h <;> exact absurd h (ne (by simp))) | exact absurd hty (ne (by simp)))
  · obtain ⟨v, hv, hty⟩ := slot Key.nextNonce (by simp [slotKeys])
    cases v <;> simp only [ValOK] at hty
    case nonce d n => simp [getNextNonce, hv]
    all_goals (first | (rcases hty with h | h | h | h | h <;> exact absurd h (ne (by simp)))
                     | (rcases hty with h | h <;> exact absurd h (ne (by simp))) | exact absurd hty (ne (by simp)))
  · obtain ⟨v, hv, hty⟩ := slot Key.threshold (by simp [slotKeys])
    cases v <;> simp only [ValOK] at hty
    case threshold n => exact ⟨n, by simp [getThreshold, hv], hs.thr n hv⟩
    all_goals (first | (rcases hty with h | h | h | h | h <;> exact absurd h (ne (by simp)))
                     | (rcases hty with h | h <;> exact absurd h (ne (by simp))) | exact absurd hty (ne (by simp)))

theorem init_no_pending (ext : Ext) (g : Genesis) (st : Store) (h : Genesis.init ext [] g = .ok st) :
    st.get Key.pendingOwner = none := by
  cases hv : st.get Key.pendingOwner with
  | none => rfl
  | some v =>
    exfalso
    have hm := listed_of_stored ext g st h _ v hv
    obtain ⟨_, c1, c2, c3, c4, c5, c6⟩ := seg_cls ext g
    rw [initWrites_eq] at hm
    simp only [List.mem_append] at hm
    rcases hm with hm | hm | hm | hm | hm | hm | hm
    · simp only [segRoles, List.mem_cons, List.not_mem_nil, or_false, Prod.mk.injEq] at hm
      rcases hm with ⟨e, _⟩ | ⟨e, _⟩ | ⟨e, _⟩ | ⟨e, _⟩ <;> exact absurd e (Key.ne_of_cls (by simp))
    · have := c1 _ hm; simp at this
    · have := c2 _ hm; simp at this
    · have := c3 _ hm; simp at this
    · have := c4 _ hm; simp at this
    · have := c5 _ hm; simp at this
    · have := c6 _ hm; simp at this

theorem settled_init (ext : Ext) (g : Genesis) (st : Store) (h : Genesis.init ext [] g = .ok st) : Settled st := by
  obtain ⟨_, r1, r2, r3, r4, _⟩ := init_roles_set ext g st h
  obtain ⟨s1, s2, s3, s4, s5⟩ := init_scalars ext g st h
  constructor
  · intro k hk
    simp only [slotKeys, List.mem_cons, List.not_mem_nil, or_false] at hk
    rcases hk with rfl | rfl | rfl | rfl | rfl | rfl | rfl | rfl | rfl
    · rw [getRole_some r1]; rfl
    · rw [getRole_some r2]; rfl
    · rw [getRole_some r3]; rfl
    · rw [getRole_some r4]; rfl
    · rw [getFlag_some s1]; rfl
    · rw [getFlag_some s2]; rfl
    · rw [getSize_some s3]; rfl
    · rw [getNextNonce_some s4]; rfl
    · rw [getThreshold_some s5]; rfl
  · intro t ht
    rw [getThreshold_some s5] at ht
    injection ht with ht; injection ht with ht
    have h0 := (init_store ext g st h).2
    intro e; rw [e] at ht
    cases hth : g.threshold with
    | none => rw [hth] at ht; simp at ht
    | some x => rw [hth] at ht h0; simp at ht; exact h0 (by rw [ht])

/-- **A chain restarted from its own export is the same chain**: for every genesis `g`, every history of
    transactions (with any dependency faults) run from the state `InitGenesis g` builds, if no ownership
    transfer is in flight at the end, then exporting the final state succeeds, the export has no key
    collisions, and importing it into an empty chain rebuilds exactly the final store. -/
theorem roundtrip_reachable (ext : Ext) (cfg : Cfg) (g : Genesis) (st0 : Store) (led : Ledger) (h : History)
    (hi : Genesis.init ext [] g = .ok st0)
    (hp : (runState ext cfg ⟨st0, led⟩ h).store.get Key.pendingOwner = none) :
    ∃ g', exportG (runState ext cfg ⟨st0, led⟩ h).store = .ok g' ∧
      Genesis.init ext [] g' = .ok (runState ext cfg ⟨st0, led⟩ h).store := by
  have hg := good_run ext cfg h ⟨st0, led⟩ (good_init ext g st0 hi)
  have hs := settled_run ext cfg h ⟨st0, led⟩ (good_init ext g st0 hi) (settled_init ext g st0 hi)
  obtain ⟨g', h1, h2, _⟩ := init_export_partial ext _ hg (exportable_of_settled ext _ hg hs hp)
  exact ⟨g', h1, h2⟩

/-- non-vacuity: the state any accepted genesis builds is itself exportable (so `init ∘ export ∘ init = init`). -/
theorem exportable_of_init (ext : Ext) (g : Genesis) (st : Store) (h : Genesis.init ext [] g = .ok st) : Exportable st :=
  exportable_of_settled ext st (good_init ext g st h) (settled_init ext g st h) (init_no_pending ext g st h)


/-! ### exactly what the round trip loses: the pending-owner entry and nothing else -/

theorem scan_del_other (s : Store) (k : Bytes) (p : Bytes) (h : isPrefixOf p k = false) :
    (s.del k).scan p = s.scan p := by
  induction s with
  | nil => rfl
  | cons e rest ih =>
    obtain ⟨k', v'⟩ := e
    simp only [Store.del]
    split
    · rename_i e; subst e; simp [Store.scan, h]
    · simp only [Store.scan, List.filter_cons] at ih ⊢
      rw [ih]

/-- `ExportGenesis` does not read the pending-owner entry. -/
theorem export_ignores_pending (st : Store) : exportG (st.del Key.pendingOwner) = exportG st := by
  have g : ∀ k, Key.cls k ≠ 1 → (st.del Key.pendingOwner).get k = st.get k := fun k h =>
    Store.get_del_other _ _ _ (fun e => h (by rw [e]; rfl))
  have r : ∀ k, Key.cls k ≠ 1 → getRole (st.del Key.pendingOwner) k = getRole st k := fun k h => by
    unfold getRole; rw [g k h]
  have sc : ∀ p, isPrefixOf p Key.pendingOwner = false → (st.del Key.pendingOwner).scan p = st.scan p :=
    fun p h => scan_del_other _ _ _ h
  unfold exportG
  rw [r Key.owner (by simp), r Key.attesterManager (by simp), r Key.pauser (by simp), r Key.tokenController (by simp)]
  simp only [attestersOf, scanMap, getFlag, getSize, getNextNonce, getThreshold,
    sc AttesterKeyPrefix (by decide), sc PerMessageBurnLimitKeyPrefix (by decide), sc TokenPairKeyPrefix (by decide),
    sc UsedNonceKeyPrefix (by decide), sc RemoteTokenMessengerKeyPrefix (by decide),
    g Key.burnPaused (by simp), g Key.sendPaused (by simp), g Key.maxBody (by simp), g Key.nextNonce (by simp),
    g Key.threshold (by simp)]

/-- **The known finding, exactly**: for every state reachable from a genesis by any history — with or without
    an ownership transfer in flight — exporting and importing into an empty chain rebuilds the store *minus the
    pending-owner entry*: every other entry survives, and that one never does. -/
theorem roundtrip_loses_only_pending (ext : Ext) (cfg : Cfg) (g : Genesis) (st0 : Store) (led : Ledger) (h : History)
    (hi : Genesis.init ext [] g = .ok st0) :
    ∃ g', exportG (runState ext cfg ⟨st0, led⟩ h).store = .ok g' ∧
      Genesis.init ext [] g' = .ok ((runState ext cfg ⟨st0, led⟩ h).store.del Key.pendingOwner) := by
  have hg := good_run ext cfg h ⟨st0, led⟩ (good_init ext g st0 hi)
  have hs := settled_run ext cfg h ⟨st0, led⟩ (good_init ext g st0 hi) (settled_init ext g st0 hi)
  generalize (runState ext cfg ⟨st0, led⟩ h).store = st at hg hs
  have hg' : Good ext (st.del Key.pendingOwner) := by
    have := good_apply (ext := ext) (s := st) (Key.pendingOwner, none) hg (by intro v hv; cases hv)
    simpa [Store.apply] using this
  have hs' : Settled (st.del Key.pendingOwner) := by
    constructor
    · intro k hk
      rw [Store.get_del_other _ _ _ (fun e => slot_cls hk (Or.inl (by rw [e]; rfl)))]
      exact hs.filled k hk
    · intro t ht
      rw [Store.get_del_other _ _ _ (Key.ne_of_cls (by simp))] at ht
      exact hs.thr t ht
  obtain ⟨g', h1, h2, _⟩ := init_export_partial ext _ hg'
    (exportable_of_settled ext _ hg' hs' (Store.get_del_same _ _ hg.wf))
  exact ⟨g', by rw [← export_ignores_pending]; exact h1, h2⟩


/-! ### the KNOWN FINDING -/

def toyExt : Ext := ⟨fun b => b, fun _ _ => none, fun b => some b, fun b => some b, id, fun _ _ => false, fun _ => false, id⟩

/-- a reachable state with an ownership transfer in flight: owner [1] has nominated [9]. -/
def inFlight : Store :=
  ((Store.applyAll [] (initWrites toyExt ⟨[1], [2], [3], [4], [], [], some false, some false, none, none, none, [], [], []⟩)).set
    Key.pendingOwner (.role [9]))

/-- **KNOWN FINDING (property C17, pending owner)**: exporting a state with an ownership transfer in flight and
    importing the export into an empty chain does NOT reproduce every stored entry — the pending-owner entry
    has no genesis field and is lost (the nominee's AcceptOwner then fails on the imported chain).
    Kernel-checked on a concrete reachable state; the same witness is replayed on the real code by the check. -/
theorem pending_owner_lost :
    ∃ g st', exportG inFlight = .ok g ∧ Genesis.init toyExt [] g = .ok st' ∧
      inFlight.get Key.pendingOwner = some (.role [9]) ∧ st'.get Key.pendingOwner = none := by
  refine ⟨_, _, rfl, rfl, ?_, ?_⟩ <;> decide +kernel

/-! non-vacuity: the toy genesis is accepted by validation and by initialisation, so the state it builds is exportable and
    survives the round trip (the hypotheses of `export_init`, `init_export_partial`, `roundtrip_reachable` are met) -/
example : Genesis.validate Toy.ext Toy.genesis = true ∧ Genesis.init Toy.ext [] Toy.genesis = .ok Toy.st := ⟨by decide +kernel, rfl⟩
example : Exportable Toy.st := exportable_of_init Toy.ext Toy.genesis Toy.st rfl


/-- the round trip for chains of multi-message transactions. -/
theorem roundtrip_reachable_txs (ext : Ext) (cfg : Cfg) (g : Genesis) (st0 : Store) (led : Ledger) (txs : List Txn)
    (hl : led.faults = []) (hi : Genesis.init ext [] g = .ok st0)
    (hp : (runTxs ext cfg ⟨st0, led⟩ txs).1.store.get Key.pendingOwner = none) :
    ∃ g', exportG (runTxs ext cfg ⟨st0, led⟩ txs).1.store = .ok g' ∧
      Genesis.init ext [] g' = .ok (runTxs ext cfg ⟨st0, led⟩ txs).1.store := by
  have hs : (⟨st0, led⟩ : World).settle = ⟨st0, led⟩ := by
    cases led; simp only [World.settle] at *; simp_all
  rw [runTxs_flatten ext cfg txs _ hs] at hp ⊢
  exact roundtrip_reachable ext cfg g st0 led _ hi hp

/-! ### the default genesis (`types.DefaultGenesis`, `AppModuleBasic.DefaultGenesis`) -/

/-- the default genesis passes validation, whatever the external functions are. -/
theorem default_validates (ext : Ext) : Genesis.default.validate ext = true := by
  simp [Genesis.validate, Genesis.default, Genesis.roleOk, noDup]

/-- … and initialises (no threshold 0): the chain it builds exists. -/
theorem default_initialises (ext : Ext) : ∃ st, Genesis.init ext [] Genesis.default = .ok st :=
  ⟨Store.applyAll [] (initWrites ext Genesis.default),
   by simp [Genesis.init, Genesis.default, must, bind, Except.bind, pure, Except.pure]⟩

/-- **a chain started from the default genesis exports the default genesis with the documented defaults filled in**
    (body size 8000, nonce 0, threshold 1) and no registry entry — and that export initialises the very same state
    again (`export_init` and `init_export_partial` at the default genesis). -/
theorem default_roundtrip (ext : Ext) (st : Store) (hi : Genesis.init ext [] Genesis.default = .ok st) :
    ∃ g', exportG st = .ok g' ∧
      g'.owner = [] ∧ g'.attesterManager = [] ∧ g'.pauser = [] ∧ g'.tokenController = [] ∧
      g'.burnPaused = some false ∧ g'.sendPaused = some false ∧
      g'.maxBody = some 8000 ∧ g'.nextNonce = some (0, 0) ∧ g'.threshold = some 1 ∧
      g'.attesters = [] ∧ g'.limits = [] ∧ g'.pairs = [] ∧ g'.used = [] ∧ g'.messengers = [] := by
  obtain ⟨g', he, h1, h2, h3, h4, h5, h6, h7, h8, h9, ha, hl, hp, hu, hm⟩ :=
    export_init ext Genesis.default st (default_validates ext) hi
  have nil_of {α} (l : List α) (h : ∀ x, x ∈ l ↔ x ∈ ([] : List α)) : l = [] := by
    cases l with
    | nil => rfl
    | cons a t => exact absurd ((h a).mp (List.mem_cons_self ..)) (by simp)
  exact ⟨g', he, h1, h2, h3, h4, h5, h6, h7, h8, h9, nil_of _ ha, nil_of _ hl, nil_of _ hp, nil_of _ hu, nil_of _ hm⟩

end Cctp.C17
