import Cctp.Lemmas.Batch
import Cctp.Spec.Toy
import Cctp.Props.C08
import Cctp.Props.C04
/-
  C14 — transfers are all-or-nothing under dependency failures.
  Proved about the handlers for ALL fault plans; the rollback itself is `deliver`'s definition, i.e. the
  SDK's branch-and-discard contract (assumed, and exercised for real by the harness's CacheContext).
-/
namespace Cctp.C14
open Cctp Cctp.Spec Gen

theorem transfer_faults (l : Ledger) (a m d : Bytes) (amt : Int) : (l.transfer a m d amt).2.faults = l.faults.tail := by
  unfold Ledger.transfer Ledger.popFault
  cases hfl : l.faults with
  | nil => simp only []; (repeat' split) <;> simp [hfl]
  | cons b bs => simp only []; (repeat' split) <;> simp

/-- **A deposit never succeeds without the debit and the burn both having succeeded and a message having
    been emitted.** -/
theorem deposit_ok_needs_all (ext : Ext) (cfg : Cfg) (st : Store) (led : Ledger) (f : Bytes) (amount : Option Int) (dest : Nat)
    (rcp tok caller : Bytes) (o : Out) (h : depositForBurn ext cfg st led f amount dest rcp tok caller = .ok o) :
    ∃ addr a bz, ext.accAddr f = some addr ∧ amount = some a ∧
      (led.transfer addr cfg.moduleAddr tok a).1 = true ∧
      ((led.transfer addr cfg.moduleAddr tok a).2.burn true cfg.moduleAddr tok a).1 = true ∧
      Event.messageSent bz ∈ o.events := by
  obtain ⟨addr, maddr, a, msgr, bz, body, h1, _, h3, _, _, _, _, _, _, _, _, _, _, _, _, _, _, ht, hb, _, _, hev, _⟩ := (deposit_shape h).ex
  exact ⟨addr, a, bz, h1, h3, ht, hb, by rw [hev]; exact List.mem_cons_self⟩

/-- **A receive of a module-addressed message never succeeds (consuming its nonce) unless the mint succeeded.** -/
theorem receive_ok_needs_mint (ext : Ext) (cfg : Cfg) (st : Store) (led : Ledger) (from_ msg att : Bytes) (o : Out)
    (h : handle ext cfg st led (.receiveMessage from_ msg att) = .ok o) (m : Message) (hd : decodeMessage msg = some m)
    (hrec : m.recipient = cfg.modulePadded) : Ledger.nextFault led = false ∧ ∃ d, d ∈ o.deps ∧ C04.isMint d = true := by
  obtain ⟨_, _, t, m', mo, _, _, hp, _, _, _, _, hmo, rfl⟩ := (receiveMessage_ok ..).mp h
  have := (C03.parse_iff_decode _ _).mp hp
  rw [hd] at this; cases this
  unfold mintOrSkip at hmo; rw [if_pos hrec] at hmo
  obtain ⟨_, b, pair, msgr, rcp, _, _, _, _, _, _, hmint, rfl⟩ := (mintBranch_ok ..).mp hmo
  exact ⟨(Ledger.mint_ok _ _ _ _ hmint).1, _, List.mem_cons_self, rfl⟩

/-- **Any injected dependency failure is an error** — for every fault plan: the bank transfer failing … -/
theorem transfer_fault_is_err (ext : Ext) (cfg : Cfg) (st : Store) (led : Ledger) (f : Bytes) (amount : Option Int) (dest : Nat)
    (rcp tok caller : Bytes) (rest : List Bool) (hf : led.faults = true :: rest) :
    ∀ o, depositForBurn ext cfg st led f amount dest rcp tok caller ≠ .ok o := by
  intro o h
  obtain ⟨addr, a, bz, _, _, ht, _⟩ := deposit_ok_needs_all ext cfg st led f amount dest rcp tok caller o h
  have : Ledger.nextFault led = true := by simp [Ledger.nextFault, Ledger.popFault, hf]
  rw [Ledger.transfer_fault led _ _ _ _ this] at ht; cases ht

/-- … the burn failing … -/
theorem burn_fault_is_err (ext : Ext) (cfg : Cfg) (st : Store) (led : Ledger) (f : Bytes) (amount : Option Int) (dest : Nat)
    (rcp tok caller : Bytes) (b0 : Bool) (rest : List Bool) (hf : led.faults = b0 :: true :: rest) :
    ∀ o, depositForBurn ext cfg st led f amount dest rcp tok caller ≠ .ok o := by
  intro o h
  obtain ⟨addr, a, bz, _, _, _, hb, _⟩ := deposit_ok_needs_all ext cfg st led f amount dest rcp tok caller o h
  have : Ledger.nextFault (led.transfer addr cfg.moduleAddr tok a).2 = true := by
    simp [Ledger.nextFault, Ledger.popFault, transfer_faults, hf]
  rw [Ledger.burn_fault _ _ _ _ this] at hb; cases hb

/-- … and the mint failing. -/
theorem mint_fault_is_err (ext : Ext) (cfg : Cfg) (st : Store) (led : Ledger) (from_ msg att : Bytes) (m : Message)
    (hd : decodeMessage msg = some m) (hrec : m.recipient = cfg.modulePadded) (rest : List Bool)
    (hf : led.faults = true :: rest) : ∀ o, handle ext cfg st led (.receiveMessage from_ msg att) ≠ .ok o := by
  intro o h
  have := (receive_ok_needs_mint ext cfg st led from_ msg att o h m hd hrec).1
  simp [Ledger.nextFault, Ledger.popFault, hf] at this

/-- **Late validation failures after the funds were moved are errors too**: with the send side paused, a
    body that does not fit, a malformed destination caller, a zero or short token messenger, or a mint
    recipient of the wrong length, the deposit does not succeed — whatever the bank and the burn said. -/
theorem late_failure_is_err (ext : Ext) (cfg : Cfg) (st : Store) (led : Ledger) (f : Bytes) (amount : Option Int) (dest : Nat)
    (rcp tok caller : Bytes)
    (hlate : sendPaused st = true ∨ (∃ mx, getSize st = some mx ∧ mx < 132) ∨
             (caller.length ≠ 0 ∧ (caller.length ≠ 32 ∨ caller = zeros 32)) ∨
             (∃ msgr, getMessenger st dest = some msgr ∧ (msgr.2.length ≠ 32 ∨ isZeros msgr.2 = true)) ∨ rcp.length ≠ 32) :
    ∀ o, depositForBurn ext cfg st led f amount dest rcp tok caller ≠ .ok o := by
  intro o h
  obtain ⟨addr, maddr, a, msgr, bz, body, _, _, _, _, _, h6, _, h8, h9, h10, _, _, _, h14, _, h16, h17, _⟩ := (deposit_shape h).ex
  rcases hlate with hl | ⟨mx, hmx, hlt⟩ | ⟨hc0, hc⟩ | ⟨msgr', hm', hbad⟩ | hl
  · rw [hl] at h14; cases h14
  · have := h16 mx hmx; omega
  · rcases h17 with h17 | ⟨h17a, h17b⟩
    · exact hc0 h17
    · rcases hc with hc | hc
      · exact hc h17a
      · exact h17b hc
  · rw [h8] at hm'; cases hm'
    rcases hbad with hb | hb
    · exact hb h9
    · rw [h10] at hb; cases hb
  · exact hl h6

/-- **After the rollback, balances, supply, counters, used nonces and emitted events are exactly as before**:
    whenever any of the above makes the handler fail, `deliver` hands back the previous store and ledger and
    no events.  (This is the definition of `deliver`, i.e. the SDK contract; the harness checks it against a
    real CacheContext after every failed transaction.) -/
theorem failed_transfer_leaves_everything (ext : Ext) (cfg : Cfg) (w : World) (fl : List Bool) (m : Msg)
    (hf : (deliver ext cfg w fl m).2.fail ≠ none) :
    (deliver ext cfg w fl m).1.store = w.store ∧ (deliver ext cfg w fl m).1.ledger.bal = w.ledger.bal ∧
    (deliver ext cfg w fl m).1.ledger.supply = w.ledger.supply ∧ (deliver ext cfg w fl m).2.events = [] := by
  obtain ⟨h1, h2, h3, _⟩ := C15.failed_tx_commits_nothing ext cfg w fl m hf
  exact ⟨h1, by rw [h2], by rw [h2], h3⟩

/-- a panic inside the handler is rolled back exactly like an error. -/
theorem panic_rolls_back_too (ext : Ext) (cfg : Cfg) (w : World) (fl : List Bool) (m : Msg)
    (hp : handle ext cfg w.store { w.ledger with faults := fl } m = .error .panic) :
    (deliver ext cfg w fl m).1.store = w.store ∧ (deliver ext cfg w fl m).2.fail = some .panic := by
  unfold deliver; rw [hp]; exact ⟨rfl, rfl⟩

/-! non-vacuity: the same deposit succeeds with a healthy bank and fails when the transfer, or the burn, fails -/
example : Toy.isOk (handle Toy.ext Toy.cfg Toy.st Toy.led Toy.deposit) = true ∧
    Toy.isOk (handle Toy.ext Toy.cfg Toy.st { Toy.led with faults := [true] } Toy.deposit) = false ∧
    Toy.isOk (handle Toy.ext Toy.cfg Toy.st { Toy.led with faults := [false, true] } Toy.deposit) = false ∧
    Toy.isOk (handle Toy.ext Toy.cfg Toy.st { Toy.led with faults := [true] } Toy.receive) = false := by decide +kernel


/-! ### all-or-nothing for transactions with several messages -/

/-- **A transaction in which any message fails leaves everything exactly as before** — store, balances, supply —
    whatever the earlier messages of the same transaction did (moved funds, burnt, minted, reserved nonces,
    consumed inbound nonces), and reports no result (no response, no events). -/
theorem failed_tx_leaves_everything (ext : Ext) (cfg : Cfg) (w : World) (tx : Txn)
    (h : (deliverTx ext cfg w tx).2 = none) :
    (deliverTx ext cfg w tx).1.store = w.store ∧ (deliverTx ext cfg w tx).1.ledger.bal = w.ledger.bal ∧
    (deliverTx ext cfg w tx).1.ledger.supply = w.ledger.supply := by
  unfold deliverTx at h ⊢
  split at h
  · simp at h
  · exact ⟨rfl, rfl, rfl⟩

/-- a transaction fails as a whole exactly when some message fails on the branch built by the messages before it
    (all of which had succeeded there). -/
theorem tx_fails_iff (ext : Ext) (cfg : Cfg) (w : World) (tx : Txn) :
    (deliverTx ext cfg w tx).2 = none ↔
      ∃ (pre : Txn) (f : List Bool) (m : Msg) (post : Txn), tx = pre ++ (f, m) :: post ∧
        (∀ r ∈ (run ext cfg w pre).2, r.fail = none) ∧
        (deliver ext cfg (runState ext cfg w pre) f m).2.fail ≠ none := by
  rw [← runMsgs_none_iff]
  unfold deliverTx
  cases runMsgs ext cfg w tx with
  | some p => simp
  | none => simp

/-- a transaction that commits is exactly the sequence of its messages, each of which succeeded. -/
theorem committed_tx_is_its_messages (ext : Ext) (cfg : Cfg) (w : World) (tx : Txn) (rs : List TxResult)
    (h : (deliverTx ext cfg w tx).2 = some rs) :
    run ext cfg w tx = ((deliverTx ext cfg w tx).1, rs) ∧ ∀ r ∈ rs, r.fail = none := by
  unfold deliverTx at h ⊢
  cases hm : runMsgs ext cfg w tx with
  | some p =>
    obtain ⟨w', rs'⟩ := p
    simp only [hm, Option.some.injEq] at h
    subst h
    exact runMsgs_eq_run ext cfg tx w w' rs' hm
  | none => simp [hm] at h

/-- the machine the line-protocol driver runs (`begin`, messages, `end`) is this specification. -/
theorem driver_machine_is_deliverTx (ext : Ext) (cfg : Cfg) (w : World) (tx : Txn) :
    Chain.steps ext cfg { world := w, pending := none } tx.ops = { world := (deliverTx ext cfg w tx).1, pending := none } :=
  steps_tx ext cfg w tx

/-- non-vacuity: in the toy world a deposit followed by a message that fails is discarded as a whole. -/
example : (deliverTx Toy.ext Toy.cfg ⟨Toy.st, Toy.led⟩ [([], Toy.deposit), ([], .acceptOwner [1])]).2.isNone = true ∧
    (deliverTx Toy.ext Toy.cfg ⟨Toy.st, Toy.led⟩ [([], Toy.deposit), ([], Toy.deposit)]).2.isSome = true := by
  decide +kernel

end Cctp.C14
