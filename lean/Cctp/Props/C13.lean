import Cctp.Lemmas.Batch
import Cctp.Lemmas.Count
import Cctp.Props.C17
/-
  C13 — the enabled attesters can always meet the threshold.
  The count is of stored entries (two spellings of one key are two entries).
-/
namespace Cctp.C13
open Cctp Gen

def count (st : Store) : Nat := (attestersOf st).length

/-- 1 ≤ threshold ≤ number of enabled attesters. -/
def Inv (st : Store) : Prop := ∃ t, getThreshold st = some t ∧ 1 ≤ t ∧ t ≤ count st

theorem count_eq (st : Store) : count st = cnt attG st := by simp [count, cnt, attestersOf_eq]

/-- in a typed store, "no attester entry for `a`" means the key is absent. -/
theorem getAttester_none {ext : Ext} {st : Store} (hg : Good ext st) {a : Bytes} (h : getAttester st a = none) :
    st.get (Key.attester a) = none := by
  unfold getAttester at h
  cases hv : st.get (Key.attester a) with
  | none => rfl
  | some v =>
    have ht := hg.typed _ _ hv
    rw [hv] at h
    cases v with
    | attester x => simp at h
    | _ => simp only [ValOK] at ht; first
      | (rcases ht with e | e | e | e | e <;> exact absurd e (Key.ne_of_cls (by simp)))
      | (rcases ht with e | e <;> exact absurd e (Key.ne_of_cls (by simp)))
      | exact absurd ht (Key.ne_of_cls (by simp))

theorem getAttester_some {st : Store} {a : Bytes} (h : (getAttester st a).isSome) :
    ∃ x, st.get (Key.attester a) = some (.attester x) := by
  unfold getAttester at h
  cases hv : st.get (Key.attester a) with
  | none => rw [hv] at h; simp at h
  | some v =>
    rw [hv] at h
    cases v with
    | attester x => exact ⟨x, rfl⟩
    | _ => simp at h

theorem threshold_congr {s1 s2 : Store} (h : s1.get Key.threshold = s2.get Key.threshold) :
    getThreshold s1 = getThreshold s2 := by simp [getThreshold, h]

/-- a transaction whose type writes neither attesters nor the threshold leaves both alone. -/
theorem unaffected (ext : Ext) (cfg : Cfg) (w : World) (f : List Bool) (m : Msg)
    (h10 : 10 ∉ docClasses m) (h9 : 9 ∉ docClasses m) :
    attestersOf (deliver ext cfg w f m).1.store = attestersOf w.store ∧
    getThreshold (deliver ext cfg w f m).1.store = getThreshold w.store := by
  constructor
  · unfold deliver
    split
    · rename_i o ho
      simp only [attestersOf_eq]
      apply filterMap_applyAll_irrelevant
      intro wr hwr x
      apply attG_other
      intro e
      exact h10 (e ▸ handle_writes_cls ext cfg w.store _ m o ho wr hwr)
    · rfl
  · exact threshold_congr (get_deliver_of_cls ext cfg w f m Key.threshold (by simpa using h9))

/-- **The inequality is inductive**: every transaction of every type, accepted or rejected, preserves it. -/
theorem inv_preserved (ext : Ext) (cfg : Cfg) (w : World) (f : List Bool) (m : Msg)
    (hg : Good ext w.store) (hb : count w.store < 2 ^ 32) (hi : Inv w.store) :
    Inv (deliver ext cfg w f m).1.store ∧ count (deliver ext cfg w f m).1.store ≤ count w.store + 1 := by
  obtain ⟨t, ht, h1, h2⟩ := hi
  have u32c : u32 (attestersOf w.store).length = count w.store := by
    simp only [u32, count] at hb ⊢; exact Nat.mod_eq_of_lt hb
  by_cases hcl : 10 ∉ docClasses m ∧ 9 ∉ docClasses m
  · obtain ⟨ha, hth⟩ := unaffected ext cfg w f m hcl.1 hcl.2
    refine ⟨⟨t, by rw [hth]; exact ht, h1, ?_⟩, ?_⟩
    · simp only [count, ha]; exact h2
    · simp only [count, ha]; omega
  cases m with
  | enableAttester fr a =>
    unfold deliver
    split
    · rename_i o ho
      obtain ⟨_, _, hnone, rfl⟩ := (enableAttester_ok ..).mp ho
      have habs := getAttester_none hg hnone
      simp only [C15.adminOut_writes, Store.applyAll, List.foldl_cons, List.foldl_nil, Store.apply]
      have hc := cnt_set attG w.store (Key.attester a) (.attester a) hg.wf
      rw [habs] at hc
      simp only [attG_attester, ind, Option.isSome_some, if_true, Nat.add_zero] at hc
      have hth : getThreshold (w.store.set (Key.attester a) (.attester a)) = some t := by
        rw [← ht]; exact threshold_congr (Store.get_set_other _ _ _ _ (Key.ne_of_cls (by simp)))
      rw [count_eq, count_eq] at *
      exact ⟨⟨t, hth, h1, by rw [count_eq]; omega⟩, by omega⟩
    · exact ⟨⟨t, ht, h1, h2⟩, Nat.le_add_right _ 1⟩
  | disableAttester fr a =>
    unfold deliver
    split
    · rename_i o ho
      obtain ⟨_, _, hsome, hne1, t', ht', hgt, rfl⟩ := (disableAttester_ok ..).mp ho
      obtain ⟨x, hx⟩ := getAttester_some hsome
      rw [ht] at ht'; cases ht'
      simp only [C15.adminOut_writes, Store.applyAll, List.foldl_cons, List.foldl_nil, Store.apply]
      have hc := cnt_del attG w.store (Key.attester a) hg.wf
      rw [hx] at hc
      simp only [attG_attester, ind, Option.isSome_some, if_true] at hc
      have hth : getThreshold (w.store.del (Key.attester a)) = some t := by
        rw [← ht]; exact threshold_congr (Store.get_del_other _ _ _ (Key.ne_of_cls (by simp)))
      rw [u32c] at hgt
      rw [count_eq] at hgt h2 ⊢
      exact ⟨⟨t, hth, h1, by rw [count_eq]; omega⟩, by rw [count_eq]; omega⟩
    · exact ⟨⟨t, ht, h1, h2⟩, Nat.le_add_right _ 1⟩
  | updateSignatureThreshold fr amount =>
    unfold deliver
    split
    · rename_i o ho
      obtain ⟨_, hne0, _, hle, rfl⟩ := (updateSignatureThreshold_ok ..).mp ho
      simp only [C15.adminOut_writes, Store.applyAll, List.foldl_cons, List.foldl_nil, Store.apply]
      have hatt : attestersOf (w.store.set Key.threshold (.threshold amount)) = attestersOf w.store := by
        simp only [attestersOf_eq]
        exact filterMap_set_irrelevant attG _ _ _ (attG_other _ (by simp))
      have hth : getThreshold (w.store.set Key.threshold (.threshold amount)) = some amount := by
        simp [getThreshold, Store.get_set_same]
      rw [u32c] at hle
      refine ⟨⟨amount, hth, by omega, ?_⟩, ?_⟩
      · simp only [count, hatt] at hle ⊢; omega
      · simp only [count, hatt]; omega
    · exact ⟨⟨t, ht, h1, h2⟩, Nat.le_add_right _ 1⟩
  | _ => all_goals exact absurd (by simp [docClasses]) hcl

/-- … hence it holds after every history (the bound keeps Go's `uint32(len(..))` exact). -/
theorem inv_run (ext : Ext) (cfg : Cfg) (h : History) (w : World) (hg : Good ext w.store)
    (hb : count w.store + h.length < 2 ^ 32) (hi : Inv w.store) : Inv (runState ext cfg w h).store := by
  induction h generalizing w with
  | nil => exact hi
  | cons fm rest ih =>
    obtain ⟨f, m⟩ := fm
    rw [runState_cons]
    simp only [List.length_cons] at hb
    obtain ⟨hi', hc'⟩ := inv_preserved ext cfg w f m hg (by omega) hi
    exact ih _ (good_deliver ext cfg w f m hg) (by omega) hi'

/-- the last attester can never be disabled. -/
theorem last_attester_kept (st : Store) (led : Ledger) (fr a : Bytes) (h : count st = 1) :
    ∀ o, disableAttester st led fr a ≠ .ok o := by
  intro o ho
  obtain ⟨_, _, _, hne1, _⟩ := (disableAttester_ok ..).mp ho
  exact hne1 h

/-- an attester cannot be disabled when that would leave fewer than threshold. -/
theorem disable_below_threshold_rejected (st : Store) (led : Ledger) (fr a : Bytes) (t : Nat)
    (hb : count st < 2 ^ 32) (ht : getThreshold st = some t) (h : count st ≤ t) :
    ∀ o, disableAttester st led fr a ≠ .ok o := by
  intro o ho
  obtain ⟨_, _, _, _, t', ht', hgt, _⟩ := (disableAttester_ok ..).mp ho
  rw [ht] at ht'; cases ht'
  simp only [u32, count] at hgt hb h
  rw [Nat.mod_eq_of_lt hb] at hgt
  omega

theorem threshold_zero_rejected (st : Store) (led : Ledger) (fr : Bytes) :
    ∀ o, updateSignatureThreshold st led fr 0 ≠ .ok o := by
  intro o ho
  obtain ⟨_, hne0, _⟩ := (updateSignatureThreshold_ok ..).mp ho
  exact hne0 rfl

theorem threshold_above_count_rejected (st : Store) (led : Ledger) (fr : Bytes) (amount : Nat)
    (hb : count st < 2 ^ 32) (h : count st < amount) : ∀ o, updateSignatureThreshold st led fr amount ≠ .ok o := by
  intro o ho
  obtain ⟨_, _, _, hle, _⟩ := (updateSignatureThreshold_ok ..).mp ho
  simp only [u32, count] at hle hb h
  rw [Nat.mod_eq_of_lt hb] at hle
  omega

/-- threshold = number of attesters is accepted (the boundary the test-suite never visits). -/
theorem threshold_eq_count_accepted (st : Store) (led : Ledger) (fr : Bytes)
    (hm : getRole st Key.attesterManager = some fr) (hb : count st < 2 ^ 32) (hpos : 0 < count st)
    (hne : count st ≠ (getThreshold st).getD 0) : ∃ o, updateSignatureThreshold st led fr (count st) = .ok o := by
  refine ⟨_, (updateSignatureThreshold_ok ..).mpr ⟨hm, by omega, hne, ?_, rfl⟩⟩
  simp only [u32, count] at hb ⊢
  rw [Nat.mod_eq_of_lt hb]; omega

/-- enabling an already enabled attester, and disabling an unknown one, are rejected without effect. -/
theorem enable_duplicate_rejected_no_effect (ext : Ext) (cfg : Cfg) (w : World) (f : List Bool) (fr a : Bytes)
    (h : (getAttester w.store a).isSome) :
    (deliver ext cfg w f (.enableAttester fr a)).2.fail ≠ none ∧
    (deliver ext cfg w f (.enableAttester fr a)).1.store = w.store := by
  have hf : (deliver ext cfg w f (.enableAttester fr a)).2.fail ≠ none := by
    unfold deliver
    split
    · rename_i o ho
      obtain ⟨_, _, hnone, _⟩ := (enableAttester_ok ..).mp ho
      rw [hnone] at h; simp at h
    · simp
  exact ⟨hf, (C15.failed_tx_commits_nothing ext cfg w f _ hf).1⟩

theorem disable_unknown_rejected_no_effect (ext : Ext) (cfg : Cfg) (w : World) (f : List Bool) (fr a : Bytes)
    (h : getAttester w.store a = none) :
    (deliver ext cfg w f (.disableAttester fr a)).2.fail ≠ none ∧
    (deliver ext cfg w f (.disableAttester fr a)).1.store = w.store := by
  have hf : (deliver ext cfg w f (.disableAttester fr a)).2.fail ≠ none := by
    unfold deliver
    split
    · rename_i o ho
      obtain ⟨_, _, hsome, _⟩ := (disableAttester_ok ..).mp ho
      rw [h] at hsome; simp at hsome
    · simp
  exact ⟨hf, (C15.failed_tx_commits_nothing ext cfg w f _ hf).1⟩

/-! non-vacuity: a concrete state with two attesters and threshold 2 satisfies the invariant -/
example : Inv [(Key.attester [1], .attester [1]), (Key.attester [2], .attester [2]), (Key.threshold, .threshold 2)] :=
  ⟨2, by decide, by decide, by decide⟩


/-- the invariant over any list of multi-message transactions (an enable + threshold update + disable may share a
    transaction; a transaction that fails changes nothing). -/
theorem inv_txs (ext : Ext) (cfg : Cfg) (txs : List Txn) (w : World) (hs : w.settle = w) (hg : Good ext w.store)
    (hb : count w.store + (committed ext cfg w txs).length < 2 ^ 32) (hi : Inv w.store) :
    Inv (runTxs ext cfg w txs).1.store := by
  rw [runTxs_flatten ext cfg txs w hs]
  exact inv_run ext cfg _ w hg hb hi

/-- **From genesis**: if the chain is initialised from a genesis whose own threshold lies between 1 and the number of
    its (distinct) attesters, then after any chain of multi-message transactions — any senders, any fault plans, failing
    or not — the threshold still lies between 1 and the number of enabled attesters.  Nothing about the state is assumed
    beyond what InitGenesis built. -/
theorem inv_from_genesis (ext : Ext) (cfg : Cfg) (g : Genesis) (st0 : Store) (led : Ledger) (txs : List Txn)
    (hl : led.faults = []) (hi : Genesis.init ext [] g = .ok st0) (h0 : Inv st0)
    (hb : count st0 + (committed ext cfg ⟨st0, led⟩ txs).length < 2 ^ 32) :
    Inv (runTxs ext cfg ⟨st0, led⟩ txs).1.store := by
  have hs : (⟨st0, led⟩ : World).settle = ⟨st0, led⟩ := by
    cases led; simp only [World.settle] at *; simp_all
  exact inv_txs ext cfg txs ⟨st0, led⟩ hs (C17.good_init ext g st0 hi) hb h0

end Cctp.C13
