import Cctp.Props.C16
import Cctp.Gen.Constants
/-
  C16, the static half: the integer constants of x/cctp/types regenerated from /repo on every run (tie 1) have the
  values the model's codec is written against.  Names are compared up to the case of their first letter.
-/
namespace Cctp.C16
open Cctp Gen

/-- the constants the model uses, with the values it uses. -/
def modelledConstants : List (String × Nat) := [
  ("versionIndex", VersionIndex),
  ("sourceDomainIndex", SourceDomainIndex),
  ("destinationDomainIndex", DestinationDomainIndex),
  ("nonceIndex", NonceIndex),
  ("senderIndex", SenderIndex),
  ("recipientIndex", RecipientIndex),
  ("destinationCallerIndex", DestinationCallerIndex),
  ("messageBodyIndex", MessageBodyIndex),
  ("burnMsgVersionIndex", BurnMsgVersionIndex),
  ("versionLen", VersionLen),
  ("burnTokenIndex", BurnTokenIndex),
  ("burnTokenLen", BurnTokenLen),
  ("mintRecipientIndex", MintRecipientIndex),
  ("mintRecipientLen", MintRecipientLen),
  ("amountIndex", AmountIndex),
  ("amountLen", AmountLen),
  ("msgSenderIndex", MsgSenderIndex),
  ("msgSenderLen", MsgSenderLen),
  ("burnMessageLen", BurnMessageLen),
  ("nobleMessageVersion", NobleMessageVersion),
  ("messageBodyVersion", MessageBodyVersion),
  ("nobleDomainId", NobleDomainId),
  ("domainBytesLen", DomainBytesLen),
  ("usedNonceLen", UsedNonceLen),
  ("nonceBytesLen", NonceBytesLen),
  ("addressBytesLen", AddressBytesLen),
  ("destinationCallerLen", DestinationCallerLen),
  ("signatureLength", SignatureLength)]

/-- **Every layout constant the model relies on has, in the current source, the value the model gives it.** -/
theorem source_constants_as_modelled :
    (modelledConstants.all fun e => Gen.constantTable.lookup e.1 == some e.2) = true := by decide

end Cctp.C16
