import Cctp.Props.C18
import Cctp.Gen.Determinism
/-
  C18, the static half: the determinism scan regenerated from /repo's sources on every run (tie 1).
-/
namespace Cctp.C18
open Cctp Gen

/-- **No result depends on wall-clock time, randomness, map order, goroutines or package-level state**:
    the static scan of x/cctp/{types,keeper}/*.go and x/cctp/genesis.go (non-test, non-generated),
    regenerated on every run, finds no map range, no import of time / math/rand / crypto/rand / os / runtime /
    sync / unsafe, no go / select statement, no channel, no floating-point arithmetic or conversion back from floating point, no write through the receiver of a keeper method, and no function other than `init`
    that assigns to, updates, copies into or takes the address of a package-level variable.
    (Aliasing — `x := pkgVar; copy(x, …)` — is beyond this syntactic scan; the harness's
    replay-after-unrelated-history comparison is what covers it.) -/
theorem no_nondeterminism_sources : Gen.nondeterminismSources = [] := rfl

end Cctp.C18
