import Cctp.Props.C01
import Cctp.Props.C15
import Cctp.Lemmas.Wire
/-
  C03 — a message is received exactly when every acceptance condition holds.
  The conditions are phrased with the literal-offset reference decoders of Spec/Layout.lean.
-/
namespace Cctp.C03
open Cctp Cctp.Spec Gen

/-- the additional conditions for a message addressed to the CCTP module. -/
def MintOK (ext : Ext) (cfg : Cfg) (st : Store) (led : Ledger) (m : Message) : Prop :=
  burnPaused st = false ∧
  ∃ b pair msgr rcp, decodeBurn m.body = some b ∧ b.version = 0 ∧
    getPair ext st m.sourceDomain b.burnToken = some pair ∧ getMessenger st m.sourceDomain = some msgr ∧
    m.sender = msgr.2 ∧ ext.bech32Enc (b.mintRecipient.drop 12) = some rcp ∧
    (led.mint true (ext.accAddr rcp) (ext.toLower pair.2.2) (Int.ofNat b.amount)).1 = true

/-- every acceptance condition of a receive. -/
structure Accept (ext : Ext) (cfg : Cfg) (st : Store) (led : Ledger) (from_ msg att : Bytes) : Prop where
  receiving_not_paused : sendPaused st = false
  attesters_exist : (attestersOf st).length ≠ 0
  attestation_valid : ∃ t, getThreshold st = some t ∧ ValidAttestation ext msg att (attestersOf st) t
  header : ∃ m, decodeMessage msg = some m ∧ m.destDomain = 4 ∧ m.version = 0 ∧
    (m.caller = zeros 32 ∨ ext.bech32Enc (m.caller.drop 12) = some from_) ∧
    isUsed st m.sourceDomain m.nonce = false ∧
    (m.recipient = cfg.modulePadded → MintOK ext cfg st led m)

theorem parse_iff_decode (bz : Bytes) (m : Message) : Message.parse bz = .ok m ↔ decodeMessage bz = some m := by
  rw [C16.parse_eq_spec]
  cases decodeMessage bz <;> simp

theorem burn_parse_iff_decode (bz : Bytes) (b : BurnMessage) :
    BurnMessage.parse bz = .ok b ↔ ∃ sb, decodeBurn bz = some sb ∧ b = toModel sb := by
  rw [C16.burn_parse_eq_spec]
  cases decodeBurn bz with
  | none => simp
  | some sb => simp [eq_comm]

theorem mintBranch_ok_iff (ext : Ext) (cfg : Cfg) (st : Store) (led : Ledger) (m : Message) :
    (∃ mo, mintBranch ext cfg st led m = .ok mo) ↔ MintOK ext cfg st led m := by
  constructor
  · rintro ⟨mo, h⟩
    obtain ⟨h1, b, pair, msgr, rcp, hb, hv, hp, hm, hs, hr, hmint, _⟩ := (mintBranch_ok ..).mp h
    obtain ⟨sb, hsb, rfl⟩ := (burn_parse_iff_decode _ _).mp hb
    refine ⟨h1, sb, pair, msgr, rcp, hsb, by simpa [toModel, MessageBodyVersion] using hv, by simpa [toModel] using hp,
      hm, hs, by simpa [toModel] using hr, by simpa [toModel] using hmint⟩
  · rintro ⟨h1, sb, pair, msgr, rcp, hsb, hv, hp, hm, hs, hr, hmint⟩
    refine ⟨_, (mintBranch_ok ..).mpr ⟨h1, toModel sb, pair, msgr, rcp, (burn_parse_iff_decode _ _).mpr ⟨sb, hsb, rfl⟩,
      by simpa [toModel, MessageBodyVersion] using hv, by simpa [toModel] using hp, hm, hs,
      by simpa [toModel] using hr, by simpa [toModel] using hmint, rfl⟩⟩

/-- **A receive succeeds exactly when every acceptance condition holds** — for every subset of
    conditions made false, every field value realising it, every configuration and every fault plan
    (the fault plan is inside `led`). -/
theorem receive_ok_iff (ext : Ext) (cfg : Cfg) (st : Store) (led : Ledger) (from_ msg att : Bytes)
    (hlen : att.length < 2 ^ 32) :
    (∃ o, handle ext cfg st led (.receiveMessage from_ msg att) = .ok o) ↔ Accept ext cfg st led from_ msg att := by
  constructor
  · rintro ⟨o, h⟩
    obtain ⟨h1, h2, t, m, mo, h3, h4, hp, h5, h6, h7, h8, hmo, _⟩ := (receiveMessage_ok ..).mp h
    refine ⟨h1, h2, ⟨t, h3, (C01.verify_ok_iff ext msg att _ t hlen).mp h4⟩, m, (parse_iff_decode _ _).mp hp,
      by simpa [NobleDomainId] using h5, by simpa [NobleMessageVersion] using h7, h6, h8, ?_⟩
    intro hrec
    unfold mintOrSkip at hmo
    rw [if_pos hrec] at hmo
    exact (mintBranch_ok_iff ..).mp ⟨mo, hmo⟩
  · rintro ⟨h1, h2, ⟨t, h3, h4⟩, m, hd, h5, h7, h6, h8, hmint⟩
    have hv := (C01.verify_ok_iff ext msg att _ t hlen).mpr h4
    by_cases hrec : m.recipient = cfg.modulePadded
    · obtain ⟨mo, hmo⟩ := (mintBranch_ok_iff ..).mpr (hmint hrec)
      have : mintOrSkip ext cfg st led m = .ok mo := by unfold mintOrSkip; rw [if_pos hrec]; exact hmo
      exact ⟨_, (receiveMessage_ok ..).mpr ⟨h1, h2, t, m, mo, h3, hv, (parse_iff_decode _ _).mpr hd,
        by simpa [NobleDomainId] using h5, h6, by simpa [NobleMessageVersion] using h7, h8, this, rfl⟩⟩
    · have : mintOrSkip ext cfg st led m = .ok ⟨[], [], led⟩ := by unfold mintOrSkip; rw [if_neg hrec]; rfl
      exact ⟨_, (receiveMessage_ok ..).mpr ⟨h1, h2, t, m, _, h3, hv, (parse_iff_decode _ _).mpr hd,
        by simpa [NobleDomainId] using h5, h6, by simpa [NobleMessageVersion] using h7, h8, this, rfl⟩⟩

/-- the same statement at the transaction level (with an arbitrary fault plan). -/
theorem deliver_receive_ok_iff (ext : Ext) (cfg : Cfg) (w : World) (f : List Bool) (from_ msg att : Bytes)
    (hlen : att.length < 2 ^ 32) :
    (deliver ext cfg w f (.receiveMessage from_ msg att)).2.fail = none ↔
      Accept ext cfg w.store { w.ledger with faults := f } from_ msg att := by
  rw [← receive_ok_iff ext cfg w.store _ from_ msg att hlen]
  unfold deliver
  split
  · rename_i o ho; simp [ho]
  · rename_i e he; simp [he]

/-- **Violating any condition** — in any combination with the others — **makes it fail with no mint and
    no nonce consumed**: store (hence the used-nonce set), ledger and events are exactly as before, and
    the transaction reports no dependency call. -/
theorem receive_not_ok_no_effect (ext : Ext) (cfg : Cfg) (w : World) (f : List Bool) (from_ msg att : Bytes)
    (hlen : att.length < 2 ^ 32) (hno : ¬ Accept ext cfg w.store { w.ledger with faults := f } from_ msg att) :
    let r := deliver ext cfg w f (.receiveMessage from_ msg att)
    r.2.fail ≠ none ∧ r.1.store = w.store ∧ r.1.ledger = { w.ledger with faults := [] } ∧ r.2.events = [] ∧ r.2.deps = [] := by
  have hf : (deliver ext cfg w f (.receiveMessage from_ msg att)).2.fail ≠ none :=
    fun h => hno ((deliver_receive_ok_iff ext cfg w f from_ msg att hlen).mp h)
  obtain ⟨h1, h2, h3, _⟩ := C15.failed_tx_commits_nothing ext cfg w f _ hf
  refine ⟨hf, h1, h2, h3, ?_⟩
  unfold deliver at hf ⊢
  split
  · rename_i o ho; simp [ho] at hf
  · rfl

/-- the handler marks the nonce before it validates the burn message — which is why the rollback of
    C14 matters; recorded so the dependency is visible. -/
theorem receive_marks_before_validation (ext : Ext) (cfg : Cfg) (st : Store) (led : Ledger) (f msg att : Bytes) (o : Out)
    (h : handle ext cfg st led (.receiveMessage f msg att) = .ok o) :
    ∃ m, decodeMessage msg = some m ∧
      o.writes = [(Key.usedNonce m.sourceDomain m.nonce, some (.nonce m.sourceDomain m.nonce))] := by
  obtain ⟨m, hp, hw⟩ := C15.receiveMessage_writes h
  exact ⟨m, (parse_iff_decode _ _).mp hp, hw⟩

/-! ### non-vacuity: concrete accepted and rejected receives -/

/-- a toy world: "recovery" returns the first two signature bytes, bech32 is the identity. -/
def toyExt : Ext := ⟨fun b => zeros 12 ++ b, fun _ sig => some (sig.take 2), fun b => some b, fun b => some b, id,
  fun a b => a == b, fun _ => true, id⟩
def toyCfg : Cfg := ⟨List.replicate 20 7, [99]⟩
def toyLed : Ledger := ⟨[117], [], [], []⟩

/-- one enabled attester (hex "0101"), threshold 1, nothing paused, a messenger and a token pair for domain 0. -/
def toySt : Store :=
  Store.applyAll []
    [(Key.sendPaused, some (.flag false)), (Key.burnPaused, some (.flag false)), (Key.threshold, some (.threshold 1)),
     (Key.attester [48, 49, 48, 49], some (.attester [48, 49, 48, 49])),
     (Key.messenger 0, some (.messenger 0 (List.replicate 32 5))),
     (Key.tokenPair toyExt 0 (List.replicate 32 6), some (.pair 0 (List.replicate 32 6) [117]))]

/-- a message for somebody else (recipient 32×3), nonce 7, no destination caller, empty body. -/
def toyMsg : Bytes := encodeMessage ⟨0, 0, 4, 7, List.replicate 32 2, List.replicate 32 3, zeros 32, []⟩
/-- a burn message for the module: token 32×6, recipient 12 zeros ++ 20×8, amount 1000, from the registered messenger. -/
def toyBurn : Bytes :=
  encodeMessage ⟨0, 0, 4, 8, List.replicate 32 5, toyCfg.modulePadded, zeros 32,
    encodeBurn ⟨0, List.replicate 32 6, zeros 12 ++ List.replicate 20 8, 1000, List.replicate 32 9⟩⟩

def isOk {α} (r : R α) : Bool := match r with | .ok _ => true | .error _ => false
theorem isOk_iff {α} (r : R α) : isOk r = true ↔ ∃ o, r = .ok o := by
  cases r <;> simp [isOk]

example : Accept toyExt toyCfg toySt toyLed [1] toyMsg (List.replicate 65 1) :=
  (receive_ok_iff toyExt toyCfg toySt toyLed [1] toyMsg _ (by decide)).mp ((isOk_iff _).mp (by decide +kernel))
/-- … and an accepted mint (all of `MintOK` holds). -/
example : Accept toyExt toyCfg toySt toyLed [1] toyBurn (List.replicate 65 1) :=
  (receive_ok_iff toyExt toyCfg toySt toyLed [1] toyBurn _ (by decide)).mp ((isOk_iff _).mp (by decide +kernel))
/-- the same messages are refused when signed by a key that is not enabled, and when receiving is paused. -/
example : ¬ Accept toyExt toyCfg toySt toyLed [1] toyMsg (List.replicate 65 2) := fun h =>
  absurd ((isOk_iff _).mpr ((receive_ok_iff toyExt toyCfg toySt toyLed [1] toyMsg _ (by decide)).mpr h)) (by decide +kernel)
example : ¬ Accept toyExt toyCfg (toySt.set Key.sendPaused (.flag true)) toyLed [1] toyBurn (List.replicate 65 1) := fun h =>
  absurd ((isOk_iff _).mpr ((receive_ok_iff toyExt toyCfg _ toyLed [1] toyBurn _ (by decide)).mpr h)) (by decide +kernel)

end Cctp.C03
