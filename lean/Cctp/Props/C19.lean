import Cctp.Lemmas.Typed
import Cctp.Model.Queries
import Cctp.Props.C02
import Cctp.Lemmas.LastWrite
/-
  C19 — registries behave as exact maps and queries reflect them.
-/
namespace Cctp.C19
open Cctp Gen Spec

/-- the store after a successful transaction, key by key: a written key holds what was written, every
    other key what it held before. -/
theorem get_after_ok (ext : Ext) (cfg : Cfg) (w : World) (f : List Bool) (m : Msg) (o : Out) (hwf : w.store.WF)
    (ho : handle ext cfg w.store { w.ledger with faults := f } m = .ok o) (k : Bytes) :
    (deliver ext cfg w f m).1.store.get k = match lastWrite o.writes k with | some v => v | none => w.store.get k := by
  unfold deliver; rw [ho]; exact get_applyAll _ _ _ hwf

/-! ### remote token messengers -/

/-- adding creates exactly one entry (for the domain named), duplicates are rejected, … -/
theorem add_messenger (ext : Ext) (cfg : Cfg) (w : World) (f : List Bool) (fr : Bytes) (d : Nat) (a : Bytes) :
    ((deliver ext cfg w f (.addRemoteTokenMessenger fr d a)).2.fail = none →
      getMessenger w.store d = none ∧ a.length = 32 ∧
      getMessenger (deliver ext cfg w f (.addRemoteTokenMessenger fr d a)).1.store d = some (d, a)) ∧
    (getMessenger w.store d ≠ none → (deliver ext cfg w f (.addRemoteTokenMessenger fr d a)).2.fail ≠ none) := by
  constructor
  · intro hok
    unfold deliver at hok ⊢
    split
    · rename_i o ho
      obtain ⟨_, hn, hl, rfl⟩ := (addRemoteTokenMessenger_ok ..).mp ho
      refine ⟨hn, hl, ?_⟩
      simp [C15.adminOut_writes, Store.applyAll, Store.apply, getMessenger, Store.get_set_same]
    · rename_i e he; simp [he] at hok
  · intro hex hok
    unfold deliver at hok
    split at hok
    · rename_i o ho
      exact hex ((addRemoteTokenMessenger_ok ..).mp ho).2.1
    · simp at hok

/-- … removal deletes exactly that entry, and removing an absent one is rejected. -/
theorem remove_messenger (ext : Ext) (cfg : Cfg) (w : World) (f : List Bool) (fr : Bytes) (d : Nat) (hwf : w.store.WF) :
    ((deliver ext cfg w f (.removeRemoteTokenMessenger fr d)).2.fail = none →
      getMessenger w.store d ≠ none ∧ getMessenger (deliver ext cfg w f (.removeRemoteTokenMessenger fr d)).1.store d = none) ∧
    (getMessenger w.store d = none → (deliver ext cfg w f (.removeRemoteTokenMessenger fr d)).2.fail ≠ none) := by
  constructor
  · intro hok
    unfold deliver at hok ⊢
    split
    · rename_i o ho
      obtain ⟨_, mm, hm, rfl⟩ := (removeRemoteTokenMessenger_ok ..).mp ho
      refine ⟨by rw [hm]; simp, ?_⟩
      simp [C15.adminOut_writes, Store.applyAll, Store.apply, getMessenger, Store.get_del_same _ _ hwf]
    · rename_i e he; simp [he] at hok
  · intro hnone hok
    unfold deliver at hok
    split at hok
    · rename_i o ho
      obtain ⟨_, mm, hm, _⟩ := (removeRemoteTokenMessenger_ok ..).mp ho
      rw [hnone] at hm; cases hm
    · simp at hok

/-- distinct domains never interfere: whatever transaction is delivered, the entry of a domain whose key
    it is not documented to write is untouched (keys of distinct uint32 domains are distinct). -/
theorem messenger_frame (ext : Ext) (cfg : Cfg) (w : World) (f : List Bool) (m : Msg) (d : Nat)
    (hk : Key.messenger d ∉ documented ext m) (hg : Good ext w.store) (hinj : TokenKeyInj ext) :
    getMessenger (deliver ext cfg w f m).1.store d = getMessenger w.store d := by
  simp only [getMessenger, C15.untouched_outside_documented ext cfg w f m hg.typed.pairs hinj _ hk]

theorem messenger_keys_distinct (d d' : Nat) (hd : d < 2 ^ 32) (hd' : d' < 2 ^ 32) (h : d ≠ d') :
    Key.messenger d ≠ Key.messenger d' := fun e => h (messengerKey_injective d d' hd hd' e)

/-! ### attesters, burn limits, token pairs, used nonces: the same three facts -/

theorem enable_attester (ext : Ext) (cfg : Cfg) (w : World) (f : List Bool) (fr a : Bytes) :
    ((deliver ext cfg w f (.enableAttester fr a)).2.fail = none →
      getAttester w.store a = none ∧ getAttester (deliver ext cfg w f (.enableAttester fr a)).1.store a = some a) ∧
    (getAttester w.store a ≠ none → (deliver ext cfg w f (.enableAttester fr a)).2.fail ≠ none) := by
  constructor
  · intro hok
    unfold deliver at hok ⊢
    split
    · rename_i o ho
      obtain ⟨_, _, hn, rfl⟩ := (enableAttester_ok ..).mp ho
      exact ⟨hn, by simp [C15.adminOut_writes, Store.applyAll, Store.apply, getAttester, Store.get_set_same]⟩
    · rename_i e he; simp [he] at hok
  · intro hex hok
    unfold deliver at hok
    split at hok
    · rename_i o ho; exact hex ((enableAttester_ok ..).mp ho).2.2.1
    · simp at hok

theorem disable_attester (ext : Ext) (cfg : Cfg) (w : World) (f : List Bool) (fr a : Bytes) (hwf : w.store.WF) :
    ((deliver ext cfg w f (.disableAttester fr a)).2.fail = none →
      getAttester w.store a ≠ none ∧ getAttester (deliver ext cfg w f (.disableAttester fr a)).1.store a = none) ∧
    (getAttester w.store a = none → (deliver ext cfg w f (.disableAttester fr a)).2.fail ≠ none) := by
  constructor
  · intro hok
    unfold deliver at hok ⊢
    split
    · rename_i o ho
      obtain ⟨_, _, hs, _, _, _, _, rfl⟩ := (disableAttester_ok ..).mp ho
      refine ⟨by intro h; rw [h] at hs; simp at hs, ?_⟩
      simp [C15.adminOut_writes, Store.applyAll, Store.apply, getAttester, Store.get_del_same _ _ hwf]
    · rename_i e he; simp [he] at hok
  · intro hnone hok
    unfold deliver at hok
    split at hok
    · rename_i o ho
      have := ((disableAttester_ok ..).mp ho).2.2.1
      rw [hnone] at this; simp at this
    · simp at hok

theorem attester_keys_distinct (a a' : Bytes) (h : a ≠ a') : Key.attester a ≠ Key.attester a' :=
  fun e => h (attesterKey_injective a a' e)

/-- a burn limit is stored under — and only under — the LOWER-CASED denom. -/
theorem set_limit (ext : Ext) (cfg : Cfg) (w : World) (f : List Bool) (fr loc : Bytes) (amt : Option Int)
    (hok : (deliver ext cfg w f (.setMaxBurnAmountPerMessage fr loc amt)).2.fail = none) :
    getLimit (deliver ext cfg w f (.setMaxBurnAmountPerMessage fr loc amt)).1.store (ext.toLower loc) = some (amt.getD 0) := by
  unfold deliver at hok ⊢
  split
  · rename_i o ho
    obtain ⟨_, rfl⟩ := (setMaxBurnAmountPerMessage_ok ..).mp ho
    simp [C15.adminOut_writes, Store.applyAll, Store.apply, getLimit, Store.get_set_same]
  · rename_i e he; simp [he] at hok

theorem limit_keys_distinct (a a' : Bytes) (h : a ≠ a') : Key.limit a ≠ Key.limit a' :=
  fun e => h (limitKey_injective a a' e)

theorem link_pair (ext : Ext) (cfg : Cfg) (w : World) (f : List Bool) (fr : Bytes) (d : Nat) (t l : Bytes) :
    ((deliver ext cfg w f (.linkTokenPair fr d t l)).2.fail = none →
      getPair ext w.store d t = none ∧ t.length = 32 ∧
      getPair ext (deliver ext cfg w f (.linkTokenPair fr d t l)).1.store d t = some (d, t, ext.toLower l)) ∧
    (getPair ext w.store d t ≠ none → (deliver ext cfg w f (.linkTokenPair fr d t l)).2.fail ≠ none) := by
  constructor
  · intro hok
    unfold deliver at hok ⊢
    split
    · rename_i o ho
      obtain ⟨_, hl, hn, rfl⟩ := (linkTokenPair_ok ..).mp ho
      exact ⟨hn, hl, by simp [C15.adminOut_writes, Store.applyAll, Store.apply, getPair, Store.get_set_same]⟩
    · rename_i e he; simp [he] at hok
  · intro hex hok
    unfold deliver at hok
    split at hok
    · rename_i o ho; exact hex ((linkTokenPair_ok ..).mp ho).2.2.1
    · simp at hok

theorem unlink_pair (ext : Ext) (cfg : Cfg) (w : World) (f : List Bool) (fr : Bytes) (d : Nat) (t l : Bytes)
    (hg : Good ext w.store) (hinj : TokenKeyInj ext) :
    ((deliver ext cfg w f (.unlinkTokenPair fr d t l)).2.fail = none →
      getPair ext w.store d t ≠ none ∧ getPair ext (deliver ext cfg w f (.unlinkTokenPair fr d t l)).1.store d t = none) ∧
    (getPair ext w.store d t = none → (deliver ext cfg w f (.unlinkTokenPair fr d t l)).2.fail ≠ none) := by
  constructor
  · intro hok
    unfold deliver at hok ⊢
    split
    · rename_i o ho
      obtain ⟨_, _, p, hp, rfl⟩ := (unlinkTokenPair_ok ..).mp ho
      refine ⟨by rw [hp]; simp, ?_⟩
      -- the deleted key is derived from the stored pair; typing makes it the named key
      have hk : Key.tokenPair ext d p.2.1 = Key.tokenPair ext d t := by
        unfold getPair at hp
        split at hp
        · rename_i d' t' l' hget
          simp only [Option.some.injEq] at hp; subst hp
          have e := hg.typed _ _ hget
          simp only [ValOK] at e
          have : t = t' := hinj _ _ _ _ e
          subst this; rfl
        · cases hp
      simp [C15.adminOut_writes, Store.applyAll, Store.apply, getPair, hk, Store.get_del_same _ _ hg.wf]
    · rename_i e he; simp [he] at hok
  · intro hnone hok
    unfold deliver at hok
    split at hok
    · rename_i o ho
      obtain ⟨_, _, p, hp, _⟩ := (unlinkTokenPair_ok ..).mp ho
      rw [hnone] at hp; cases hp
    · simp at hok

/-- token-pair keys that differ in the domain only, or in the token only, are distinct — as far as Keccak is
    injective on the two 36-byte preimages (named hypothesis, never an axiom). -/
theorem pair_keys_distinct (ext : Ext) (d d' : Nat) (t t' : Bytes) (hd : d < 2 ^ 32) (hd' : d' < 2 ^ 32)
    (hk : ext.keccak256 (be DomainBytesLen d ++ t) = ext.keccak256 (be DomainBytesLen d' ++ t') →
          be DomainBytesLen d ++ t = be DomainBytesLen d' ++ t')
    (h : d ≠ d' ∨ t ≠ t') : Key.tokenPair ext d t ≠ Key.tokenPair ext d' t' := by
  intro e
  obtain ⟨h1, h2⟩ := tokenPairKey_injective ext d d' t t' hd hd' hk e
  rcases h with h | h
  · exact h h1
  · exact h h2

/-! ### queries reflect the registries -/

/-- **Single-item queries find an entry iff it exists.** -/
theorem single_item_queries (ext : Ext) (st : Store) :
    (∀ a, (∃ r, query ext st false (.attester a) = .ok r) ↔ getAttester st a ≠ none) ∧
    (∀ d, (∃ r, query ext st false (.remoteTokenMessenger d) = .ok r) ↔ getMessenger st d ≠ none) ∧
    (∀ d n, (∃ r, query ext st false (.usedNonce d n) = .ok r) ↔ isUsed st d n = true) ∧
    (∀ dn, (∃ r, query ext st false (.burnLimit dn) = .ok r) ↔ st.get (Key.limit dn) ≠ none) := by
  refine ⟨?_, ?_, ?_, ?_⟩
  · intro a
    cases h : getAttester st a <;> simp [query, h, req, getOr, bind, Except.bind, pure, Except.pure, throw, throwThe, MonadExceptOf.throw]
  · intro d
    cases h : getMessenger st d <;> simp [query, h, req, getOr, bind, Except.bind, pure, Except.pure, throw, throwThe, MonadExceptOf.throw]
  · intro d n
    cases h : isUsed st d n <;> simp [query, h, req, bind, Except.bind, pure, Except.pure, throw, throwThe, MonadExceptOf.throw]
  · intro dn
    cases h : st.get (Key.limit dn) <;> simp [query, h, req, getOr, bind, Except.bind, pure, Except.pure, throw, throwThe, MonadExceptOf.throw]

/-- the token-pair query takes the token as hex, left-pads it to 32 bytes and finds the pair iff one is
    stored for (domain, padded token). -/
theorem token_pair_query (ext : Ext) (st : Store) (d : Nat) (hex raw tok : Bytes)
    (h1 : hexDecodeStrict0x hex = some raw) (h2 : leftPad32 raw = some tok) :
    (∃ r, query ext st false (.tokenPair d hex) = .ok r) ↔ getPair ext st d tok ≠ none := by
  cases h : getPair ext st d tok <;>
    simp [query, h, h1, h2, req, getOr, bind, Except.bind, pure, Except.pure, throw, throwThe, MonadExceptOf.throw]

/-- scalar queries return the current values. -/
theorem scalar_queries (ext : Ext) (st : Store) :
    query ext st false .localDomain = .ok (.num 4) ∧ query ext st false .burnMessageVersion = .ok (.num 0) ∧
    query ext st false .localMessageVersion = .ok (.num 0) ∧
    (∀ b, getFlag st Key.burnPaused = some b → query ext st false .burningAndMintingPaused = .ok (.val (.flag b))) ∧
    (∀ b, getFlag st Key.sendPaused = some b → query ext st false .sendingAndReceivingPaused = .ok (.val (.flag b))) ∧
    (∀ n, getThreshold st = some n → query ext st false .signatureThreshold = .ok (.val (.threshold n))) ∧
    (∀ n, getSize st = some n → query ext st false .maxMessageBodySize = .ok (.val (.size n))) ∧
    (∀ d n, getNextNonce st = some (d, n) → query ext st false .nextAvailableNonce = .ok (.val (.nonce d n))) ∧
    (∀ o a p t, getRole st Key.owner = some o → getRole st Key.attesterManager = some a → getRole st Key.pauser = some p →
      getRole st Key.tokenController = some t → query ext st false .roles = .ok (.roles o a p t)) := by
  refine ⟨rfl, rfl, rfl, ?_, ?_, ?_, ?_, ?_, ?_⟩
  · intro b h; simp [query, h, req, getOr, bind, Except.bind, pure, Except.pure]
  · intro b h; simp [query, h, req, getOr, bind, Except.bind, pure, Except.pure]
  · intro n h; simp [query, h, req, getOr, bind, Except.bind, pure, Except.pure]
  · intro n h; simp [query, h, req, getOr, bind, Except.bind, pure, Except.pure]
  · intro d n h; simp [query, h, req, getOr, bind, Except.bind, pure, Except.pure]
  · intro o a p t h1 h2 h3 h4; simp [query, h1, h2, h3, h4, req, getMust, bind, Except.bind, pure, Except.pure]


/-! ### pagination: every entry exactly once, for every page size, in offset and in key mode -/

/-- what the offset-mode loop of `query.Paginate` collects: the entries numbered offset+1 … end. -/
theorem pageLoop_items (off e : Nat) (ct : Bool) (he : e + 1 < 2 ^ 64) (l : List (Bytes × Val)) (c : Nat) (acc : List Val) (nk : Bytes) :
    (pageLoop off e ct l c acc nk).1 = acc ++ ((l.drop (off - c)).take (e - max off c)).map (·.2) := by
  induction l generalizing c acc nk with
  | nil => simp [pageLoop]
  | cons p rest ih =>
    obtain ⟨k, v⟩ := p
    simp only [pageLoop]
    have hu : u64 (e + 1) = e + 1 := Nat.mod_eq_of_lt he
    by_cases h1 : c + 1 ≤ off
    · rw [if_pos h1, ih]
      have : off - c = (off - (c + 1)) + 1 := by omega
      rw [this, List.drop_succ_cons]
      congr 3; omega
    · rw [if_neg h1]
      by_cases h2 : c + 1 ≤ e
      · rw [if_pos h2, ih]
        have h3 : off - c = 0 := by omega
        have h4 : off - (c + 1) = 0 := by omega
        have h5 : e - max off c = (e - max off (c + 1)) + 1 := by omega
        rw [h3, h4, h5]
        simp [List.take_succ_cons]
      · rw [if_neg h2]
        have hz : e - max off c = 0 := by omega
        have hz' : e - max off (c + 1) = 0 := by omega
        by_cases h3 : c + 1 = u64 (e + 1)
        · rw [if_pos h3]
          cases ct
          · simp [hz]
          · simp only [Bool.not_true, Bool.false_eq_true, if_false]; rw [ih, hz, hz']; simp
        · rw [if_neg h3, ih, hz, hz']; simp

/-- with count_total the loop visits every entry: the reported total is the number of entries. -/
theorem pageLoop_total (off e : Nat) (l : List (Bytes × Val)) (c : Nat) (acc : List Val) (nk : Bytes) :
    (pageLoop off e true l c acc nk).2.2 = c + l.length := by
  induction l generalizing c acc nk with
  | nil => simp [pageLoop]
  | cons p rest ih =>
    obtain ⟨k, v⟩ := p
    simp only [pageLoop, List.length_cons]
    split
    · rw [ih]; omega
    · split
      · rw [ih]; omega
      · split
        · simp only [Bool.not_true, Bool.false_eq_true, if_false]; rw [ih]; omega
        · rw [ih]; omega

/-- **Offset mode**: the page at (offset, limit) is exactly the entries offset+1 … offset+limit, in key order,
    and the total (when requested) is the number of entries — for every limit ≥ 1 and every offset. -/
theorem offset_page (all : List (Bytes × Val)) (offset limit : Nat) (ct : Bool) (hl : limit ≠ 0)
    (hw : offset + limit + 1 < 2 ^ 64) :
    ∃ r, paginate all (some ⟨[], offset, limit, ct, false⟩) = .ok r ∧
      r.items = ((all.drop offset).take limit).map (·.2) ∧ (ct = true → r.total = all.length) := by
  have hu : u64 (offset + limit) = offset + limit := Nat.mod_eq_of_lt (by omega)
  have hp : paginate all (some ⟨[], offset, limit, ct, false⟩) = .ok
      { items := (pageLoop offset (offset + limit) ct all 0 [] []).1,
        nextKey := (pageLoop offset (offset + limit) ct all 0 [] []).2.1,
        total := if ct = true then (pageLoop offset (offset + limit) ct all 0 [] []).2.2 else 0 } := by
    simp [paginate, hl, hu, req, bind, Except.bind, pure, Except.pure]
  refine ⟨_, hp, ?_, ?_⟩
  · simp only []
    rw [pageLoop_items offset (offset + limit) ct (by omega)]
    simp only [Nat.sub_zero, Nat.zero_le, Nat.max_eq_left, List.nil_append]
    congr 2; omega
  · intro hct
    subst hct
    simp only [if_true]
    rw [pageLoop_total]; omega

/-- chunks of size L tile a list: so the pages at offsets 0, L, 2L, … return every entry exactly once. -/
theorem chunks_tile {α} (l : List α) (L : Nat) (hL : 0 < L) (n : Nat) :
    ((List.range n).map fun i => (l.drop (i * L)).take L).flatten ++ l.drop (n * L) = l := by
  induction n with
  | zero => simp
  | succ n ih =>
    rw [List.range_succ, List.map_append, List.flatten_append, List.append_assoc]
    simp only [List.map_cons, List.map_nil, List.flatten_cons, List.flatten_nil, List.append_nil]
    have : l.drop ((n + 1) * L) = (l.drop (n * L)).drop L := by rw [List.drop_drop, Nat.succ_mul]
    rw [this, List.take_append_drop]
    exact ih

theorem offset_pages_cover (all : List (Bytes × Val)) (limit : Nat) (hl : limit ≠ 0) (n : Nat) (hn : all.length ≤ n * limit) :
    ((List.range n).map fun i => ((all.drop (i * limit)).take limit).map (·.2)).flatten = all.map (·.2) := by
  have h := chunks_tile all limit (by omega) n
  have hd : all.drop (n * limit) = [] := List.drop_eq_nil_of_le hn
  rw [hd, List.append_nil] at h
  have := congrArg (List.map (·.2)) h
  rw [← this, List.map_flatten, List.map_map]
  rfl


/-- the next_key of an offset-mode page is the key of the first entry after the page (if any). -/
theorem pageLoop_nextKey (off e : Nat) (ct : Bool) (he : e + 1 < 2 ^ 64) (l : List (Bytes × Val)) (c : Nat) (acc : List Val) (nk : Bytes)
    (hoe : off ≤ e) (hc : c ≤ e) :
    (pageLoop off e ct l c acc nk).2.1 = match l.drop (e - c) with | (k, _) :: _ => k | [] => nk := by
  induction l generalizing c acc nk with
  | nil => simp [pageLoop]
  | cons p rest ih =>
    obtain ⟨k, v⟩ := p
    simp only [pageLoop]
    have hu : u64 (e + 1) = e + 1 := Nat.mod_eq_of_lt he
    by_cases h1 : c + 1 ≤ off
    · rw [if_pos h1, ih (c + 1) acc nk (by omega)]
      have : e - c = (e - (c + 1)) + 1 := by omega
      rw [this, List.drop_succ_cons]
    · rw [if_neg h1]
      by_cases h2 : c + 1 ≤ e
      · rw [if_pos h2, ih (c + 1) _ nk h2]
        have : e - c = (e - (c + 1)) + 1 := by omega
        rw [this, List.drop_succ_cons]
      · rw [if_neg h2]
        have hce : c = e := by omega
        subst hce
        rw [if_pos (by rw [hu])]
        simp only [Nat.sub_self, List.drop_zero]
        cases ct
        · simp
        · simp only [Bool.not_true, Bool.false_eq_true, if_false]
          -- the loop goes on (to count), but no later entry is numbered end+1 again
          have : ∀ (l' : List (Bytes × Val)) (c' : Nat) (acc' : List Val), c + 1 ≤ c' →
              (pageLoop off c true l' c' acc' k).2.1 = k := by
            intro l'
            induction l' with
            | nil => intro c' acc' _; simp [pageLoop]
            | cons q rest' ih' =>
              intro c' acc' hc'
              obtain ⟨k', v'⟩ := q
              simp only [pageLoop]
              rw [if_neg (by omega), if_neg (by omega), if_neg (by rw [hu]; omega)]
              exact ih' (c' + 1) acc' (by omega)
          exact this rest (c + 1) acc (Nat.le_refl _)

/-- entries at or after a start key (what `Iterator(start, nil)` yields). -/
def fromKey (all : List (Bytes × Val)) (start : Bytes) : List (Bytes × Val) := all.filter fun kv => !(blt kv.1 start)

/-- **Key mode**: the page at (key, limit) is the first `limit` entries at or after the key, and next_key is
    the key of the entry after them. -/
theorem key_page (all : List (Bytes × Val)) (key : Bytes) (limit : Nat) (ct : Bool) (hk : key.length ≠ 0) (hl : limit ≠ 0) :
    paginate all (some ⟨key, 0, limit, ct, false⟩) = .ok
      ⟨((fromKey all key).take limit).map (·.2), headKey ((fromKey all key).drop limit), 0⟩ := by
  simp [paginate, hk, hl, fromKey, req, bind, Except.bind, pure, Except.pure]

/-- keys strictly increasing (what a prefix-store iterator yields). -/
def Sorted (l : List (Bytes × Val)) : Prop := l.Pairwise fun a b => blt a.1 b.1 = true

theorem blt_asymm {a b : Bytes} (h : blt a b = true) : blt b a = false := by
  cases hb : blt b a with
  | false => rfl
  | true => have := blt_trans h hb; rw [blt_irrefl] at this; cases this

/-- in a sorted list, the entries at or after the key of the i-th entry are exactly the suffix from i. -/
theorem fromKey_sorted (all : List (Bytes × Val)) (hs : Sorted all) (i : Nat) (hi : i < all.length) :
    fromKey all (all[i]).1 = all.drop i := by
  induction all generalizing i with
  | nil => simp at hi
  | cons p rest ih =>
    obtain ⟨hhead, hrest⟩ := List.pairwise_cons.mp hs
    cases i with
    | zero =>
      simp only [List.getElem_cons_zero, fromKey, List.drop_zero]
      rw [List.filter_cons_of_pos (by simp [blt_irrefl])]
      congr 1
      apply List.filter_eq_self.mpr
      intro q hq
      simp [blt_asymm (hhead q hq)]
    | succ j =>
      simp only [List.getElem_cons_succ, List.drop_succ_cons, fromKey]
      have hj : j < rest.length := by simpa using hi
      have hlt : blt p.1 (rest[j]).1 = true := hhead _ (List.getElem_mem hj)
      rw [List.filter_cons_of_neg (by simp [hlt])]
      exact ih hrest j hj

/-- **Following next_key visits every entry exactly once**: in a sorted collection with non-empty item keys
    (item keys end in "/"), the key-mode page that starts at the i-th entry's key is the entries i … i+limit−1,
    and its next_key is the key of entry i+limit (or empty at the end) — so pages chained through next_key
    tile the collection, for every limit ≥ 1. -/
theorem key_pages_chain (all : List (Bytes × Val)) (hs : Sorted all) (hne : ∀ kv ∈ all, kv.1.length ≠ 0)
    (limit : Nat) (ct : Bool) (hl : limit ≠ 0) (i : Nat) (hi : i < all.length) :
    paginate all (some ⟨(all[i]).1, 0, limit, ct, false⟩) = .ok
      ⟨((all.drop i).take limit).map (·.2), headKey (all.drop (i + limit)), 0⟩ := by
  rw [key_page all _ limit ct (hne _ (List.getElem_mem hi)) hl, fromKey_sorted all hs i hi, List.drop_drop]

/-- the first page (no key) is the offset-0 page, and hands over to the chain above. -/
theorem first_page (all : List (Bytes × Val)) (limit : Nat) (hl : limit ≠ 0) (hw : limit + 1 < 2 ^ 64) :
    ∃ r, paginate all (some ⟨[], 0, limit, false, false⟩) = .ok r ∧ r.items = (all.take limit).map (·.2) ∧
      r.nextKey = headKey (all.drop limit) := by
  have hu : u64 limit = limit := by simp only [u64]; exact Nat.mod_eq_of_lt (by omega)
  have hp : paginate all (some ⟨[], 0, limit, false, false⟩) = .ok
      { items := (pageLoop 0 limit false all 0 [] []).1, nextKey := (pageLoop 0 limit false all 0 [] []).2.1, total := 0 } := by
    simp [paginate, hl, hu, req, bind, Except.bind, pure, Except.pure]
  refine ⟨_, hp, ?_, ?_⟩
  · simp only []
    rw [pageLoop_items 0 limit false (by omega)]
    simp
  · simp only []
    rw [pageLoop_nextKey 0 limit false (by omega) all 0 [] [] (by omega) (by omega)]
    simp only [Nat.sub_zero, headKey]
    cases all.drop limit with
    | nil => rfl
    | cons q _ => obtain ⟨k, v⟩ := q; rfl

/-- the entries a prefix store hands to Paginate are sorted: they are a sub-list of a sorted store with a
    common prefix stripped. -/
theorem blt_append_left (p a b : Bytes) : blt (p ++ a) (p ++ b) = blt a b := by
  induction p with
  | nil => rfl
  | cons x xs ih => simp [blt, ih, UInt8.lt_irrefl]

/-! non-vacuity: pages of size 2 over five entries -/
example : ((List.range 3).map fun i => (([1, 2, 3, 4, 5] : List Nat).drop (i * 2)).take 2).flatten = [1, 2, 3, 4, 5] := by decide

end Cctp.C19
