import Cctp.Lemmas.Batch
import Cctp.Spec.Toy
import Cctp.Props.C03
import Cctp.Lemmas.Ledger
import Cctp.Lemmas.Frame
/-
  C04 — every accepted burn message mints exactly what it says, once.
-/
namespace Cctp.C04
open Cctp Cctp.Spec Gen

/-- **A successful receive of a module-addressed message causes exactly one mint**: of the 256-bit
    big-endian amount of the burn body, in the lower-cased local denom linked to (source domain, burn token),
    to the bech32 form of the LOW 20 bytes of the mint-recipient field, requested in the module's own name;
    and the two events report those same values. -/
theorem receive_module_mints_exactly (ext : Ext) (cfg : Cfg) (st : Store) (led : Ledger) (from_ msg att : Bytes) (o : Out)
    (h : handle ext cfg st led (.receiveMessage from_ msg att) = .ok o) (m : Message) (hd : decodeMessage msg = some m)
    (hrec : m.recipient = cfg.modulePadded) :
    ∃ b pair rcp, decodeBurn m.body = some b ∧ getPair ext st m.sourceDomain b.burnToken = some pair ∧
      ext.bech32Enc (b.mintRecipient.drop 12) = some rcp ∧ (b.mintRecipient.drop 12).length = 20 ∧
      o.deps = [Dep.mint cfg.moduleStr rcp (ext.toLower pair.2.2) (Int.ofNat b.amount) true] ∧
      o.events = [Event.mintAndWithdraw b.mintRecipient (Int.ofNat b.amount) (ext.toLower pair.2.2),
                  Event.messageReceived from_ m.sourceDomain m.nonce m.sender m.body] ∧
      o.ledger = (led.mint true (ext.accAddr rcp) (ext.toLower pair.2.2) (Int.ofNat b.amount)).2 ∧
      b.amount < 2 ^ 256 := by
  obtain ⟨_, _, t, m', mo, _, _, hp, _, _, _, _, hmo, rfl⟩ := (receiveMessage_ok ..).mp h
  have := (C03.parse_iff_decode _ _).mp hp
  rw [hd] at this; cases this
  unfold mintOrSkip at hmo
  rw [if_pos hrec] at hmo
  obtain ⟨_, b, pair, msgr, rcp, hb, _, hpair, _, _, hr, _, rfl⟩ := (mintBranch_ok ..).mp hmo
  obtain ⟨sb, hsb, rfl⟩ := (C03.burn_parse_iff_decode _ _).mp hb
  have hl : m.body.length = 132 := by
    by_cases hl : m.body.length = 132
    · exact hl
    · simp [decodeBurn, hl] at hsb
  obtain ⟨sb', hsb', _, wf⟩ := C16.burn_decode_encode m.body hl
  rw [hsb] at hsb'; cases hsb'
  refine ⟨sb, pair, rcp, hsb, by simpa [toModel] using hpair, by simpa [toModel] using hr, ?_, by simp [toModel],
    by simp [toModel], by simp [toModel], wf.amount⟩
  simp [wf.recipient]

/-- a receive of a message NOT addressed to the module mints nothing (and its only event is MessageReceived). -/
theorem receive_other_mints_nothing (ext : Ext) (cfg : Cfg) (st : Store) (led : Ledger) (from_ msg att : Bytes) (o : Out)
    (h : handle ext cfg st led (.receiveMessage from_ msg att) = .ok o) (m : Message) (hd : decodeMessage msg = some m)
    (hrec : m.recipient ≠ cfg.modulePadded) :
    o.deps = [] ∧ o.ledger = led ∧
    o.events = [Event.messageReceived from_ m.sourceDomain m.nonce m.sender m.body] := by
  obtain ⟨_, _, t, m', mo, _, _, hp, _, _, _, _, hmo, rfl⟩ := (receiveMessage_ok ..).mp h
  have := (C03.parse_iff_decode _ _).mp hp
  rw [hd] at this; cases this
  unfold mintOrSkip at hmo
  rw [if_neg hrec] at hmo
  simp only [pure_ok] at hmo; subst hmo
  exact ⟨rfl, rfl, rfl⟩

def isMint : Dep → Bool
  | .mint .. => true
  | _ => false

/-- **Every other transaction type mints nothing.** -/
theorem no_other_mint (ext : Ext) (cfg : Cfg) (st : Store) (led : Ledger) (m : Msg) (o : Out)
    (hm : ∀ f msg att, m ≠ .receiveMessage f msg att) (h : handle ext cfg st led m = .ok o) :
    ∀ d ∈ o.deps, isMint d = false := by
  have dep : ∀ {f a d r t c o}, depositForBurn ext cfg st led f a d r t c = .ok o → ∀ d ∈ o.deps, isMint d = false := by
    intro f a d r t c o h
    obtain ⟨_, _, _, _, _, _, _, _, _, _, _, _, _, _, _, _, _, _, rfl⟩ := (depositForBurn_ok ..).mp h
    intro d hd; simp at hd; rcases hd with rfl | rfl <;> rfl
  have rep : ∀ {f og a b c o}, replaceMessage ext st led f og a b c = .ok o → o.deps = [] := by
    intro f og a b c o h
    obtain ⟨_, _, _, _, _, _, _, _, _, _, _, _, rfl⟩ := (replaceMessage_ok ..).mp h; rfl
  cases m with
  | receiveMessage f msg att => exact absurd rfl (hm f msg att)
  | depositForBurn f a d r t => exact dep h
  | depositForBurnWithCaller f a d r t c => exact dep ((depositForBurnWithCaller_ok ..).mp h).2.2
  | replaceMessage f og a b c => rw [rep h]; simp
  | replaceDepositForBurn f og a c r =>
    obtain ⟨_, _, _, _, _, inner, _, _, _, _, _, _, hin, rfl⟩ := (replaceDepositForBurn_ok ..).mp h
    intro d hd
    have : inner.deps = [] := rep hin
    simp [this] at hd
  | sendMessage f d r b => obtain ⟨_, _, _, _, rfl⟩ := (sendMessage_ok ..).mp h; simp [out0]
  | sendMessageWithCaller f d r b c => obtain ⟨_, _, _, _, _, _, rfl⟩ := (sendMessageWithCaller_ok ..).mp h; simp [out0]
  | acceptOwner f => obtain ⟨_, _, _, rfl⟩ := (acceptOwner_ok ..).mp h; simp [adminOut, out0]
  | addRemoteTokenMessenger f d a => obtain ⟨_, _, _, rfl⟩ := (addRemoteTokenMessenger_ok ..).mp h; simp [adminOut, out0]
  | disableAttester f a => obtain ⟨_, _, _, _, _, _, _, rfl⟩ := (disableAttester_ok ..).mp h; simp [adminOut, out0]
  | enableAttester f a => obtain ⟨_, _, _, rfl⟩ := (enableAttester_ok ..).mp h; simp [adminOut, out0]
  | linkTokenPair f d t l => obtain ⟨_, _, _, rfl⟩ := (linkTokenPair_ok ..).mp h; simp [adminOut, out0]
  | pauseBurning f => obtain ⟨_, rfl⟩ := (setFlag_ok ..).mp h; simp [adminOut, out0]
  | pauseSending f => obtain ⟨_, rfl⟩ := (setFlag_ok ..).mp h; simp [adminOut, out0]
  | removeRemoteTokenMessenger f d => obtain ⟨_, _, _, rfl⟩ := (removeRemoteTokenMessenger_ok ..).mp h; simp [adminOut, out0]
  | unlinkTokenPair f d t l => obtain ⟨_, _, _, _, rfl⟩ := (unlinkTokenPair_ok ..).mp h; simp [adminOut, out0]
  | unpauseBurning f => obtain ⟨_, rfl⟩ := (setFlag_ok ..).mp h; simp [adminOut, out0]
  | unpauseSending f => obtain ⟨_, rfl⟩ := (setFlag_ok ..).mp h; simp [adminOut, out0]
  | updateOwner f n => obtain ⟨_, _, rfl⟩ := (updateOwner_ok ..).mp h; simp [adminOut, out0]
  | updateAttesterManager f n => obtain ⟨_, _, _, _, rfl⟩ := (updateRole_ok ..).mp h; simp [adminOut, out0]
  | updateTokenController f n => obtain ⟨_, _, _, _, rfl⟩ := (updateRole_ok ..).mp h; simp [adminOut, out0]
  | updatePauser f n => obtain ⟨_, _, _, _, rfl⟩ := (updateRole_ok ..).mp h; simp [adminOut, out0]
  | updateMaxMessageBodySize f s => obtain ⟨_, rfl⟩ := (updateMaxMessageBodySize_ok ..).mp h; simp [adminOut, out0]
  | setMaxBurnAmountPerMessage f l a => obtain ⟨_, rfl⟩ := (setMaxBurnAmountPerMessage_ok ..).mp h; simp [adminOut, out0]
  | updateSignatureThreshold f a => obtain ⟨_, _, _, _, rfl⟩ := (updateSignatureThreshold_ok ..).mp h; simp [adminOut, out0]

/-- the amount minted by one transaction result (failed transactions report no dependency call). -/
def mintedBy (r : TxResult) : Int := (r.deps.map fun d => match d with | .mint _ _ _ a _ => a | _ => 0).sum

/-- the amount stated by the burn body of a module-addressed message (0 for everything else). -/
def statedAmount (cfg : Cfg) : Msg → Int
  | .receiveMessage _ msg _ =>
    match decodeMessage msg with
    | some m => if m.recipient = cfg.modulePadded then
        (match decodeBurn m.body with | some b => Int.ofNat b.amount | none => 0) else 0
    | none => 0
  | _ => 0

/-- one transaction mints exactly the stated amount of its burn message if it is a successful receive,
    and nothing otherwise. -/
theorem minted_step (ext : Ext) (cfg : Cfg) (w : World) (f : List Bool) (m : Msg) :
    mintedBy (deliver ext cfg w f m).2 = if (deliver ext cfg w f m).2.fail = none then statedAmount cfg m else 0 := by
  unfold deliver
  split
  · rename_i o ho
    simp only [if_true]
    by_cases hr : ∃ fr msg att, m = .receiveMessage fr msg att
    · obtain ⟨fr, msg, att, rfl⟩ := hr
      obtain ⟨_, _, t, m', mo, _, _, hp, _, _, _, _, _, _⟩ := (receiveMessage_ok ..).mp ho
      have hd := (C03.parse_iff_decode _ _).mp hp
      by_cases hrec : m'.recipient = cfg.modulePadded
      · obtain ⟨b, pair, rcp, hb, _, _, _, hdeps, _⟩ := receive_module_mints_exactly ext cfg _ _ fr msg att o ho m' hd hrec
        simp [mintedBy, statedAmount, hd, hrec, hb, hdeps]
      · obtain ⟨hdeps, _⟩ := receive_other_mints_nothing ext cfg _ _ fr msg att o ho m' hd hrec
        simp [mintedBy, statedAmount, hd, hrec, hdeps]
    · have hno := no_other_mint ext cfg w.store _ m o (fun fr msg att e => hr ⟨fr, msg, att, e⟩) ho
      have hs : statedAmount cfg m = 0 := by
        cases m <;> first | rfl | exact absurd ⟨_, _, _, rfl⟩ hr
      rw [hs]
      simp only [mintedBy]
      have : ∀ l : List Dep, (∀ d ∈ l, isMint d = false) → (l.map fun d => match d with | .mint _ _ _ a _ => a | _ => 0).sum = 0 := by
        intro l hl
        induction l with
        | nil => rfl
        | cons d ds ih =>
          have hd := hl d List.mem_cons_self
          cases d <;> simp [isMint] at hd <;> simp [ih (fun d' hd' => hl d' (List.mem_cons_of_mem _ hd'))]
      exact this _ hno
  · simp [mintedBy]

/-- **Conservation over any history**: total minted = the sum, over the successful receives of the history
    (which C02 shows are for pairwise distinct (source domain, nonce) pairs), of the amounts their burn
    messages state. -/
def totalMinted : List TxResult → Int
  | [] => 0
  | r :: rs => mintedBy r + totalMinted rs

def totalStated (cfg : Cfg) : History → List TxResult → Int
  | (_, m) :: h, r :: rs => (if r.fail = none then statedAmount cfg m else 0) + totalStated cfg h rs
  | _, _ => 0

theorem total_minted_eq_sum (ext : Ext) (cfg : Cfg) (h : History) (w : World) :
    totalMinted (run ext cfg w h).2 = totalStated cfg h (run ext cfg w h).2 := by
  induction h generalizing w with
  | nil => simp [run, totalMinted, totalStated]
  | cons fm rest ih =>
    obtain ⟨f, m⟩ := fm
    rw [run_results_cons]
    simp only [totalMinted, totalStated, minted_step, ih]

/-- on the ledger, a successful module-addressed receive credits exactly the recipient account with
    exactly the stated amount and raises supply by the same; nobody else's balance changes. -/
theorem receive_ledger_effect (ext : Ext) (cfg : Cfg) (st : Store) (led : Ledger) (from_ msg att : Bytes) (o : Out)
    (h : handle ext cfg st led (.receiveMessage from_ msg att) = .ok o) (m : Message) (hd : decodeMessage msg = some m)
    (hrec : m.recipient = cfg.modulePadded) :
    ∃ b rcp acct, decodeBurn m.body = some b ∧ ext.bech32Enc (b.mintRecipient.drop 12) = some rcp ∧
      ext.accAddr rcp = some acct ∧
      o.ledger.balance acct led.mintingDenom = led.balance acct led.mintingDenom + b.amount ∧
      o.ledger.supplyOf led.mintingDenom = led.supplyOf led.mintingDenom + b.amount ∧
      (∀ a' d', (a', d') ≠ (acct, led.mintingDenom) → o.ledger.balance a' d' = led.balance a' d') := by
  obtain ⟨_, _, t, m', mo, _, _, hp, _, _, _, _, hmo, rfl⟩ := (receiveMessage_ok ..).mp h
  have := (C03.parse_iff_decode _ _).mp hp
  rw [hd] at this; cases this
  unfold mintOrSkip at hmo; rw [if_pos hrec] at hmo
  obtain ⟨_, b', pair, msgr, rcp, hb', _, _, _, _, hr, hmint, rfl⟩ := (mintBranch_ok ..).mp hmo
  obtain ⟨sb, hsb, rfl⟩ := (C03.burn_parse_iff_decode _ _).mp hb'
  simp only [toModel, Option.getD_some] at hr hmint ⊢
  obtain ⟨_, acct, hacct, hden, hpos, hbal, hsup, hoth, _⟩ := Ledger.mint_ok _ _ _ _ hmint
  refine ⟨sb, rcp, acct, hsb, hr, hacct, ?_, ?_, ?_⟩
  · rw [← hden]; simpa using hbal
  · rw [← hden]; simpa using hsup
  · intro a' d' hne; exact hoth a' d' (by rw [hden]; exact hne)

/-! non-vacuity: the stated amount of a concrete module-addressed burn message is read off as 2^255+5 -/
example : (Int.ofNat (2 ^ 255 + 5) : Int) > 0 := by decide

/-! non-vacuity: in the toy world of Spec/Toy.lean an attested burn message for the module is received (and minted) -/
example : ∃ o, handle Toy.ext Toy.cfg Toy.st Toy.led Toy.receive = .ok o := (Toy.isOk_iff _).mp (by decide +kernel)


/-- conservation over any list of multi-message transactions: what the committed transactions minted is the sum
    of the amounts their accepted burn messages state (a mint inside a transaction that fails later is undone
    with it and is not counted on either side). -/
theorem total_minted_eq_sum_txs (ext : Ext) (cfg : Cfg) (txs : List Txn) (w : World) (hs : w.settle = w) :
    totalMinted (txResults ext cfg w txs) = totalStated cfg (committed ext cfg w txs) (txResults ext cfg w txs) := by
  rw [txResults, runTxs_results ext cfg txs w hs]
  exact total_minted_eq_sum ext cfg _ w

end Cctp.C04
