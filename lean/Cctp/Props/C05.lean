import Cctp.Lemmas.Batch
import Cctp.Spec.Toy
import Cctp.Lemmas.Shapes
import Cctp.Lemmas.Frame
import Cctp.Props.C04
/-
  C05 — every outbound burn message is backed by an equal burn.
-/
namespace Cctp.C05
open Cctp Cctp.Spec Gen

/-- **A successful deposit took exactly the stated amount of the minting denom from the depositor and
    destroyed it**: the two dependency calls are the transfer depositor → module and the burn in the module's
    name, both of (minting denom, amount); exactly one MessageSent is emitted, its sender is the module,
    and the amount in its burn body is the amount burnt. -/
theorem deposit_ok_calls (ext : Ext) (cfg : Cfg) (st : Store) (led : Ledger) (f : Bytes) (amount : Option Int) (dest : Nat)
    (rcp tok caller : Bytes) (o : Out) (h : depositForBurn ext cfg st led f amount dest rcp tok caller = .ok o) :
    ∃ addr maddr a bz m b, ext.accAddr f = some addr ∧ ext.accAddr cfg.moduleStr = some maddr ∧ amount = some a ∧ 0 < a ∧
      tok = led.mintingDenom ∧
      o.deps = [Dep.transfer addr ModuleName tok a true, Dep.burn cfg.moduleStr tok a true] ∧
      (o.events.filter (fun e => e.kind = .messageSent)) = [Event.messageSent bz] ∧
      decodeMessage bz = some m ∧ m.sender = pad12 maddr ∧ decodeBurn m.body = some b ∧ Int.ofNat b.amount = a ∧
      b.messageSender = pad12 addr := by
  obtain ⟨addr, maddr, a, msgr, bz, body, h1, h2, h3, h4, _, _, _, _, _, _, _, _, _, _, _, _, _, ht, hb, _, hdeps, hev, _, _, hdm, hdb⟩ :=
    (deposit_shape h).ex
  obtain ⟨_, _, _, _, hmd, _⟩ := Ledger.transfer_ok _ _ _ _ _ ht
  obtain ⟨_, hden, _⟩ := Ledger.burn_ok _ _ _ _ hb
  refine ⟨addr, maddr, a, bz, _, _, h1, h2, h3, h4, by rw [hden, hmd], hdeps, ?_, hdm, rfl, hdb, ?_, rfl⟩
  · rw [hev]; simp [Event.messageSent, Event.depositForBurn]
  · exact Int.toNat_of_nonneg (by omega)

/-- on the ledger: the depositor's balance drops by the amount, supply drops by the amount, the module
    account ends where it started, and nobody else is touched. -/
theorem deposit_ledger (ext : Ext) (cfg : Cfg) (st : Store) (led : Ledger) (f : Bytes) (amount : Option Int) (dest : Nat)
    (rcp tok caller : Bytes) (o : Out) (h : depositForBurn ext cfg st led f amount dest rcp tok caller = .ok o)
    (addr : Bytes) (ha : ext.accAddr f = some addr) (hne : addr ≠ cfg.moduleAddr) :
    ∃ a : Int, amount = some a ∧ 0 < a ∧
      o.ledger.balance addr tok + a.toNat = led.balance addr tok ∧
      o.ledger.balance cfg.moduleAddr tok = led.balance cfg.moduleAddr tok ∧
      o.ledger.supplyOf tok = led.supplyOf tok - a.toNat ∧
      (∀ a' d', (a', d') ≠ (addr, tok) → (a', d') ≠ (cfg.moduleAddr, tok) → o.ledger.balance a' d' = led.balance a' d') := by
  obtain ⟨addr', maddr, a, msgr, bz, body, h1, _, h3, h4, _, _, _, _, _, _, _, _, _, _, _, _, _, ht, hb, hl, _⟩ := (deposit_shape h).ex
  rw [ha] at h1; cases h1
  obtain ⟨_, _, hbal, hsup, _, hmove, hoth⟩ := Ledger.transfer_ok _ _ _ _ _ ht
  obtain ⟨hmv1, hmv2⟩ := hmove hne
  obtain ⟨_, _, _, hmb, hbb, hbs, hbo, _⟩ := Ledger.burn_ok _ _ _ _ hb
  refine ⟨a, h3, h4, ?_, ?_, ?_, ?_⟩
  · rw [hl, hbo addr tok (fun e => hne (Prod.mk.inj e).1), hmv1]; omega
  · rw [hl, hbb, hmv2]; omega
  · rw [hl, hbs]
    have : (led.transfer addr cfg.moduleAddr tok a).2.supplyOf tok = led.supplyOf tok := by simp [Ledger.supplyOf, hsup]
    rw [this]
  · intro a' d' h1' h2'
    rw [hl, hbo a' d' h2', hoth a' d' h1' h2']


/-- **Nothing is left in the module account, and nobody but the depositor is debited**: restated from
    `deposit_ledger` for readability. -/
theorem module_account_unchanged (ext : Ext) (cfg : Cfg) (st : Store) (led : Ledger) (f : Bytes) (amount : Option Int) (dest : Nat)
    (rcp tok caller : Bytes) (o : Out) (h : depositForBurn ext cfg st led f amount dest rcp tok caller = .ok o)
    (addr : Bytes) (ha : ext.accAddr f = some addr) (hne : addr ≠ cfg.moduleAddr) :
    o.ledger.balance cfg.moduleAddr tok = led.balance cfg.moduleAddr tok := by
  obtain ⟨_, _, _, _, hm, _⟩ := deposit_ledger ext cfg st led f amount dest rcp tok caller o h addr ha hne
  exact hm

/-- **No user-chosen field makes the module emit a message whose sender is anyone but the authenticated
    submitter** (the module itself, for deposits): the sender field of every MessageSent is `pad12` of the
    decoded `from` address (sends, replacements) or of the module's own address (deposits, deposit replacements). -/
theorem sender_is_submitter (ext : Ext) (cfg : Cfg) (st : Store) (led : Ledger) (o : Out) :
    (∀ f d r b, handle ext cfg st led (.sendMessage f d r b) = .ok o →
      ∃ addr bz m, ext.accAddr f = some addr ∧ o.events = [Event.messageSent bz] ∧ decodeMessage bz = some m ∧ m.sender = pad12 addr) ∧
    (∀ f d r b c, handle ext cfg st led (.sendMessageWithCaller f d r b c) = .ok o →
      ∃ addr bz m, ext.accAddr f = some addr ∧ o.events = [Event.messageSent bz] ∧ decodeMessage bz = some m ∧ m.sender = pad12 addr) ∧
    (∀ f og a b c, handle ext cfg st led (.replaceMessage f og a b c) = .ok o →
      ∃ addr bz m, ext.accAddr f = some addr ∧ o.events = [Event.messageSent bz] ∧ decodeMessage bz = some m ∧ m.sender = pad12 addr) := by
  refine ⟨?_, ?_, ?_⟩
  · intro f d r b h
    obtain ⟨addr, bz, ha, _, _, _, _, hev, _, _, _, _, hdec⟩ := send_shape h
    exact ⟨addr, bz, _, ha, hev, hdec, rfl⟩
  · intro f d r b c h
    obtain ⟨addr, bz, ha, _, _, _, _, _, _, hev, _, _, _, _, hdec⟩ := sendWithCaller_shape h
    exact ⟨addr, bz, _, ha, hev, hdec, rfl⟩
  · intro f og a b c h
    obtain ⟨t, om, addr, bz, _, _, _, _, ha, hs, _, hev, _, _, _, _, hdec⟩ := replace_shape h
    exact ⟨addr, bz, _, ha, hev, hdec, hs⟩

/-- a MessageSent whose sender is the module is emitted only by a deposit or by the replacement of a deposit
    (a replacement requires a validly attested original with the same nonce and amount, see C09): for the
    other two emitting types the sender is the submitter, so it is the module only if the submitter IS the
    module account — which has no key and cannot sign a transaction. -/
theorem module_sender_only_from_deposit (ext : Ext) (cfg : Cfg) (st : Store) (led : Ledger) (o : Out) (f : Bytes) (d : Nat) (r b : Bytes)
    (h : handle ext cfg st led (.sendMessage f d r b) = .ok o) (bz : Bytes) (m : Message)
    (hev : Event.messageSent bz ∈ o.events) (hd : decodeMessage bz = some m) (maddr : Bytes)
    (hm : m.sender = pad12 maddr) : ∃ addr, ext.accAddr f = some addr ∧ pad12 addr = pad12 maddr := by
  obtain ⟨addr, bz', m', ha, hev', hd', hs⟩ := (sender_is_submitter ext cfg st led o).1 f d r b h
  rw [hev'] at hev
  simp only [List.mem_singleton, Event.messageSent, Event.mk.injEq, List.cons.injEq, Field.bytes.injEq, and_true, true_and] at hev
  subst hev
  rw [hd] at hd'; cases hd'
  exact ⟨addr, ha, by rw [← hs, hm]⟩

/-- the amount burnt by one transaction result. -/
def burntBy (r : TxResult) : Int := (r.deps.map fun d => match d with | .burn _ _ a _ => a | _ => 0).sum

/-- the amount a deposit request states. -/
def depositAmount : Msg → Int
  | .depositForBurn _ (some a) .. => a
  | .depositForBurnWithCaller _ (some a) .. => a
  | _ => 0

/-- per transaction: what was destroyed through the module equals the stated amount of a successful deposit,
    and is zero for every other transaction (sends, replacements, receives, administrative, failures). -/
theorem burnt_step (ext : Ext) (cfg : Cfg) (w : World) (fl : List Bool) (m : Msg) :
    burntBy (deliver ext cfg w fl m).2 = if (deliver ext cfg w fl m).2.fail = none then depositAmount m else 0 := by
  unfold deliver
  split
  · rename_i o ho
    simp only [if_true]
    have dep : ∀ {f a d r t c o}, depositForBurn ext cfg w.store { w.ledger with faults := fl } f a d r t c = .ok o →
        ∃ a', a = some a' ∧ (o.deps.map fun d => match d with | .burn _ _ a _ => a | _ => 0).sum = a' := by
      intro f a d r t c o h
      obtain ⟨_, _, a', _, _, _, _, _, h3, _, _, _, _, _, _, _, _, _, _, _, _, _, _, _, _, _, hdeps, _⟩ := (deposit_shape h).ex
      exact ⟨a', h3, by rw [hdeps]; simp⟩
    have nodep : ∀ o : Out, o.deps = [] → (o.deps.map fun d => match d with | .burn _ _ a _ => a | _ => 0).sum = 0 := by
      intro o h; rw [h]; rfl
    cases m with
    | depositForBurn f a d r t =>
      obtain ⟨a', rfl, hs⟩ := dep ho; simpa [burntBy, depositAmount] using hs
    | depositForBurnWithCaller f a d r t c =>
      obtain ⟨a', rfl, hs⟩ := dep ((depositForBurnWithCaller_ok ..).mp ho).2.2; simpa [burntBy, depositAmount] using hs
    | receiveMessage f msg att =>
      obtain ⟨_, _, t, m', mo, _, _, _, _, _, _, _, hmo, rfl⟩ := (receiveMessage_ok ..).mp ho
      unfold mintOrSkip at hmo
      split at hmo
      · obtain ⟨_, _, _, _, _, _, _, _, _, _, _, _, rfl⟩ := (mintBranch_ok ..).mp hmo
        simp [burntBy, depositAmount]
      · simp only [pure_ok] at hmo; subst hmo; simp [burntBy, depositAmount]
    | sendMessage f d r b => obtain ⟨_, _, _, _, rfl⟩ := (sendMessage_ok ..).mp ho; simp [burntBy, depositAmount, out0]
    | sendMessageWithCaller f d r b c => obtain ⟨_, _, _, _, _, _, rfl⟩ := (sendMessageWithCaller_ok ..).mp ho; simp [burntBy, depositAmount, out0]
    | replaceMessage f og a b c =>
      obtain ⟨_, _, _, _, _, _, _, _, _, _, _, _, _, hd, _⟩ := replace_shape ho
      simp [burntBy, depositAmount, hd]
    | replaceDepositForBurn f og a c r =>
      obtain ⟨_, _, _, _, _, _, _, _, _, _, _, _, _, _, _, _, _, _, _, _, _, _, hd, _⟩ := replaceDeposit_shape ho
      simp [burntBy, depositAmount, hd]
    | acceptOwner f => obtain ⟨_, _, _, rfl⟩ := (acceptOwner_ok ..).mp ho; simp [burntBy, depositAmount, adminOut, out0]
    | addRemoteTokenMessenger f d a => obtain ⟨_, _, _, rfl⟩ := (addRemoteTokenMessenger_ok ..).mp ho; simp [burntBy, depositAmount, adminOut, out0]
    | disableAttester f a => obtain ⟨_, _, _, _, _, _, _, rfl⟩ := (disableAttester_ok ..).mp ho; simp [burntBy, depositAmount, adminOut, out0]
    | enableAttester f a => obtain ⟨_, _, _, rfl⟩ := (enableAttester_ok ..).mp ho; simp [burntBy, depositAmount, adminOut, out0]
    | linkTokenPair f d t l => obtain ⟨_, _, _, rfl⟩ := (linkTokenPair_ok ..).mp ho; simp [burntBy, depositAmount, adminOut, out0]
    | pauseBurning f => obtain ⟨_, rfl⟩ := (setFlag_ok ..).mp ho; simp [burntBy, depositAmount, adminOut, out0]
    | pauseSending f => obtain ⟨_, rfl⟩ := (setFlag_ok ..).mp ho; simp [burntBy, depositAmount, adminOut, out0]
    | removeRemoteTokenMessenger f d => obtain ⟨_, _, _, rfl⟩ := (removeRemoteTokenMessenger_ok ..).mp ho; simp [burntBy, depositAmount, adminOut, out0]
    | unlinkTokenPair f d t l => obtain ⟨_, _, _, _, rfl⟩ := (unlinkTokenPair_ok ..).mp ho; simp [burntBy, depositAmount, adminOut, out0]
    | unpauseBurning f => obtain ⟨_, rfl⟩ := (setFlag_ok ..).mp ho; simp [burntBy, depositAmount, adminOut, out0]
    | unpauseSending f => obtain ⟨_, rfl⟩ := (setFlag_ok ..).mp ho; simp [burntBy, depositAmount, adminOut, out0]
    | updateOwner f n => obtain ⟨_, _, rfl⟩ := (updateOwner_ok ..).mp ho; simp [burntBy, depositAmount, adminOut, out0]
    | updateAttesterManager f n => obtain ⟨_, _, _, _, rfl⟩ := (updateRole_ok ..).mp ho; simp [burntBy, depositAmount, adminOut, out0]
    | updateTokenController f n => obtain ⟨_, _, _, _, rfl⟩ := (updateRole_ok ..).mp ho; simp [burntBy, depositAmount, adminOut, out0]
    | updatePauser f n => obtain ⟨_, _, _, _, rfl⟩ := (updateRole_ok ..).mp ho; simp [burntBy, depositAmount, adminOut, out0]
    | updateMaxMessageBodySize f s => obtain ⟨_, rfl⟩ := (updateMaxMessageBodySize_ok ..).mp ho; simp [burntBy, depositAmount, adminOut, out0]
    | setMaxBurnAmountPerMessage f l a => obtain ⟨_, rfl⟩ := (setMaxBurnAmountPerMessage_ok ..).mp ho; simp [burntBy, depositAmount, adminOut, out0]
    | updateSignatureThreshold f a => obtain ⟨_, _, _, _, rfl⟩ := (updateSignatureThreshold_ok ..).mp ho; simp [burntBy, depositAmount, adminOut, out0]
  · simp [burntBy]

def totalBurnt : List TxResult → Int
  | [] => 0
  | r :: rs => burntBy r + totalBurnt rs

def totalDeposited : History → List TxResult → Int
  | (_, m) :: h, r :: rs => (if r.fail = none then depositAmount m else 0) + totalDeposited h rs
  | _, _ => 0

/-- **Over any history the supply destroyed through the module equals the sum of the amounts of the
    successful deposits** — each of which (C07) carries its own fresh nonce, and whose burn message (above)
    states that same amount; replacements reuse nonce and amount (C09) and burn nothing. -/
theorem burned_eq_sum (ext : Ext) (cfg : Cfg) (h : History) (w : World) :
    totalBurnt (run ext cfg w h).2 = totalDeposited h (run ext cfg w h).2 := by
  induction h generalizing w with
  | nil => simp [run, totalBurnt, totalDeposited]
  | cons fm rest ih =>
    obtain ⟨f, m⟩ := fm
    rw [run_results_cons]
    simp only [totalBurnt, totalDeposited, burnt_step, ih]

/-! non-vacuity: a concrete successful deposit (the hypothesis of `deposit_ok_calls` / `deposit_ledger`) and a concrete
    successful send by an ordinary account (the hypothesis of `sender_is_submitter`) -/
example : ∃ o, depositForBurn Toy.ext Toy.cfg Toy.st Toy.led Toy.alice (some 5) 0 (List.replicate 32 9) Toy.denom [] = .ok o :=
  (Toy.isOk_iff _).mp (by decide +kernel)
example : ∃ o, handle Toy.ext Toy.cfg Toy.st Toy.led Toy.send = .ok o := (Toy.isOk_iff _).mp (by decide +kernel)


/-- the same over any list of multi-message transactions. -/
theorem burned_eq_sum_txs (ext : Ext) (cfg : Cfg) (txs : List Txn) (w : World) (hs : w.settle = w) :
    totalBurnt (txResults ext cfg w txs) = totalDeposited (committed ext cfg w txs) (txResults ext cfg w txs) := by
  rw [txResults, runTxs_results ext cfg txs w hs]
  exact burned_eq_sum ext cfg _ w

end Cctp.C05
