import Cctp.Spec.Toy
import Cctp.Lemmas.Shapes
import Cctp.Props.C01
import Cctp.Model.Tx
/-
  C09 — replacement can only re-target the submitter's own attested message.
-/
namespace Cctp.C09
open Cctp Cctp.Spec Gen

/-- **Replace-message succeeds only for** an original that is validly attested under the CURRENT attester
    set and threshold, originated on Noble (source domain 4), and whose sender is the submitter — and only
    while sending is not paused. -/
theorem replace_ok_only_if (ext : Ext) (st : Store) (led : Ledger) (f orig att newBody newCaller : Bytes) (o : Out)
    (hlen : att.length < 2 ^ 32) (h : replaceMessage ext st led f orig att newBody newCaller = .ok o) :
    sendPaused st = false ∧
    ∃ t om addr, getThreshold st = some t ∧ ValidAttestation ext orig att (attestersOf st) t ∧
      decodeMessage orig = some om ∧ om.sourceDomain = 4 ∧ ext.accAddr f = some addr ∧ om.sender = pad12 addr := by
  obtain ⟨t, om, addr, bz, hp, ht, hv, hd, ha, hs, hsd, _⟩ := replace_shape h
  exact ⟨hp, t, om, addr, ht, (C01.verify_ok_iff ext orig att _ t hlen).mp hv, hd, hsd, ha, hs⟩

/-- **The replacement keeps** the original's nonce, source and destination domains, sender and recipient
    **and changes only** body and destination caller (both decoded with the reference decoder). -/
theorem replace_preserves (ext : Ext) (st : Store) (led : Ledger) (f orig att newBody newCaller : Bytes) (o : Out)
    (h : replaceMessage ext st led f orig att newBody newCaller = .ok o) :
    ∃ om nm bz, decodeMessage orig = some om ∧ o.events = [Event.messageSent bz] ∧ decodeMessage bz = some nm ∧
      nm.nonce = om.nonce ∧ nm.sourceDomain = om.sourceDomain ∧ nm.destDomain = om.destDomain ∧
      nm.sender = om.sender ∧ nm.recipient = om.recipient ∧ nm.caller = newCaller ∧ nm.body = newBody ∧ nm.version = 0 := by
  obtain ⟨t, om, addr, bz, _, _, _, hd, _, _, hsd, hev, _, _, _, _, hdec⟩ := replace_shape h
  exact ⟨om, _, bz, hd, hev, hdec, rfl, hsd.symm, rfl, rfl, rfl, rfl, rfl, rfl⟩

/-- **Replace-deposit-for-burn succeeds only for** a module-sent burn message whose depositor is the
    submitter, attested under the current configuration, with neither pause flag set and a non-zero
    32-byte new mint recipient. -/
theorem replace_deposit_ok_only_if (ext : Ext) (cfg : Cfg) (st : Store) (led : Ledger) (f orig att newCaller newRcp : Bytes)
    (o : Out) (hlen : att.length < 2 ^ 32) (h : replaceDepositForBurn ext cfg st led f orig att newCaller newRcp = .ok o) :
    burnPaused st = false ∧ sendPaused st = false ∧
    ∃ t om ob addr maddr, getThreshold st = some t ∧ ValidAttestation ext orig att (attestersOf st) t ∧
      decodeMessage orig = some om ∧ decodeBurn om.body = some ob ∧ om.sourceDomain = 4 ∧
      ext.accAddr cfg.moduleStr = some maddr ∧ om.sender = pad12 maddr ∧
      ext.accAddr f = some addr ∧ ob.messageSender = pad12 addr ∧ newRcp.length = 32 ∧ newRcp ≠ zeros 32 := by
  obtain ⟨t, om, ob, addr, maddr, bz, nbody, hbp, hsp, ht, hv, hom, hob, ha, hms, hma, hs, hsd, hrl, hrz, _⟩ := replaceDeposit_shape h
  exact ⟨hbp, hsp, t, om, ob, addr, maddr, ht, (C01.verify_ok_iff ext orig att _ t hlen).mp hv, hom, hob, hsd, hma, hs, ha, hms,
    hrl, hrz⟩

/-- **Its replacement additionally keeps** burn token, amount and depositor (and body version), **changing
    only** mint recipient and destination caller. -/
theorem replace_deposit_preserves (ext : Ext) (cfg : Cfg) (st : Store) (led : Ledger) (f orig att newCaller newRcp : Bytes)
    (o : Out) (h : replaceDepositForBurn ext cfg st led f orig att newCaller newRcp = .ok o) :
    ∃ om ob nm nb bz, decodeMessage orig = some om ∧ decodeBurn om.body = some ob ∧ Event.messageSent bz ∈ o.events ∧
      decodeMessage bz = some nm ∧ decodeBurn nm.body = some nb ∧
      nm.nonce = om.nonce ∧ nm.sourceDomain = om.sourceDomain ∧ nm.destDomain = om.destDomain ∧
      nm.sender = om.sender ∧ nm.recipient = om.recipient ∧ nm.caller = newCaller ∧
      nb.burnToken = ob.burnToken ∧ nb.amount = ob.amount ∧ nb.messageSender = ob.messageSender ∧
      nb.version = ob.version ∧ nb.mintRecipient = newRcp := by
  obtain ⟨t, om, ob, addr, maddr, bz, nbody, _, _, _, _, hom, hob, _, _, _, _, hsd, _, _, hev, _, _, _, hdec, hdnb⟩ :=
    replaceDeposit_shape h
  exact ⟨om, ob, _, _, bz, hom, hob, by rw [hev]; exact List.mem_cons_self, hdec, hdnb, rfl, hsd.symm, rfl, rfl, rfl, rfl,
    rfl, rfl, rfl, rfl, rfl⟩

/-- **Neither moves funds, consumes a nonce or changes any stored state** — at handler level, not merely
    after a rollback: no store write, no dependency call, the ledger handed back untouched. -/
theorem replace_no_effects (ext : Ext) (cfg : Cfg) (st : Store) (led : Ledger) (o : Out) :
    (∀ f orig att nb nc, handle ext cfg st led (.replaceMessage f orig att nb nc) = .ok o →
      o.writes = [] ∧ o.deps = [] ∧ o.ledger = led) ∧
    (∀ f orig att nc nr, handle ext cfg st led (.replaceDepositForBurn f orig att nc nr) = .ok o →
      o.writes = [] ∧ o.deps = [] ∧ o.ledger = led) := by
  constructor
  · intro f orig att nb nc h
    obtain ⟨_, _, _, _, _, _, _, _, _, _, _, _, hw, hd, hl, _⟩ := replace_shape h
    exact ⟨hw, hd, hl⟩
  · intro f orig att nc nr h
    obtain ⟨_, _, _, _, _, _, _, _, _, _, _, _, _, _, _, _, _, _, _, _, _, hw, hd, hl, _⟩ := replaceDeposit_shape h
    exact ⟨hw, hd, hl⟩

/-- at the transaction level: a replacement, successful or not, leaves store and ledger exactly as they were. -/
theorem replace_leaves_state (ext : Ext) (cfg : Cfg) (w : World) (fl : List Bool) (m : Msg)
    (hm : (∃ a b c d e, m = .replaceMessage a b c d e) ∨ (∃ a b c d e, m = .replaceDepositForBurn a b c d e)) :
    (deliver ext cfg w fl m).1.store = w.store ∧ (deliver ext cfg w fl m).1.ledger = { w.ledger with faults := [] } := by
  unfold deliver
  split
  · rename_i o ho
    rcases hm with ⟨a, b, c, d, e, rfl⟩ | ⟨a, b, c, d, e, rfl⟩
    · obtain ⟨hw, _, hl⟩ := (replace_no_effects ext cfg w.store _ o).1 _ _ _ _ _ ho
      simp [hw, hl, Store.applyAll]
    · obtain ⟨hw, _, hl⟩ := (replace_no_effects ext cfg w.store _ o).2 _ _ _ _ _ ho
      simp [hw, hl, Store.applyAll]
  · simp

/-- both respect the pause flags. -/
theorem replace_respects_pause (ext : Ext) (cfg : Cfg) (st : Store) (led : Ledger) :
    (sendPaused st = true → ∀ f og a b c o, handle ext cfg st led (.replaceMessage f og a b c) ≠ .ok o) ∧
    (sendPaused st = true → ∀ f og a c r o, handle ext cfg st led (.replaceDepositForBurn f og a c r) ≠ .ok o) ∧
    (burnPaused st = true → ∀ f og a c r o, handle ext cfg st led (.replaceDepositForBurn f og a c r) ≠ .ok o) := by
  refine ⟨?_, ?_, ?_⟩
  · intro hp f og a b c o h
    obtain ⟨_, _, _, _, h1, _⟩ := replace_shape h
    rw [hp] at h1; cases h1
  · intro hp f og a c r o h
    obtain ⟨_, _, _, _, _, _, _, _, h1, _⟩ := replaceDeposit_shape h
    rw [hp] at h1; cases h1
  · intro hp f og a c r o h
    obtain ⟨_, _, _, _, _, _, _, h1, _⟩ := replaceDeposit_shape h
    rw [hp] at h1; cases h1

/-! non-vacuity: alice replaces her own attested message; bob cannot -/
example : ∃ o, handle Toy.ext Toy.cfg Toy.st Toy.led Toy.replace = .ok o := (Toy.isOk_iff _).mp (by decide +kernel)
example : Toy.isOk (handle Toy.ext Toy.cfg Toy.st Toy.led (.replaceMessage Toy.bob Toy.sentByAlice Toy.sig1 [9] (zeros 32))) = false := by
  decide +kernel

end Cctp.C09
