import Cctp.Lemmas.Batch
import Cctp.Lemmas.NoPanic
import Cctp.Props.C03
import Cctp.Props.C11
import Cctp.Model.Queries
import Cctp.Model.Cli
import Cctp.Model.Genesis
import Cctp.Props.C17
/-
  C20 — no input crashes a handler, query, decoder or CLI address parser.
  PARTIAL: this is about the model, i.e. about the panics of the module's OWN code (nil dereferences,
  slice bounds, panicking getters, panicking constructors).  Panics inside library code reached through
  `Ext` (bech32, secp256k1, protobuf, IAVL) are outside the model; they are explored by the harness's
  recover() over the malformed-input stream, not proved.
-/
namespace Cctp.C20
open Cctp Cctp.Spec Gen

/-- attestations are byte strings of a transaction: far below 4 GiB (the guard under which the
    verifier's uint32 offsets are exact, see C01.offsets_exact_below_4GiB). -/
def AttOK : Msg → Prop
  | .receiveMessage _ _ att | .replaceMessage _ _ att _ _ | .replaceDepositForBurn _ _ att _ _ => att.length < 2 ^ 32
  | _ => True

theorem replaceMessage_ne_panic (ext : Ext) (st : Store) (led : Ledger) (f og att nb nc : Bytes) (h : att.length < 2 ^ 32) :
    replaceMessage ext st led f og att nb nc ≠ .error .panic := by
  intro hp
  simp only [replaceMessage, bind_panic_iff, req_panic_iff, getOr_panic_iff, pure_panic_iff, false_or] at hp
  obtain ⟨_, _, _, _, hp⟩ := hp
  rcases hp with hp | ⟨_, _, hp⟩
  · exact verify_ne_panic ext og att _ _ h hp
  · rcases hp with hp | ⟨_, _, _, _, _, _, _, _, hp⟩
    · exact parse_ne_panic og hp
    · rcases hp with hp | ⟨_, _, hp⟩
      · exact sendCore_ne_panic _ _ _ _ _ _ _ hp
      · exact hp

theorem sendMessage_ne_panic (ext : Ext) (st : Store) (led : Ledger) (f : Bytes) (d : Nat) (r b : Bytes) :
    sendMessage ext st led f d r b ≠ .error .panic := by
  intro hp
  simp only [sendMessage, bind_panic_iff, getOr_panic_iff, pure_panic_iff, false_or] at hp
  obtain ⟨_, _, hp⟩ := hp
  rcases hp with hp | ⟨_, _, hp⟩
  · exact sendCore_ne_panic _ _ _ _ _ _ _ hp
  · exact hp

theorem sendMessageWithCaller_ne_panic (ext : Ext) (st : Store) (led : Ledger) (f : Bytes) (d : Nat) (r b c : Bytes) :
    sendMessageWithCaller ext st led f d r b c ≠ .error .panic := by
  intro hp
  simp only [sendMessageWithCaller, bind_panic_iff, getOr_panic_iff, req_panic_iff, pure_panic_iff, false_or] at hp
  obtain ⟨_, _, _, _, hp⟩ := hp
  rcases hp with hp | ⟨_, _, hp⟩
  · exact sendCore_ne_panic _ _ _ _ _ _ _ hp
  · exact hp

/-- the deposit path: an ABSENT amount, a NEGATIVE or ZERO amount and an INVALID DENOM that only case-folds
    to the minting denom are all ordinary errors (these were panics before the fixes recorded in
    known_findings.jsonl). -/
theorem depositForBurn_ne_panic (ext : Ext) (cfg : Cfg) (st : Store) (led : Ledger) (f : Bytes) (a : Option Int) (d : Nat)
    (r t c : Bytes) (hw : ∀ x, a = some x → x.natAbs < 2 ^ 256) :
    depositForBurn ext cfg st led f a d r t c ≠ .error .panic := by
  intro hp
  simp only [depositForBurn, bind_panic_iff, getOr_panic_iff, req_panic_iff, reqAll_panic_iff, pure_panic_iff, false_or,
    getOr_ok] at hp
  obtain ⟨_, _, x, hx, _, _, _, _, _, _, _, _, _, _, _, _, _, _, _, _, _, _, hp⟩ := hp
  rcases hp with hp | ⟨_, _, hp⟩
  · exact burn_bytes_ne_panic _ x rfl (hw x hx) hp
  · rcases hp with hp | ⟨_, _, hp⟩
    · unfold innerSend at hp
      split at hp
      · exact sendMessage_ne_panic _ _ _ _ _ _ _ hp
      · exact sendMessageWithCaller_ne_panic _ _ _ _ _ _ _ _ hp
    · exact hp

theorem mintBranch_ne_panic (ext : Ext) (cfg : Cfg) (st : Store) (led : Ledger) (m : Message) :
    mintBranch ext cfg st led m ≠ .error .panic := by
  intro hp
  simp only [mintBranch, bind_panic_iff, getOr_panic_iff, req_panic_iff, pure_panic_iff, false_or] at hp
  obtain ⟨_, _, hp⟩ := hp
  rcases hp with hp | ⟨_, _, _, _, _, _, _, _, _, _, _, _, _, _, hp⟩
  · exact burn_parse_ne_panic _ hp
  · exact hp

theorem receiveMessage_ne_panic (ext : Ext) (cfg : Cfg) (st : Store) (led : Ledger) (f msg att : Bytes) (h : att.length < 2 ^ 32) :
    receiveMessage ext cfg st led f msg att ≠ .error .panic := by
  intro hp
  simp only [receiveMessage, bind_panic_iff, getOr_panic_iff, req_panic_iff, pure_panic_iff, false_or] at hp
  obtain ⟨_, _, _, _, _, _, hp⟩ := hp
  rcases hp with hp | ⟨_, _, hp⟩
  · exact verify_ne_panic ext msg att _ _ h hp
  · rcases hp with hp | ⟨_, _, _, _, hp⟩
    · exact parse_ne_panic msg hp
    · rcases hp with hp | ⟨_, _, _, _, _, _, hp⟩
      · unfold checkCaller at hp
        split at hp
        · simp at hp
        · simp at hp
      · rcases hp with hp | ⟨_, _, hp⟩
        · unfold mintOrSkip at hp
          split at hp
          · exact mintBranch_ne_panic _ _ _ _ _ hp
          · simp at hp
        · exact hp

theorem replaceDepositForBurn_ne_panic (ext : Ext) (cfg : Cfg) (st : Store) (led : Ledger) (f og att nc nr : Bytes)
    (h : att.length < 2 ^ 32) : replaceDepositForBurn ext cfg st led f og att nc nr ≠ .error .panic := by
  intro hp
  simp only [replaceDepositForBurn, bind_panic_iff, getOr_panic_iff, req_panic_iff, pure_panic_iff, false_or] at hp
  obtain ⟨_, _, hp⟩ := hp
  rcases hp with hp | ⟨m, hm, hp⟩
  · exact parse_ne_panic og hp
  · rcases hp with hp | ⟨b, hb, _, _, _, _, _, _, hp⟩
    · exact burn_parse_ne_panic _ hp
    · rcases hp with hp | ⟨_, _, hp⟩
      · -- the re-encoded body has the parsed (hence 256-bit, non-nil) amount
        obtain ⟨sb, hsb, rfl⟩ := (C03.burn_parse_iff_decode _ _).mp hb
        have hl : m.body.length = 132 := by
          by_cases hl : m.body.length = 132
          · exact hl
          · simp [decodeBurn, hl] at hsb
        obtain ⟨sb', hsb', _, wf⟩ := C16.burn_decode_encode m.body hl
        rw [hsb] at hsb'; cases hsb'
        exact burn_bytes_ne_panic _ (Int.ofNat sb.amount) rfl (by simpa using wf.amount) hp
      · rcases hp with hp | ⟨_, _, hp⟩
        · exact replaceMessage_ne_panic _ _ _ _ _ _ _ _ h hp
        · exact hp

/-- **No transaction message panics a handler** in any state whose four role slots are set (every state
    reachable from an initialised genesis, see `roles_always_set`), for every value of every field —
    absent amounts and byte fields, oversized values, non-ASCII strings, malformed addresses. -/
theorem no_panic_tx (ext : Ext) (cfg : Cfg) (st : Store) (led : Ledger) (m : Msg) (hr : RolesSet st) (ha : AttOK m)
    (hw : ∀ f a d r t, (m = .depositForBurn f a d r t ∨ ∃ c, m = .depositForBurnWithCaller f a d r t c) →
          ∀ x, a = some x → x.natAbs < 2 ^ 256) :
    handle ext cfg st led m ≠ .error .panic := by
  obtain ⟨o, ho⟩ := Option.isSome_iff_exists.mp hr.owner
  obtain ⟨am, ham⟩ := Option.isSome_iff_exists.mp hr.attesterManager
  obtain ⟨pa, hpa⟩ := Option.isSome_iff_exists.mp hr.pauser
  obtain ⟨tc, htc⟩ := Option.isSome_iff_exists.mp hr.tokenController
  intro hp
  cases m with
  | acceptOwner f => simp [handle, acceptOwner, ho] at hp
  | addRemoteTokenMessenger f d a => simp [handle, addRemoteTokenMessenger, ho] at hp
  | depositForBurn f a d r t => exact depositForBurn_ne_panic ext cfg st led f a d r t [] (hw f a d r t (Or.inl rfl)) hp
  | depositForBurnWithCaller f a d r t c =>
    simp only [handle, depositForBurnWithCaller, bind_panic_iff, req_panic_iff, false_or] at hp
    obtain ⟨_, _, hp⟩ := hp
    exact depositForBurn_ne_panic ext cfg st led f a d r t c (hw f a d r t (Or.inr ⟨c, rfl⟩)) hp
  | disableAttester f a => simp [handle, disableAttester, ham] at hp
  | enableAttester f a => simp [handle, enableAttester, ham] at hp
  | linkTokenPair f d t l => simp [handle, linkTokenPair, htc] at hp
  | pauseBurning f => simp [handle, setFlag, hpa] at hp
  | pauseSending f => simp [handle, setFlag, hpa] at hp
  | receiveMessage f msg att => exact receiveMessage_ne_panic ext cfg st led f msg att ha hp
  | removeRemoteTokenMessenger f d => simp [handle, removeRemoteTokenMessenger, ho] at hp
  | replaceDepositForBurn f og att nc nr => exact replaceDepositForBurn_ne_panic ext cfg st led f og att nc nr ha hp
  | replaceMessage f og att nb nc => exact replaceMessage_ne_panic ext st led f og att nb nc ha hp
  | sendMessage f d r b => exact sendMessage_ne_panic ext st led f d r b hp
  | sendMessageWithCaller f d r b c => exact sendMessageWithCaller_ne_panic ext st led f d r b c hp
  | unlinkTokenPair f d t l => simp [handle, unlinkTokenPair, htc] at hp
  | unpauseBurning f => simp [handle, setFlag, hpa] at hp
  | unpauseSending f => simp [handle, setFlag, hpa] at hp
  | updateOwner f n => simp [handle, updateOwner, ho] at hp
  | updateAttesterManager f n => simp [handle, updateRole, ho, ham] at hp
  | updateTokenController f n => simp [handle, updateRole, ho, htc] at hp
  | updatePauser f n => simp [handle, updateRole, ho, hpa] at hp
  | updateMaxMessageBodySize f s => simp [handle, updateMaxMessageBodySize, ho] at hp
  | setMaxBurnAmountPerMessage f l a => simp [handle, setMaxBurnAmountPerMessage, htc] at hp
  | updateSignatureThreshold f a => simp [handle, updateSignatureThreshold, ham] at hp

theorem roleStep_keeps (ext : Ext) (r : Roles) (m : Msg)
    (h : r.owner.isSome ∧ r.attesterManager.isSome ∧ r.pauser.isSome ∧ r.tokenController.isSome) :
    (roleStep ext r m).owner.isSome ∧ (roleStep ext r m).attesterManager.isSome ∧ (roleStep ext r m).pauser.isSome ∧
    (roleStep ext r m).tokenController.isSome := by
  cases m <;> simp only [roleStep] <;> first
    | exact h
    | (split <;> simp_all)

/-- the four role slots stay set: the lifecycle automaton (C11) never empties owner, attester manager,
    pauser or token controller. -/
theorem roles_preserved (ext : Ext) (cfg : Cfg) (w : World) (f : List Bool) (m : Msg) (hg : Good ext w.store)
    (hr : RolesSet w.store) : RolesSet (deliver ext cfg w f m).1.store := by
  have href := C11.roles_refine ext cfg w f m hg
  obtain ⟨h1, h2, h3, h4⟩ := hr
  have e1 : getRole (deliver ext cfg w f m).1.store Key.owner = (roleStep ext (C11.abs w.store) m).owner := by
    rw [← href]; rfl
  have e2 : getRole (deliver ext cfg w f m).1.store Key.attesterManager = (roleStep ext (C11.abs w.store) m).attesterManager := by
    rw [← href]; rfl
  have e3 : getRole (deliver ext cfg w f m).1.store Key.pauser = (roleStep ext (C11.abs w.store) m).pauser := by
    rw [← href]; rfl
  have e4 : getRole (deliver ext cfg w f m).1.store Key.tokenController = (roleStep ext (C11.abs w.store) m).tokenController := by
    rw [← href]; rfl
  have keep := roleStep_keeps ext (C11.abs w.store) m ⟨h1, h2, h3, h4⟩
  exact ⟨by rw [e1]; exact keep.1, by rw [e2]; exact keep.2.1, by rw [e3]; exact keep.2.2.1, by rw [e4]; exact keep.2.2.2⟩

theorem roles_run (ext : Ext) (cfg : Cfg) (h : History) (w : World) (hg : Good ext w.store) (hr : RolesSet w.store) :
    RolesSet (runState ext cfg w h).store := by
  induction h generalizing w with
  | nil => exact hr
  | cons fm rest ih =>
    obtain ⟨f, m⟩ := fm
    rw [runState_cons]
    exact ih _ (good_deliver ext cfg w f m hg) (roles_preserved ext cfg w f m hg hr)

/-! ### decoders, verifier, CLI parser, queries -/

/-- **Every byte string given to the message decoders yields a value or an error.** -/
theorem decoders_never_panic (bz : Bytes) :
    Message.parse bz ≠ .error .panic ∧ BurnMessage.parse bz ≠ .error .panic :=
  ⟨parse_ne_panic bz, burn_parse_ne_panic bz⟩

/-- the exported attestation verifier never panics on attestations below 4 GiB (it did, before the fix
    recorded in known_findings.jsonl, for thresholds ≥ 66 076 420: the uint32 product 65·t wrapped). -/
theorem verifier_never_panics (ext : Ext) (msg att : Bytes) (attesters : List Bytes) (t : Nat) (h : att.length < 2 ^ 32) :
    verify ext msg att attesters t ≠ .error .panic := verify_ne_panic ext msg att attesters t h

/-- **Every address argument given to the command-line client yields a result or an error**
    (one-character and empty arguments sliced out of range before the fix recorded in known_findings.jsonl). -/
theorem cli_parse_never_panics (ext : Ext) (s : Bytes) : parseAddress ext s ≠ .error .panic := by
  intro h; simp [parseAddress] at h

/-- `query.Paginate` as the list queries call it panics in exactly one situation: reverse iteration from a
    key with exactly one entry at or after that key (`itr.Next(); itr.Key()` on an exhausted iterator).
    This is SDK library behaviour reached through the module's list queries — a KNOWN FINDING, confirmed on
    the real code by the correspondence run (both sides panic). -/
theorem paginate_panics_iff (all : List (Bytes × Val)) (rq : PageReq) :
    paginate all (some rq) = .error .panic ↔
      rq.reverse = true ∧ rq.key.length ≠ 0 ∧ ¬ (rq.offset > 0) ∧
      (all.filter fun kv => !(blt kv.1 rq.key)).length = 1 := by
  unfold paginate
  simp only [Option.getD_some]
  by_cases hk : rq.key.length ≠ 0
  · by_cases ho : rq.offset > 0
    · simp [hk, ho, req, bind, Except.bind, throw, throwThe, MonadExceptOf.throw]
    · by_cases hrev : rq.reverse = true
      · cases hf : (all.filter fun kv => !(blt kv.1 rq.key)) with
        | nil => simp [hk, ho, hrev, hf, req, bind, Except.bind, pure, Except.pure]
        | cons a rest =>
          cases rest with
          | nil => simp [hk, ho, hrev, hf, req, bind, Except.bind, pure, Except.pure, throw, throwThe, MonadExceptOf.throw]
          | cons b rest' => obtain ⟨k2, v2⟩ := b; simp [hk, ho, hrev, hf, req, bind, Except.bind, pure, Except.pure]
      · simp [hk, ho, hrev, req, bind, Except.bind, pure, Except.pure]
  · have hk' : rq.key.length = 0 := by omega
    simp [hk', req, bind, Except.bind, pure, Except.pure]
    split <;> simp [pure, Except.pure]

/-- a nil page request never panics. -/
theorem paginate_nil_ok (all : List (Bytes × Val)) : paginate all none ≠ .error .panic := by
  unfold paginate
  simp [req, bind, Except.bind, pure, Except.pure]

/-- **Every query request yields a result or an error** in a state with the four roles set, except for the
    paginate situation above. -/
theorem no_panic_query (ext : Ext) (st : Store) (nilReq : Bool) (q : Query) (hr : RolesSet st)
    (hp : ∀ p rq, (q = .attesters p ∨ q = .burnLimits p ∨ q = .tokenPairs p ∨ q = .usedNonces p ∨ q = .remoteTokenMessengers p) →
        p = some rq → ¬ (rq.reverse = true ∧ rq.key.length ≠ 0)) :
    query ext st nilReq q ≠ .error .panic := by
  obtain ⟨o, ho⟩ := Option.isSome_iff_exists.mp hr.owner
  obtain ⟨am, ham⟩ := Option.isSome_iff_exists.mp hr.attesterManager
  obtain ⟨pa, hpa⟩ := Option.isSome_iff_exists.mp hr.pauser
  obtain ⟨tc, htc⟩ := Option.isSome_iff_exists.mp hr.tokenController
  have lq : ∀ pfx p, (∀ rq, p = some rq → ¬ (rq.reverse = true ∧ rq.key.length ≠ 0)) → listQuery st pfx p ≠ .error .panic := by
    intro pfx p hpp h
    simp only [listQuery, bind_panic_iff, pure_panic_iff, or_false, and_false, exists_false] at h
    cases p with
    | none => exact paginate_nil_ok _ h
    | some rq =>
      have := (paginate_panics_iff _ rq).mp h
      exact hpp rq rfl ⟨this.1, this.2.1⟩
  intro h
  cases q with
  | attesters p => simp only [query, bind_panic_iff, req_panic_iff, false_or] at h; obtain ⟨_, _, h⟩ := h; exact lq _ p (fun rq e => hp p rq (Or.inl rfl) e) h
  | burnLimits p => simp only [query, bind_panic_iff, req_panic_iff, false_or] at h; obtain ⟨_, _, h⟩ := h; exact lq _ p (fun rq e => hp p rq (Or.inr (Or.inl rfl)) e) h
  | tokenPairs p => simp only [query, bind_panic_iff, req_panic_iff, false_or] at h; obtain ⟨_, _, h⟩ := h; exact lq _ p (fun rq e => hp p rq (Or.inr (Or.inr (Or.inl rfl))) e) h
  | usedNonces p => simp only [query, bind_panic_iff, req_panic_iff, false_or] at h; obtain ⟨_, _, h⟩ := h; exact lq _ p (fun rq e => hp p rq (Or.inr (Or.inr (Or.inr (Or.inl rfl)))) e) h
  | remoteTokenMessengers p => simp only [query, bind_panic_iff, req_panic_iff, false_or] at h; obtain ⟨_, _, h⟩ := h; exact lq _ p (fun rq e => hp p rq (Or.inr (Or.inr (Or.inr (Or.inr rfl)))) e) h
  | roles => simp [query, ho, ham, hpa, htc] at h
  | _ => simp [query] at h

/-! non-vacuity: a state with the four roles set -/
example : RolesSet [(Key.attesterManager, .role [2]), (Key.owner, .role [1]), (Key.pauser, .role [3]), (Key.tokenController, .role [4])] :=
  ⟨by decide, by decide, by decide, by decide⟩


/-- the role slots stay set over any list of multi-message transactions, so `no_panic_tx` applies to every message
    of every transaction in every state a chain can reach (inside a transaction too: the branch a message runs on is
    `runState` of the messages before it). -/
theorem roles_txs (ext : Ext) (cfg : Cfg) (txs : List Txn) (w : World) (hs : w.settle = w) (hg : Good ext w.store)
    (hr : RolesSet w.store) : RolesSet (runTxs ext cfg w txs).1.store := by
  rw [runTxs_flatten ext cfg txs w hs]
  exact roles_run ext cfg _ w hg hr

/-! ### the property's own quantifier: every state reachable from an initialised genesis -/

/-- a state the chain can be in: some genesis that initialises, then any chain of (multi-message) transactions with any
    fault plans of the dependencies. -/
def reached (ext : Ext) (cfg : Cfg) (g : Genesis) (st0 : Store) (led : Ledger) (txs : List Txn) : World :=
  (runTxs ext cfg ⟨st0, led⟩ txs).1

theorem reached_roles (ext : Ext) (cfg : Cfg) (g : Genesis) (st0 : Store) (led : Ledger) (txs : List Txn)
    (hl : led.faults = []) (hi : Genesis.init ext [] g = .ok st0) : RolesSet (reached ext cfg g st0 led txs).store := by
  have hs : (⟨st0, led⟩ : World).settle = ⟨st0, led⟩ := by
    cases led; simp only [World.settle] at *; simp_all
  exact roles_txs ext cfg txs _ hs (C17.good_init ext g st0 hi) (C17.init_roles_set ext g st0 hi).1

/-- **No transaction panics in any state reachable from an initialised genesis**, with no invariant left as a
    hypothesis: whatever the genesis (as long as InitGenesis itself accepts it), whatever chain of transactions and
    dependency failures led here, whatever message comes next and whatever its own fault plan — under the two bounds the
    wire imposes (an attestation shorter than 4 GiB, amounts of at most 256 bits). -/
theorem no_panic_reachable (ext : Ext) (cfg : Cfg) (g : Genesis) (st0 : Store) (led : Ledger) (txs : List Txn)
    (hl : led.faults = []) (hi : Genesis.init ext [] g = .ok st0) (f : List Bool) (m : Msg) (ha : AttOK m)
    (hw : ∀ fr a d r t, (m = .depositForBurn fr a d r t ∨ ∃ c, m = .depositForBurnWithCaller fr a d r t c) →
          ∀ x, a = some x → x.natAbs < 2 ^ 256) :
    (deliver ext cfg (reached ext cfg g st0 led txs) f m).2.fail ≠ some .panic := by
  have hr := reached_roles ext cfg g st0 led txs hl hi
  have hnp := no_panic_tx ext cfg (reached ext cfg g st0 led txs).store
    { (reached ext cfg g st0 led txs).ledger with faults := f } m hr ha hw
  unfold deliver
  split
  · simp
  · rename_i e he
    intro h
    simp only [Option.some.injEq] at h
    exact hnp (h ▸ he)

/-- … and no query does, except the one request shape of the known finding (reverse pagination from a key, SDK code). -/
theorem no_panic_query_reachable (ext : Ext) (cfg : Cfg) (g : Genesis) (st0 : Store) (led : Ledger) (txs : List Txn)
    (hl : led.faults = []) (hi : Genesis.init ext [] g = .ok st0) (nilReq : Bool) (q : Query)
    (hp : ∀ p rq, (q = .attesters p ∨ q = .burnLimits p ∨ q = .tokenPairs p ∨ q = .usedNonces p ∨ q = .remoteTokenMessengers p) →
        p = some rq → ¬ (rq.reverse = true ∧ rq.key.length ≠ 0)) :
    query ext (reached ext cfg g st0 led txs).store nilReq q ≠ .error .panic :=
  no_panic_query ext _ nilReq q (reached_roles ext cfg g st0 led txs hl hi) hp

/-! non-vacuity: the toy genesis initialises, so every state reached from it by any chain of transactions — here a
    deposit and a receive in one transaction, then a send — meets the hypotheses of `no_panic_reachable`; the next
    message (a replacement, a deposit with an absent amount) does not panic there -/
example : (deliver Toy.ext Toy.cfg (reached Toy.ext Toy.cfg Toy.genesis Toy.st Toy.led [[([], Toy.deposit), ([], Toy.receive)], [([], Toy.send)]])
    [] Toy.replace).2.fail ≠ some .panic :=
  no_panic_reachable Toy.ext Toy.cfg Toy.genesis Toy.st Toy.led _ rfl rfl [] Toy.replace (by simp [AttOK, Toy.replace, Toy.sig1])
    (by intro fr a d r t h; rcases h with h | ⟨c, h⟩ <;> simp [Toy.replace] at h)
example : (deliver Toy.ext Toy.cfg (reached Toy.ext Toy.cfg Toy.genesis Toy.st Toy.led []) [true]
    (.depositForBurn Toy.alice none 0 (List.replicate 32 9) Toy.denom)).2.fail ≠ some .panic :=
  no_panic_reachable Toy.ext Toy.cfg Toy.genesis Toy.st Toy.led _ rfl rfl [true] _ (by simp [AttOK])
    (by intro fr a d r t h x hx; rcases h with h | ⟨c, h⟩ <;> simp at h; obtain ⟨_, rfl, _⟩ := h; cases hx)

end Cctp.C20
