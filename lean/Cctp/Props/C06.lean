import Cctp.Spec.Toy
import Cctp.Lemmas.Shapes
/-
  C06 — outbound messages carry exactly the requested content.
  Every MessageSent payload is read with the literal-offset reference decoder of Spec/Layout.lean.
-/
namespace Cctp.C06
open Cctp Cctp.Spec Gen

/-- SendMessage: version 0, source 4, the response nonce, sender = the submitter's address left-padded to
    32 bytes, exactly the requested destination domain, recipient and body, and an all-zero destination caller. -/
theorem send_content (ext : Ext) (cfg : Cfg) (st : Store) (led : Ledger) (f : Bytes) (dest : Nat) (rcp body : Bytes) (o : Out)
    (hd : dest < 2 ^ 32) (hc : curNonce st < 2 ^ 64) (h : handle ext cfg st led (.sendMessage f dest rcp body) = .ok o) :
    ∃ addr bz n, ext.accAddr f = some addr ∧ o.resp = .nonce n ∧ o.events = [Event.messageSent bz] ∧
      decodeMessage bz = some ⟨0, 4, dest, n, pad12 addr, rcp, zeros 32, body⟩ := by
  obtain ⟨addr, bz, ha, _, _, _, _, hev, _, _, hr, _, hdec⟩ := send_shape h
  exact ⟨addr, bz, curNonce st, ha, hr, hev, by rw [hdec, Nat.mod_eq_of_lt hd, Nat.mod_eq_of_lt hc]⟩

/-- SendMessageWithCaller: the same, with exactly the requested destination caller. -/
theorem send_with_caller_content (ext : Ext) (cfg : Cfg) (st : Store) (led : Ledger) (f : Bytes) (dest : Nat)
    (rcp body caller : Bytes) (o : Out) (hd : dest < 2 ^ 32) (hc : curNonce st < 2 ^ 64)
    (h : handle ext cfg st led (.sendMessageWithCaller f dest rcp body caller) = .ok o) :
    ∃ addr bz n, ext.accAddr f = some addr ∧ o.resp = .nonce n ∧ o.events = [Event.messageSent bz] ∧
      decodeMessage bz = some ⟨0, 4, dest, n, pad12 addr, rcp, caller, body⟩ := by
  obtain ⟨addr, bz, ha, _, _, _, _, _, _, hev, _, _, hr, _, hdec⟩ := sendWithCaller_shape h
  exact ⟨addr, bz, curNonce st, ha, hr, hev, by rw [hdec, Nat.mod_eq_of_lt hd, Nat.mod_eq_of_lt hc]⟩

/-- Deposits: the message speaks as the module (sender = module address padded), goes to the token messenger
    registered for the destination domain, carries the requested destination caller (all-zero when none), and
    its body is a version-0 burn message with burn token keccak256(lower-cased denom), the requested mint
    recipient, the deposited amount and the depositor as message sender.  The DepositForBurn event emitted
    alongside reports the same nonce, amount, depositor, mint recipient, destination and destination caller,
    and names the burn token of the body. -/
theorem deposit_content (ext : Ext) (cfg : Cfg) (st : Store) (led : Ledger) (f : Bytes) (amount : Option Int) (dest : Nat)
    (rcp tok caller : Bytes) (o : Out) (hd : dest < 2 ^ 32) (hc : curNonce st < 2 ^ 64)
    (h : depositForBurn ext cfg st led f amount dest rcp tok caller = .ok o) :
    ∃ addr maddr a msgr bz body n,
      ext.accAddr f = some addr ∧ ext.accAddr cfg.moduleStr = some maddr ∧ amount = some a ∧
      getMessenger st dest = some msgr ∧ o.resp = .nonce n ∧
      o.events = [Event.messageSent bz,
        Event.depositForBurn n (toHex (ext.keccak256 (ext.toLower tok))) a f rcp dest msgr.2 caller] ∧
      decodeMessage bz = some ⟨0, 4, dest, n, pad12 maddr, msgr.2, wireCaller caller, body⟩ ∧
      decodeBurn body = some ⟨0, ext.keccak256 (ext.toLower tok), rcp, a.toNat, pad12 addr⟩ ∧ 0 < a := by
  obtain ⟨addr, maddr, a, msgr, bz, body, h1, h2, h3, hpos, _, _, _, h5, _, _, _, _, _, _, _, _, _, _, _, _, _, hev, hr, _, hdm, hdb⟩ :=
    (deposit_shape h).ex
  exact ⟨addr, maddr, a, msgr, bz, body, curNonce st, h1, h2, h3, h5, hr, hev,
    by rw [hdm, Nat.mod_eq_of_lt hd, Nat.mod_eq_of_lt hc], hdb, hpos⟩

/-- the two deposit transaction types are that function with no caller / with the given caller. -/
theorem deposit_variants (ext : Ext) (cfg : Cfg) (st : Store) (led : Ledger) (f : Bytes) (a : Option Int) (d : Nat) (r t c : Bytes) :
    handle ext cfg st led (.depositForBurn f a d r t) = depositForBurn ext cfg st led f a d r t [] ∧
    (∀ o, handle ext cfg st led (.depositForBurnWithCaller f a d r t c) = .ok o →
      depositForBurn ext cfg st led f a d r t c = .ok o ∧ c.length ≠ 0) :=
  ⟨rfl, fun o h => ⟨((depositForBurnWithCaller_ok ..).mp h).2.2, ((depositForBurnWithCaller_ok ..).mp h).1⟩⟩

/-- **A replacement's event names the same burn token as the original deposit's event**: both name the burn
    token carried in the (unchanged) burn-token field of the burn body. -/
theorem replace_event_same_token (ext : Ext) (cfg : Cfg) (st st' : Store) (led led' : Ledger)
    (f : Bytes) (amount : Option Int) (dest : Nat) (rcp tok caller : Bytes) (o : Out)
    (f' att newCaller newRcp : Bytes) (o' : Out) (bz : Bytes)
    (hdep : depositForBurn ext cfg st led f amount dest rcp tok caller = .ok o)
    (hbz : Event.messageSent bz ∈ o.events)
    (hrep : replaceDepositForBurn ext cfg st' led' f' bz att newCaller newRcp = .ok o') :
    ∃ (a : Int) (msgr : Bytes) (om : Message),
      Event.depositForBurn (curNonce st) (toHex (ext.keccak256 (ext.toLower tok))) a f rcp dest msgr caller ∈ o.events ∧
      Event.depositForBurn om.nonce (toHex (ext.keccak256 (ext.toLower tok))) (Int.ofNat a.toNat) f' newRcp
        om.destDomain om.recipient newCaller ∈ o'.events := by
  obtain ⟨addr, maddr, a, msgr, bz0, body, _, _, _, _, _, _, _, _, _, _, _, _, _, _, _, _, _, _, _, _, _, hev, _, _, hdm, hdb⟩ :=
    (deposit_shape hdep).ex
  rw [hev] at hbz
  have hbz' : bz = bz0 := by
    rcases List.mem_cons.mp hbz with e | e
    · simpa [Event.messageSent] using e
    · rcases List.mem_cons.mp e with e | e
      · simp [Event.messageSent, Event.depositForBurn] at e
      · simp at e
  subst hbz'
  obtain ⟨t, om, ob, addr', maddr', bz', nbody, _, _, _, _, hom, hob, _, _, _, _, _, _, _, hev', _⟩ := replaceDeposit_shape hrep
  rw [hdm] at hom; cases hom
  simp only at hob
  rw [hdb] at hob; cases hob
  refine ⟨a, msgr.2, ⟨0, 4, dest % 2 ^ 32, curNonce st % 2 ^ 64, pad12 maddr, msgr.2, wireCaller caller, body⟩, ?_, ?_⟩
  · rw [hev]; exact List.mem_cons_of_mem _ List.mem_cons_self
  · rw [hev']; exact List.mem_cons_of_mem _ List.mem_cons_self

/-- the replacement's event reports the ORIGINAL nonce, amount, destination and messenger, and the NEW mint
    recipient and destination caller. -/
theorem replace_event_content (ext : Ext) (cfg : Cfg) (st : Store) (led : Ledger) (f orig att newCaller newRcp : Bytes) (o : Out)
    (h : replaceDepositForBurn ext cfg st led f orig att newCaller newRcp = .ok o) :
    ∃ om ob bz, decodeMessage orig = some om ∧ decodeBurn om.body = some ob ∧
      o.events = [Event.messageSent bz, Event.depositForBurn om.nonce (toHex ob.burnToken) (Int.ofNat ob.amount) f newRcp
                    om.destDomain om.recipient newCaller] := by
  obtain ⟨t, om, ob, addr, maddr, bz, nbody, _, _, _, _, hom, hob, _, _, _, _, _, _, _, hev, _⟩ := replaceDeposit_shape h
  exact ⟨om, ob, bz, hom, hob, hev⟩

/-! non-vacuity: concrete successful send, deposit and replacement in the toy world (the hypotheses of the content theorems) -/
example : ∃ o, handle Toy.ext Toy.cfg Toy.st Toy.led Toy.send = .ok o := (Toy.isOk_iff _).mp (by decide +kernel)
example : ∃ o, handle Toy.ext Toy.cfg Toy.st Toy.led Toy.deposit = .ok o := (Toy.isOk_iff _).mp (by decide +kernel)
example : ∃ o, handle Toy.ext Toy.cfg Toy.st Toy.led Toy.replace = .ok o := (Toy.isOk_iff _).mp (by decide +kernel)

end Cctp.C06
