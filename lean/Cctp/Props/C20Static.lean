import Cctp.Props.C20
import Cctp.Gen.Schema
import Cctp.Spec.Schema
/-
  C20, the static half: the message / query / event / genesis schema regenerated from /repo's generated Go types
  on every run (tie 1) is the one the model and the harness cover field by field.
-/
namespace Cctp.C20
open Cctp

/-- the types whose fields are INPUTS or STATE: transaction messages, query requests, the genesis state, the stored records
    and the two wire messages.  Events and responses are outputs: a new attribute there changes no input space (what the
    properties say about their content is decided by the correspondence on the fields they name). -/
def isInputOrState (name : String) : Bool :=
  (name.startsWith "Msg" && !name.endsWith "Response") || (name.startsWith "Query" && name.endsWith "Request") ||
  ["GenesisState", "Attester", "Nonce", "TokenPair", "PerMessageBurnLimit", "RemoteTokenMessenger", "SignatureThreshold",
   "MaxMessageBodySize", "BurningAndMintingPaused", "SendingAndReceivingMessagesPaused", "Message", "BurnMessage"].contains name

/-- **Every field of every one of the 25 transaction types, 19 query requests, the stored records, the two wire
    messages and the genesis state is one the model knows**: on these types the regenerated schema equals the
    recorded one (field names and Go types). -/
theorem schema_is_modelled :
    (Gen.schema.filter fun e => isInputOrState e.1) = (Spec.expectedSchema.filter fun e => isInputOrState e.1) := by decide +kernel

/-- the 25 transaction messages and 19 query requests are all there. -/
theorem schema_counts :
    (Gen.schema.filter fun e => e.1.startsWith "Msg" && !e.1.endsWith "Response").length = 25 ∧
    (Gen.schema.filter fun e => e.1.startsWith "Query" && e.1.endsWith "Request").length = 19 := by decide +kernel

end Cctp.C20
