import Cctp.Props.C20
import Cctp.Gen.Schema
import Cctp.Spec.Schema
/-
  C20, the static half: the message / query / event / genesis schema regenerated from /repo's generated Go types
  on every run (tie 1) is the one the model and the harness cover field by field.
-/
namespace Cctp.C20
open Cctp

/-- **Every field of every one of the 25 transaction types, 19 query requests, the events, the stored records
    and the genesis state is one the model knows**: the regenerated schema equals the recorded one. -/
theorem schema_is_modelled : Gen.schema = Spec.expectedSchema := by decide +kernel

/-- the 25 transaction messages and 19 query requests are all there. -/
theorem schema_counts :
    (Gen.schema.filter fun e => e.1.startsWith "Msg" && !e.1.endsWith "Response").length = 25 ∧
    (Gen.schema.filter fun e => e.1.startsWith "Query" && e.1.endsWith "Request").length = 19 := by decide +kernel

end Cctp.C20
