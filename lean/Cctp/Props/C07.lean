import Cctp.Lemmas.Batch
import Cctp.Lemmas.Typed
import Cctp.Lemmas.Wire
/-
  C07 — outbound nonces are unique, consecutive and never reused.
  The counter is Go's uint64: `u64 x = x % 2^64` at the one place the code wraps (`nonce + 1`).
-/
namespace Cctp.C07
open Cctp Gen Spec

/-- the four producing transaction types. -/
def producer : Msg → Bool
  | .sendMessage .. | .sendMessageWithCaller .. | .depositForBurn .. | .depositForBurnWithCaller .. => true
  | _ => false

/-- the next-available-nonce counter (an absent counter reads as 0, as `ReserveAndIncrementNonce` does). -/
def counter (st : Store) : Nat := curNonce st

theorem counter_eq (st : Store) : counter st = ((getNextNonce st).map (·.2)).getD 0 := by
  unfold counter curNonce reserveNonce
  cases h : getNextNonce st with
  | none => simp
  | some p => obtain ⟨d, n⟩ := p; simp

/-- the counter depends only on the counter key. -/
theorem counter_congr {s1 s2 : Store} (h : s1.get Key.nextNonce = s2.get Key.nextNonce) : counter s1 = counter s2 := by
  simp only [counter, curNonce, reserveNonce, getNextNonce, h]

theorem counter_after_write (st : Store) (n : Nat) :
    counter (st.applyAll [(Key.nextNonce, some (.nonce 0 n))]) = n := by
  simp [counter, curNonce, reserveNonce, getNextNonce, Store.applyAll, Store.apply, Store.get_set_same]

/-- what a successful producer returns and emits: the response nonce is the counter value, and the
    MessageSent payload — read with the reference decoder — carries that same nonce. -/
theorem producer_ok_nonce (ext : Ext) (cfg : Cfg) (st : Store) (led : Ledger) (m : Msg) (o : Out)
    (hp : producer m = true) (hc : counter st < 2 ^ 64) (h : handle ext cfg st led m = .ok o) :
    o.resp = .nonce (counter st) ∧
    o.writes = [(Key.nextNonce, some (.nonce 0 (u64 (counter st + 1))))] ∧
    ∃ bz msg, Event.messageSent bz ∈ o.events ∧ decodeMessage bz = some msg ∧ msg.nonce = counter st := by
  have modc : counter st % 2 ^ 64 = counter st := Nat.mod_eq_of_lt hc
  have send : ∀ {f d r b o}, sendMessage ext st led f d r b = .ok o →
      o.resp = .nonce (counter st) ∧ o.writes = [(Key.nextNonce, some (.nonce 0 (u64 (counter st + 1))))] ∧
      ∃ bz msg, Event.messageSent bz ∈ o.events ∧ decodeMessage bz = some msg ∧ msg.nonce = counter st := by
    intro f d r b o h
    obtain ⟨addr, ev, _, hs, rfl⟩ := (sendMessage_ok ..).mp h
    obtain ⟨bz, rfl, hd, _⟩ := sendCore_wire hs
    exact ⟨rfl, by simp [reserveNonce_write, counter], bz, _, by simp [out0], hd, modc⟩
  have sendC : ∀ {f d r b c o}, sendMessageWithCaller ext st led f d r b c = .ok o →
      o.resp = .nonce (counter st) ∧ o.writes = [(Key.nextNonce, some (.nonce 0 (u64 (counter st + 1))))] ∧
      ∃ bz msg, Event.messageSent bz ∈ o.events ∧ decodeMessage bz = some msg ∧ msg.nonce = counter st := by
    intro f d r b c o h
    obtain ⟨addr, ev, _, _, _, hs, rfl⟩ := (sendMessageWithCaller_ok ..).mp h
    obtain ⟨bz, rfl, hd, _⟩ := sendCore_wire hs
    exact ⟨rfl, by simp [reserveNonce_write, counter], bz, _, by simp [out0], hd, modc⟩
  have dep : ∀ {f a d r t c o}, depositForBurn ext cfg st led f a d r t c = .ok o →
      o.resp = .nonce (counter st) ∧ o.writes = [(Key.nextNonce, some (.nonce 0 (u64 (counter st + 1))))] ∧
      ∃ bz msg, Event.messageSent bz ∈ o.events ∧ decodeMessage bz = some msg ∧ msg.nonce = counter st := by
    intro f a d r t c o h
    obtain ⟨addr, a', msgr, body, inner, _, _, _, _, _, _, _, _, _, _, _, _, hin, rfl⟩ := (depositForBurn_ok ..).mp h
    have hi : inner.resp = .nonce (counter st) ∧ inner.writes = [(Key.nextNonce, some (.nonce 0 (u64 (counter st + 1))))] ∧
        ∃ bz msg, Event.messageSent bz ∈ inner.events ∧ decodeMessage bz = some msg ∧ msg.nonce = counter st := by
      unfold innerSend at hin
      split at hin
      · obtain ⟨addr, ev, _, hs, rfl⟩ := (sendMessage_ok ..).mp hin
        obtain ⟨bz, rfl, hd, _⟩ := sendCore_wire hs
        exact ⟨rfl, by simp [reserveNonce_write, counter], bz, _, by simp [out0], hd, modc⟩
      · obtain ⟨addr, ev, _, _, _, hs, rfl⟩ := (sendMessageWithCaller_ok ..).mp hin
        obtain ⟨bz, rfl, hd, _⟩ := sendCore_wire hs
        exact ⟨rfl, by simp [reserveNonce_write, counter], bz, _, by simp [out0], hd, modc⟩
    obtain ⟨hr, hw, bz, msg, hmem, hd, hn⟩ := hi
    refine ⟨by simp [hr], hw, bz, msg, ?_, hd, hn⟩
    simp [hmem]
  cases m with
  | sendMessage f d r b => exact send h
  | sendMessageWithCaller f d r b c => exact sendC h
  | depositForBurn f a d r t => exact dep h
  | depositForBurnWithCaller f a d r t c => exact dep ((depositForBurnWithCaller_ok ..).mp h).2.2
  | _ => simp [producer] at hp

/-- one delivery: the counter advances by exactly one (mod 2^64) on a successful producer and is
    untouched by everything else — failures (also failures after the reservation inside the handler),
    replacements, receives, administrative transactions. -/
theorem counter_step (ext : Ext) (cfg : Cfg) (w : World) (f : List Bool) (m : Msg) (hc : counter w.store < 2 ^ 64) :
    counter (deliver ext cfg w f m).1.store =
      if producer m = true ∧ (deliver ext cfg w f m).2.fail = none then u64 (counter w.store + 1) else counter w.store := by
  by_cases hp : producer m = true
  · unfold deliver
    split
    · rename_i o ho
      obtain ⟨_, hw, _⟩ := producer_ok_nonce ext cfg w.store _ m o hp hc ho
      simp only [hp, true_and, if_true, hw]
      exact counter_after_write _ _
    · simp
  · have hcls : Key.cls Key.nextNonce ∉ docClasses m := by
      cases m <;> simp [producer] at hp <;> simp [docClasses]
    simp only [hp, false_and, if_false]
    exact counter_congr (get_deliver_of_cls ext cfg w f m Key.nextNonce hcls)

theorem counter_lt_step (ext : Ext) (cfg : Cfg) (w : World) (f : List Bool) (m : Msg) (hc : counter w.store < 2 ^ 64) :
    counter (deliver ext cfg w f m).1.store < 2 ^ 64 := by
  rw [counter_step ext cfg w f m hc]
  split
  · exact Nat.mod_lt _ (by decide)
  · exact hc

/-- the response nonces of the successful producers of a run, in order. -/
def producerNonces : History → List TxResult → List Nat
  | (_, m) :: h, r :: rs =>
    (if producer m = true ∧ r.fail = none then (match r.resp with | .nonce n => [n] | _ => []) else []) ++ producerNonces h rs
  | _, _ => []

/-- number of successful producers of a run. -/
def successes : History → List TxResult → Nat
  | (_, m) :: h, r :: rs => (if producer m = true ∧ r.fail = none then 1 else 0) + successes h rs
  | _, _ => 0

/-- **Consecutive nonces.**  Over any history, the k-th successful producer receives nonce
    `start + k − 1` (mod 2^64), and the counter afterwards equals `start + #successes` (mod 2^64). -/
theorem nonce_sequence (ext : Ext) (cfg : Cfg) (h : History) (w : World) (hc : counter w.store < 2 ^ 64) :
    producerNonces h (run ext cfg w h).2
      = (List.range (successes h (run ext cfg w h).2)).map (fun i => u64 (counter w.store + i)) ∧
    counter (runState ext cfg w h).store = u64 (counter w.store + successes h (run ext cfg w h).2) := by
  induction h generalizing w with
  | nil => simp [producerNonces, successes, run, runState, u64, Nat.mod_eq_of_lt hc]
  | cons fm rest ih =>
    obtain ⟨f, m⟩ := fm
    rw [run_results_cons, runState_cons]
    simp only [producerNonces, successes]
    have hstep := counter_step ext cfg w f m hc
    have hlt := counter_lt_step ext cfg w f m hc
    obtain ⟨ih1, ih2⟩ := ih (deliver ext cfg w f m).1 hlt
    by_cases hs : producer m = true ∧ (deliver ext cfg w f m).2.fail = none
    · -- a successful producer: its response is the counter, the rest continues from counter+1
      have hresp : (deliver ext cfg w f m).2.resp = .nonce (counter w.store) := by
        unfold deliver at hs ⊢
        split
        · rename_i o ho
          exact (producer_ok_nonce ext cfg w.store _ m o hs.1 hc ho).1
        · rename_i e he; simp [he] at hs
      rw [if_pos hs] at hstep
      simp only [hs, and_self, if_true, hresp]
      rw [ih1, ih2, hstep]
      constructor
      · rw [Nat.add_comm 1, List.range_succ_eq_map, List.map_cons, List.map_map]
        simp only [Nat.add_zero, List.cons_append, List.nil_append, List.cons.injEq]
        refine ⟨by simp [u64, Nat.mod_eq_of_lt hc], ?_⟩
        apply List.map_congr_left
        intro i _
        simp only [Function.comp, u64]
        omega
      · simp only [u64]; omega
    · rw [if_neg hs] at hstep
      simp only [hs, if_false, List.nil_append, Nat.zero_add]
      rw [ih1, ih2, hstep]
      exact ⟨rfl, rfl⟩

/-- **No reuse**: while the counter does not wrap (`start + #successes ≤ 2^64`), the nonces handed out are
    pairwise distinct. -/
theorem nonces_distinct (ext : Ext) (cfg : Cfg) (h : History) (w : World) (hc : counter w.store < 2 ^ 64)
    (hnowrap : counter w.store + successes h (run ext cfg w h).2 ≤ 2 ^ 64) :
    (producerNonces h (run ext cfg w h).2).Nodup := by
  rw [(nonce_sequence ext cfg h w hc).1]
  rw [List.Nodup, List.pairwise_map]
  have hr := @List.nodup_range (successes h (run ext cfg w h).2)
  rw [List.Nodup] at hr
  refine hr.imp_of_mem (fun ha hb hne hab => hne ?_)
  have ha' := List.mem_range.mp ha
  have hb' := List.mem_range.mp hb
  simp only [u64] at hab
  rw [Nat.mod_eq_of_lt (by omega), Nat.mod_eq_of_lt (by omega)] at hab
  omega

/-- the wrap itself: from `2^64 − 1` the next nonce is `0` again (Go's uint64 arithmetic). -/
theorem nonce_wraps : u64 ((2 ^ 64 - 1) + 1) = 0 := by decide

/-- **Failed attempts consume none**: the counter (indeed the whole store) is as before. -/
theorem failure_keeps_counter (ext : Ext) (cfg : Cfg) (w : World) (f : List Bool) (m : Msg)
    (hf : (deliver ext cfg w f m).2.fail ≠ none) : counter (deliver ext cfg w f m).1.store = counter w.store := by
  rw [(C15.failed_tx_commits_nothing ext cfg w f m hf).1]

/-- **Replacements never consume a nonce …** -/
theorem replace_keeps_counter (ext : Ext) (cfg : Cfg) (w : World) (f : List Bool) (m : Msg)
    (hm : (∃ a b c d e, m = .replaceMessage a b c d e) ∨ (∃ a b c d e, m = .replaceDepositForBurn a b c d e)) :
    counter (deliver ext cfg w f m).1.store = counter w.store := by
  apply counter_congr
  apply get_deliver_of_cls
  rcases hm with ⟨a, b, c, d, e, rfl⟩ | ⟨a, b, c, d, e, rfl⟩ <;> simp [docClasses]

/-- **… and always reuse the original message's nonce**: the replacement's MessageSent, read with the
    reference decoder, carries the nonce of the original message (also read with the reference decoder). -/
theorem replace_reuses_nonce (ext : Ext) (st : Store) (led : Ledger) (from_ orig att newBody newCaller : Bytes) (o : Out)
    (h : replaceMessage ext st led from_ orig att newBody newCaller = .ok o) :
    ∃ om bz nm, decodeMessage orig = some om ∧ o.events = [Event.messageSent bz] ∧
      decodeMessage bz = some nm ∧ nm.nonce = om.nonce := by
  obtain ⟨_, t, m, addr, ev, _, _, hp, _, _, _, hs, rfl⟩ := (replaceMessage_ok ..).mp h
  obtain ⟨bz, rfl, hd, _⟩ := sendCore_wire hs
  rw [C16.parse_eq_spec] at hp
  cases hdm : decodeMessage orig with
  | none => rw [hdm] at hp; cases hp
  | some om =>
    rw [hdm] at hp
    simp only [Except.ok.injEq] at hp; subst hp
    have hlt : om.nonce < 2 ^ 64 := by
      by_cases hl : 116 ≤ orig.length
      · obtain ⟨m', hd', _, wf⟩ := C16.decode_encode orig hl
        rw [hdm] at hd'; cases hd'; exact wf.nonce
      · simp [decodeMessage] at hdm; omega
    exact ⟨om, bz, _, rfl, rfl, hd, Nat.mod_eq_of_lt hlt⟩

theorem replace_deposit_reuses_nonce (ext : Ext) (cfg : Cfg) (st : Store) (led : Ledger)
    (from_ orig att newCaller newRcp : Bytes) (o : Out)
    (h : replaceDepositForBurn ext cfg st led from_ orig att newCaller newRcp = .ok o) :
    ∃ om bz nm, decodeMessage orig = some om ∧ Event.messageSent bz ∈ o.events ∧
      decodeMessage bz = some nm ∧ nm.nonce = om.nonce := by
  obtain ⟨_, m, b, addr, nb, inner, _, _, _, _, _, _, hin, rfl⟩ := (replaceDepositForBurn_ok ..).mp h
  obtain ⟨om, bz, nm, h1, h2, h3, h4⟩ := replace_reuses_nonce ext st led _ orig att nb newCaller inner hin
  exact ⟨om, bz, nm, h1, by simp [h2], h3, h4⟩

/-- the next-available-nonce query returns the counter. -/
theorem query_counter (ext : Ext) (st : Store) (d n : Nat) (h : getNextNonce st = some (d, n)) :
    query ext st false .nextAvailableNonce = .ok (.val (.nonce d n)) ∧ counter st = n := by
  constructor
  · simp [query, h, req, getOr, bind, Except.bind, pure, Except.pure]
  · rw [counter_eq, h]; rfl

/-! non-vacuity -/
example : counter [(Key.nextNonce, .nonce 0 7)] = 7 := by decide
example : counter [] = 0 := by decide


/-- **Consecutive nonces over multi-message transactions**: the producers of the committed transactions receive
    `start, start+1, …` in order — several sends inside one transaction get consecutive nonces, and the nonces
    handed out inside a transaction that fails are handed out again — and the counter ends at
    `start + #successful producers in committed transactions`. -/
theorem nonce_sequence_txs (ext : Ext) (cfg : Cfg) (txs : List Txn) (w : World) (hs : w.settle = w)
    (hc : counter w.store < 2 ^ 64) :
    producerNonces (committed ext cfg w txs) (txResults ext cfg w txs)
      = (List.range (successes (committed ext cfg w txs) (txResults ext cfg w txs))).map (fun i => u64 (counter w.store + i)) ∧
    counter (runTxs ext cfg w txs).1.store
      = u64 (counter w.store + successes (committed ext cfg w txs) (txResults ext cfg w txs)) := by
  rw [txResults, runTxs_results ext cfg txs w hs, runTxs_flatten ext cfg txs w hs]
  exact nonce_sequence ext cfg _ w hc

/-- a transaction that fails as a whole consumes no nonce, however many of its messages had reserved one. -/
theorem failed_tx_keeps_counter (ext : Ext) (cfg : Cfg) (w : World) (tx : Txn) (h : (deliverTx ext cfg w tx).2 = none) :
    counter (deliverTx ext cfg w tx).1.store = counter w.store := by
  unfold deliverTx at h ⊢
  split at h
  · simp at h
  · rfl

end Cctp.C07
