import Cctp.Props.C19
import Cctp.Gen.Keys
/-
  C19, the static half: the store keys and key prefixes of x/cctp/types regenerated from /repo on every run (tie 1)
  are the byte strings the model's key functions are built from.  Names are compared up to the case of their first letter.
-/
namespace Cctp.C19
open Cctp Gen

def modelledKeys : List (String × Bytes) := [
  ("moduleName", ModuleName),
  ("storeKey", StoreKey),
  ("burningAndMintingPausedKey", BurningAndMintingPausedKey),
  ("maxMessageBodySizeKey", MaxMessageBodySizeKey),
  ("nextAvailableNonceKey", NextAvailableNonceKey),
  ("sendingAndReceivingMessagesPausedKey", SendingAndReceivingMessagesPausedKey),
  ("signatureThresholdKey", SignatureThresholdKey),
  ("attesterKeyPrefix", AttesterKeyPrefix),
  ("perMessageBurnLimitKeyPrefix", PerMessageBurnLimitKeyPrefix),
  ("remoteTokenMessengerKeyPrefix", RemoteTokenMessengerKeyPrefix),
  ("tokenPairKeyPrefix", TokenPairKeyPrefix),
  ("usedNonceKeyPrefix", UsedNonceKeyPrefix),
  ("ownerKey", OwnerKey),
  ("pendingOwnerKey", PendingOwnerKey),
  ("attesterManagerKey", AttesterManagerKey),
  ("pauserKey", PauserKey),
  ("tokenControllerKey", TokenControllerKey)]

/-- **Every store key and prefix the model uses is, byte for byte, the one in the current source.** -/
theorem source_keys_as_modelled :
    (modelledKeys.all fun e => Gen.keyTable.lookup e.1 == some e.2) = true := by decide

end Cctp.C19
