import Cctp.Lemmas.Batch
import Cctp.Lemmas.Typed
import Cctp.Props.C16
/-
  C02 — an attested message is consumed at most once.
-/
namespace Cctp.C02
open Cctp Gen

/-- the (source domain, nonce) pair a receive names (none if the message has no full header). -/
def recvPair : Msg → Option (Nat × Nat)
  | .receiveMessage _ msg _ =>
    match Message.parse msg with
    | .ok m => some (m.sourceDomain, m.nonce)
    | .error _ => none
  | _ => none

/-- successful receives of pair `p` in a run (history zipped with its results). -/
def successes (p : Nat × Nat) : History → List TxResult → Nat
  | (_, m) :: h, r :: rs => (if recvPair m = some p ∧ r.fail = none then 1 else 0) + successes p h rs
  | _, _ => 0

/-- fixed-width big-endian keys: distinct pairs of uint32 × uint64 have distinct used-nonce keys. -/
theorem usedNonceKey_injective (d n d' n' : Nat) (hd : d < 2 ^ 32) (hn : n < 2 ^ 64) (hd' : d' < 2 ^ 32)
    (hn' : n' < 2 ^ 64) (h : Key.usedNonce d n = Key.usedNonce d' n') : d = d' ∧ n = n' :=
  Cctp.usedNonceKey_injective d n d' n' hd hn hd' hn' h

/-- a parsed message names a pair inside uint32 × uint64. -/
theorem parsed_in_range {bz : Bytes} {m : Message} (h : Message.parse bz = .ok m) :
    m.sourceDomain < 2 ^ 32 ∧ m.nonce < 2 ^ 64 := by
  rw [C16.parse_eq_spec] at h
  by_cases hl : 116 ≤ bz.length
  · obtain ⟨m', hd, _, wf⟩ := C16.decode_encode bz hl
    rw [hd] at h; simp only [Except.ok.injEq] at h; subst h
    exact ⟨wf.source, wf.nonce⟩
  · have : Spec.decodeMessage bz = none := by simp [Spec.decodeMessage]; omega
    rw [this] at h; simp at h

/-- A successful receive names an unused pair and marks exactly it. -/
theorem receive_ok_marks (ext : Ext) (cfg : Cfg) (w : World) (f : List Bool) (from_ msg att : Bytes)
    (hok : (deliver ext cfg w f (.receiveMessage from_ msg att)).2.fail = none) :
    ∃ m, Message.parse msg = .ok m ∧ isUsed w.store m.sourceDomain m.nonce = false ∧
      isUsed (deliver ext cfg w f (.receiveMessage from_ msg att)).1.store m.sourceDomain m.nonce = true := by
  unfold deliver at hok ⊢
  split
  · rename_i o ho
    obtain ⟨_, _, t, m, mo, _, _, hp, _, _, _, hu, _, rfl⟩ := (receiveMessage_ok ..).mp ho
    refine ⟨m, hp, hu, ?_⟩
    simp [Store.applyAll, Store.apply, isUsed, Store.has, Store.get_set_same]
  · rename_i e he; simp [he] at hok

/-- what one delivery does to the "used" bit of an in-range pair: it is set exactly by a successful
    receive naming that pair, and otherwise unchanged. -/
theorem used_step (ext : Ext) (cfg : Cfg) (w : World) (f : List Bool) (m : Msg) (d n : Nat)
    (hd : d < 2 ^ 32) (hn : n < 2 ^ 64) :
    isUsed (deliver ext cfg w f m).1.store d n =
      (isUsed w.store d n || (decide (recvPair m = some (d, n)) && decide ((deliver ext cfg w f m).2.fail = none))) := by
  cases m with
  | receiveMessage fr msg att =>
    by_cases hok : (deliver ext cfg w f (.receiveMessage fr msg att)).2.fail = none
    · obtain ⟨m', hp, hfree, hset⟩ := receive_ok_marks ext cfg w f fr msg att hok
      have hr := parsed_in_range hp
      have hpair : recvPair (.receiveMessage fr msg att) = some (m'.sourceDomain, m'.nonce) := by
        simp [recvPair, hp]
      by_cases e : (m'.sourceDomain, m'.nonce) = (d, n)
      · simp only [Prod.mk.injEq] at e; obtain ⟨rfl, rfl⟩ := e
        simp [hset, hpair, hok]
      · -- another pair: its key differs, so the bit of (d, n) is unchanged
        have hne : Key.usedNonce d n ≠ Key.usedNonce m'.sourceDomain m'.nonce := by
          intro hk
          have := usedNonceKey_injective d n _ _ hd hn hr.1 hr.2 hk
          exact e (by simp [this.1, this.2])
        have hget : (deliver ext cfg w f (.receiveMessage fr msg att)).1.store.get (Key.usedNonce d n)
            = w.store.get (Key.usedNonce d n) := by
          unfold deliver at hok ⊢
          split
          · rename_i o ho
            obtain ⟨m'', hp'', hw''⟩ := C15.receiveMessage_writes ho
            rw [hp] at hp''; simp only [Except.ok.injEq] at hp''; subst hp''
            simp only [hw'', Store.applyAll, List.foldl_cons, List.foldl_nil, Store.apply]
            exact Store.get_set_other _ _ _ _ hne
          · rfl
        have : ¬ recvPair (.receiveMessage fr msg att) = some (d, n) := by
          rw [hpair]; intro h; exact e (Option.some.inj h)
        simp [isUsed, Store.has, hget, this]
    · have := (C15.failed_tx_commits_nothing ext cfg w f _ hok).1
      simp [this, hok]
  | _ =>
    all_goals
      simp only [recvPair, reduceCtorEq, decide_false, Bool.false_and, Bool.or_false]
      simp only [isUsed, Store.has]
      rw [get_deliver_of_cls ext cfg w f _ (Key.usedNonce d n) (by simp [docClasses])]

/-- **A pair reported as used stays used** for the rest of the chain's history. -/
theorem used_monotone (ext : Ext) (cfg : Cfg) (w : World) (h : History) (d n : Nat)
    (hd : d < 2 ^ 32) (hn : n < 2 ^ 64) (hu : isUsed w.store d n = true) :
    isUsed (runState ext cfg w h).store d n = true := by
  refine run_inv ext cfg (fun w => isUsed w.store d n = true) ?_ h w hu
  intro w f m hw
  rw [used_step ext cfg w f m d n hd hn, hw]; rfl

/-- **At most one receive ever succeeds per (source domain, nonce)** — whatever the bodies, recipients,
    attestations, submitters and interleaved transactions of any type; and none if the pair is already used. -/
theorem at_most_one_success (ext : Ext) (cfg : Cfg) (h : History) (w : World) (d n : Nat)
    (hd : d < 2 ^ 32) (hn : n < 2 ^ 64) :
    successes (d, n) h (run ext cfg w h).2 ≤ 1 ∧
    (isUsed w.store d n = true → successes (d, n) h (run ext cfg w h).2 = 0) := by
  induction h generalizing w with
  | nil => simp [successes, run]
  | cons fm rest ih =>
    obtain ⟨f, m⟩ := fm
    rw [run_results_cons]
    simp only [successes]
    have step := used_step ext cfg w f m d n hd hn
    obtain ⟨ih1, ih2⟩ := ih (deliver ext cfg w f m).1
    by_cases hs : recvPair m = some (d, n) ∧ (deliver ext cfg w f m).2.fail = none
    · -- this receive succeeded: the pair was free before and is used afterwards
      have hafter : isUsed (deliver ext cfg w f m).1.store d n = true := by
        rw [step]; simp [hs.1, hs.2]
      have hbefore : isUsed w.store d n = false := by
        cases m with
        | receiveMessage fr msg att =>
          obtain ⟨m', hp, hfree, _⟩ := receive_ok_marks ext cfg w f fr msg att hs.2
          have : recvPair (.receiveMessage fr msg att) = some (m'.sourceDomain, m'.nonce) := by simp [recvPair, hp]
          rw [this] at hs
          have e := Option.some.inj hs.1
          simp only [Prod.mk.injEq] at e; obtain ⟨rfl, rfl⟩ := e
          exact hfree
        | _ => simp [recvPair] at hs
      simp only [hs, and_self, if_true, ih2 hafter]
      exact ⟨by omega, fun hu => by rw [hbefore] at hu; exact absurd hu (by simp)⟩
    · simp only [hs, if_false, Nat.zero_add]
      refine ⟨ih1, fun hu => ih2 ?_⟩
      rw [step, hu]; rfl

/-- **A pair is reported as used only if** the starting state (genesis) listed it **or a receive for it succeeded**. -/
theorem used_only_if (ext : Ext) (cfg : Cfg) (h : History) (w : World) (d n : Nat)
    (hd : d < 2 ^ 32) (hn : n < 2 ^ 64) (hu : isUsed (runState ext cfg w h).store d n = true) :
    isUsed w.store d n = true ∨ 1 ≤ successes (d, n) h (run ext cfg w h).2 := by
  induction h generalizing w with
  | nil => exact Or.inl hu
  | cons fm rest ih =>
    obtain ⟨f, m⟩ := fm
    rw [runState_cons] at hu
    rw [run_results_cons]
    simp only [successes]
    rcases ih (deliver ext cfg w f m).1 hu with h1 | h1
    · rw [used_step ext cfg w f m d n hd hn] at h1
      simp only [Bool.or_eq_true, Bool.and_eq_true, decide_eq_true_eq] at h1
      rcases h1 with h1 | h1
      · exact Or.inl h1
      · right; simp [h1]
    · right; omega

/-- The single-item query finds a pair iff it is used. -/
theorem query_used_nonce_iff (ext : Ext) (st : Store) (d n : Nat) :
    query ext st false (.usedNonce d n) = .ok (.val (.nonce d n)) ↔ isUsed st d n = true := by
  simp [query, bind_ok, req_ok, map_ok]

theorem query_used_nonce_not_found (ext : Ext) (st : Store) (d n : Nat) (h : isUsed st d n = false) :
    query ext st false (.usedNonce d n) = .error .err := by
  simp [query, req, h, bind, Except.bind, throw, throwThe, MonadExceptOf.throw, pure, Except.pure]

/-- stored nonce records hold uint32 / uint64 values. -/
def InRange (st : Store) : Prop := ∀ k d n, st.get k = some (.nonce d n) → d < 2 ^ 32 ∧ n < 2 ^ 64

/-- every nonce record a handler writes is in range (parsed from fixed-width fields, or `u64` of the counter). -/
theorem nonce_writes_in_range (ext : Ext) (cfg : Cfg) (st : Store) (led : Ledger) (m : Msg) (o : Out)
    (h : handle ext cfg st led m = .ok o) :
    ∀ w ∈ o.writes, ∀ d n, w.2 = some (.nonce d n) → d < 2 ^ 32 ∧ n < 2 ^ 64 := by
  have u64lt : ∀ x, u64 x < 2 ^ 64 := fun x => Nat.mod_lt _ (by decide)
  cases m with
  | receiveMessage f msg att =>
    obtain ⟨m', hp, hw'⟩ := C15.receiveMessage_writes h
    intro w hw d n hv; rw [hw'] at hw; simp at hw; subst hw
    simp only [Option.some.injEq, Val.nonce.injEq] at hv; obtain ⟨rfl, rfl⟩ := hv
    exact parsed_in_range hp
  | sendMessage f d r b =>
    intro w hw d n hv; rw [C15.sendMessage_writes h] at hw; simp at hw; subst hw
    simp only [Option.some.injEq, Val.nonce.injEq] at hv; obtain ⟨rfl, rfl⟩ := hv
    exact ⟨by decide, u64lt _⟩
  | sendMessageWithCaller f d r b c =>
    intro w hw d n hv; rw [C15.sendMessageWithCaller_writes h] at hw; simp at hw; subst hw
    simp only [Option.some.injEq, Val.nonce.injEq] at hv; obtain ⟨rfl, rfl⟩ := hv
    exact ⟨by decide, u64lt _⟩
  | depositForBurn f a d r t =>
    intro w hw d n hv; rw [C15.depositForBurn_writes h] at hw; simp at hw; subst hw
    simp only [Option.some.injEq, Val.nonce.injEq] at hv; obtain ⟨rfl, rfl⟩ := hv
    exact ⟨by decide, u64lt _⟩
  | depositForBurnWithCaller f a d r t c =>
    obtain ⟨_, _, h'⟩ := (depositForBurnWithCaller_ok ..).mp h
    intro w hw d n hv; rw [C15.depositForBurn_writes h'] at hw; simp at hw; subst hw
    simp only [Option.some.injEq, Val.nonce.injEq] at hv; obtain ⟨rfl, rfl⟩ := hv
    exact ⟨by decide, u64lt _⟩
  | _ =>
    all_goals
      intro w hw d n hv
      have hc := handle_writes_cls ext cfg st led _ o h w hw
      have ht := handle_writes_typed ext cfg st led _ o h w hw _ hv
      simp only [ValOK] at ht
      rcases ht with e | e <;> (rw [e] at hc; simp [docClasses] at hc)

theorem inRange_deliver (ext : Ext) (cfg : Cfg) (w : World) (f : List Bool) (m : Msg)
    (hg : Good ext w.store) (hr : InRange w.store) : InRange (deliver ext cfg w f m).1.store := by
  unfold deliver
  split
  · rename_i o ho
    simp only
    have hw := nonce_writes_in_range ext cfg w.store _ m o ho
    -- fold over the writes
    have : ∀ (ws : List Store.Write) (s : Store), s.WF → InRange s →
        (∀ w ∈ ws, ∀ d n, w.2 = some (.nonce d n) → d < 2 ^ 32 ∧ n < 2 ^ 64) → InRange (s.applyAll ws) := by
      intro ws
      induction ws with
      | nil => intro s _ hs _; exact hs
      | cons x xs ih =>
        intro s hwf hs hx
        simp only [Store.applyAll, List.foldl_cons]
        apply ih _ (Store.wf_apply s x hwf) _ (fun w' hw' => hx w' (List.mem_cons_of_mem _ hw'))
        intro k d n hget
        rw [get_apply s x k hwf] at hget
        split at hget
        · exact hx x List.mem_cons_self d n hget
        · exact hs k d n hget
    exact this o.writes w.store hg.wf hr hw
  · exact hr

/-- the exported / listed used nonces are exactly the used pairs (every reachable store is Good and InRange). -/
theorem used_list_exact (ext : Ext) (st : Store) (hg : Good ext st) (hr : InRange st) (d n : Nat)
    (hd : d < 2 ^ 32) (hn : n < 2 ^ 64) :
    (d, n) ∈ Genesis.scanMap st UsedNonceKeyPrefix Genesis.usedOf
      ↔ isUsed st d n = true := by
  simp only [Genesis.scanMap, List.mem_filterMap, Store.mem_scan]
  constructor
  · rintro ⟨⟨k, v⟩, ⟨hm, hp⟩, hv⟩
    have hget := Store.get_of_mem hg.wf hm
    cases v with
    | nonce d' n' =>
      simp only [Genesis.usedOf, Option.some.injEq, Prod.mk.injEq] at hv; obtain ⟨rfl, rfl⟩ := hv
      have := hg.typed k _ hget
      simp only [ValOK] at this
      rcases this with rfl | rfl
      · exact absurd (Key.cls_of_prefix_usedNonce _ hp) (by simp)
      · simp [isUsed, Store.has, hget]
    | _ => simp [Genesis.usedOf] at hv
  · intro hu
    obtain ⟨v, hv⟩ := (Store.has_iff _ _).mp hu
    have ht := hg.typed _ _ hv
    cases v with
    | nonce d' n' =>
      simp only [ValOK] at ht
      rcases ht with e | e
      · exact absurd e (Key.ne_of_cls (by simp))
      · obtain ⟨hd', hn'⟩ := hr _ _ _ hv
        obtain ⟨rfl, rfl⟩ := usedNonceKey_injective d n d' n' hd hn hd' hn' e
        refine ⟨(Key.usedNonce d n, .nonce d n), ⟨Store.mem_of_get hv, ?_⟩, rfl⟩
        simp only [Key.usedNonce, List.append_assoc]; exact isPrefixOf_append _ _
    | _ => simp only [ValOK] at ht; first
      | (rcases ht with e | e | e | e | e <;> exact absurd e (Key.ne_of_cls (by simp)))
      | (rcases ht with e | e <;> exact absurd e (Key.ne_of_cls (by simp)))
      | exact absurd ht (Key.ne_of_cls (by simp))

/-! non-vacuity: a used pair in a concrete store; a pair in range -/
example : isUsed [(Key.usedNonce 3 7, .nonce 3 7)] 3 7 = true := by decide
example : (3 : Nat) < 2 ^ 32 ∧ (7 : Nat) < 2 ^ 64 := by decide


/-! ### transactions with several messages
  A chain is a list of transactions, each a list of messages run on one branch and committed all-or-nothing
  (`Model/Batch.lean`).  `txResults` are the results of the messages of the committed transactions; `committed` is
  the flat history of those messages. -/

/-- **At most one receive per (source domain, nonce) ever takes effect**, over any list of transactions of any
    size — including a transaction that carries the same attested message twice (it fails as a whole). -/
theorem at_most_one_success_txs (ext : Ext) (cfg : Cfg) (txs : List Txn) (w : World) (hs : w.settle = w) (d n : Nat)
    (hd : d < 2 ^ 32) (hn : n < 2 ^ 64) :
    successes (d, n) (committed ext cfg w txs) (txResults ext cfg w txs) ≤ 1 ∧
    (isUsed w.store d n = true → successes (d, n) (committed ext cfg w txs) (txResults ext cfg w txs) = 0) := by
  rw [txResults, runTxs_results ext cfg txs w hs]
  exact at_most_one_success ext cfg _ w d n hd hn

theorem used_monotone_txs (ext : Ext) (cfg : Cfg) (txs : List Txn) (w : World) (hs : w.settle = w) (d n : Nat)
    (hd : d < 2 ^ 32) (hn : n < 2 ^ 64) (hu : isUsed w.store d n = true) :
    isUsed (runTxs ext cfg w txs).1.store d n = true := by
  rw [runTxs_flatten ext cfg txs w hs]
  exact used_monotone ext cfg w _ d n hd hn hu

/-- a pair is used after a list of transactions only if it was used before or a receive for it succeeded in a
    transaction that COMMITTED (a receive inside a transaction that later failed consumes nothing). -/
theorem used_only_if_txs (ext : Ext) (cfg : Cfg) (txs : List Txn) (w : World) (hs : w.settle = w) (d n : Nat)
    (hd : d < 2 ^ 32) (hn : n < 2 ^ 64) (hu : isUsed (runTxs ext cfg w txs).1.store d n = true) :
    isUsed w.store d n = true ∨ 1 ≤ successes (d, n) (committed ext cfg w txs) (txResults ext cfg w txs) := by
  rw [runTxs_flatten ext cfg txs w hs] at hu
  rw [txResults, runTxs_results ext cfg txs w hs]
  exact used_only_if ext cfg _ w d n hd hn hu

end Cctp.C02
