import Cctp.Spec.Attestation
import Cctp.Lemmas.Handlers
import Cctp.Lemmas.Store
/-
  C01 — inbound messages need a quorum of distinct enabled attesters.
  "Recovers to key K" is what the theorems say; reading that as "K's owner signed" is ECDSA
  unforgeability, outside any proof.
-/
namespace Cctp.C01
open Cctp Cctp.Spec Gen

theorem chunks_succ (att : Bytes) (i n : Nat) : chunks att i (n + 1) = chunk att i :: chunks att (i + 1) n := by
  simp only [chunks, List.range_succ_eq_map, List.map_cons, List.map_map, Nat.add_zero]
  congr 1
  apply List.map_congr_left
  intro j _
  simp only [Function.comp]
  congr 1; omega

/-- the verifier's loop, from signature `i` on, accepts exactly the valid chunk sequences
    (while the uint32 offsets do not wrap, i.e. for every attestation shorter than 4 GiB). -/
theorem loop_ok_iff (ext : Ext) (d att : Bytes) (attesters : List Bytes) (t : Nat) (fuel i : Nat) (prev : Option Bytes)
    (hb : 65 * (i + fuel) ≤ att.length) (hlen : att.length < 2 ^ 32) :
    verifyLoop ext d att attesters t fuel i prev = .ok () ↔
      validChunks ext d attesters prev (chunks att i fuel) := by
  induction fuel generalizing i prev with
  | zero => simp [verifyLoop, chunks, validChunks]
  | succ fuel ih =>
    rw [chunks_succ]
    have hlo : u32 (i * SignatureLength) = 65 * i := by
      simp only [u32, SignatureLength]; rw [Nat.mod_eq_of_lt (by omega)]; omega
    have hhi : u32 (65 * i + SignatureLength) = 65 * i + 65 := by
      simp only [u32, SignatureLength]; rw [Nat.mod_eq_of_lt (by omega)]
    have hin : 65 * i ≤ 65 * i + 65 ∧ 65 * i + 65 ≤ att.length := by omega
    simp only [verifyLoop, hlo, hhi, validChunks, bind_ok, must_ok, getOr_ok, reqAll_ok, req_ok]
    constructor
    · rintro ⟨_, _, k, hk, _, hp, _, ha, hl⟩
      exact ⟨k, hk, hp, ha, (ih (i + 1) _ (by omega)).mp hl⟩
    · rintro ⟨k, hk, hp, ha, hl⟩
      exact ⟨(), hin, k, hk, (), hp, (), ha, (ih (i + 1) _ (by omega)).mpr hl⟩

/-- **Soundness and completeness of the verifier**: it accepts exactly the valid attestations —
    no attestation gets through that is not a quorum (⇒), and every honestly built one is accepted (⇐). -/
theorem verify_ok_iff (ext : Ext) (msg att : Bytes) (attesters : List Bytes) (t : Nat) (hlen : att.length < 2 ^ 32) :
    verify ext msg att attesters t = .ok () ↔ ValidAttestation ext msg att attesters t := by
  unfold verify
  simp only [bind_ok, req_ok]
  constructor
  · rintro ⟨_, h1, _, h2, h3⟩
    have h1' : att.length = 65 * t := h1
    exact ⟨h2, h1', (loop_ok_iff ext _ att attesters t t 0 none (by omega) hlen).mp h3⟩
  · rintro ⟨h2, h1, h3⟩
    exact ⟨(), h1, (), h2, (loop_ok_iff ext _ att attesters t t 0 none (by omega) hlen).mpr h3⟩

/-! ### what validity implies: threshold-many DISTINCT ENABLED signers -/

theorem valid_keys (ext : Ext) (d : Bytes) (attesters : List Bytes) (prev : Option Bytes) (cs : List Bytes)
    (h : validChunks ext d attesters prev cs) :
    (recoveredKeys ext d cs).length = cs.length ∧
    (∀ k ∈ recoveredKeys ext d cs, isAttester attesters k = true) ∧
    (∀ p, prev = some p → ∀ k ∈ recoveredKeys ext d cs, blt p (addrOf ext k) = true) ∧
    ((recoveredKeys ext d cs).map (addrOf ext)).Pairwise (fun a b => blt a b = true) := by
  induction cs generalizing prev with
  | nil => simp [recoveredKeys]
  | cons c cs ih =>
    obtain ⟨k, hk, hp, ha, hrest⟩ := h
    obtain ⟨i1, i2, i3, i4⟩ := ih _ hrest
    have hrk : recoveredKeys ext d (c :: cs) = k :: recoveredKeys ext d cs := by
      simp [recoveredKeys, List.filterMap_cons, hk]
    rw [hrk]
    refine ⟨by simp [i1], ?_, ?_, ?_⟩
    · intro k' hk'
      rcases List.mem_cons.mp hk' with rfl | hk'
      · exact ha
      · exact i2 k' hk'
    · intro p e k' hk'
      rcases List.mem_cons.mp hk' with rfl | hk'
      · exact hp p e
      · exact blt_trans (hp p e) (i3 _ rfl k' hk')
    · simp only [List.map_cons, List.pairwise_cons]
      refine ⟨?_, i4⟩
      intro a ha'
      obtain ⟨k', hk', rfl⟩ := List.mem_map.mp ha'
      exact i3 _ rfl k' hk'

/-- **No attestation gets a message through with fewer than threshold distinct enabled signers**:
    a valid attestation exhibits `t` recovered keys that are pairwise distinct (even their signer
    addresses are), each recovered from its own 65-byte chunk over keccak256(message), each enabled.
    A high-s twin, a duplicate or a reordering recovers to an address that is not strictly greater
    than its predecessor, so it cannot be part of such a sequence — the theorem needs no notion of malleation. -/
theorem valid_implies_t_distinct_enabled (ext : Ext) (msg att : Bytes) (attesters : List Bytes) (t : Nat)
    (h : ValidAttestation ext msg att attesters t) :
    let ks := recoveredKeys ext (ext.keccak256 msg) (chunks att 0 t)
    ks.length = t ∧ ks.Nodup ∧ (ks.map (addrOf ext)).Nodup ∧
    (∀ k ∈ ks, ∃ a ∈ attesters, fromHex a = k) ∧
    (∀ k ∈ ks, ∃ i < t, ext.ecrecover (ext.keccak256 msg) (normV (chunk att i)) = some k) := by
  obtain ⟨k1, k2, _, k4⟩ := valid_keys ext _ attesters none _ h.signatures
  have hlen : (chunks att 0 t).length = t := by simp [chunks]
  have hnd : ((recoveredKeys ext (ext.keccak256 msg) (chunks att 0 t)).map (addrOf ext)).Nodup := by
    rw [List.Nodup]
    exact k4.imp (fun hlt => blt_ne hlt)
  refine ⟨by rw [k1, hlen], ?_, hnd, ?_, ?_⟩
  · -- distinct addresses ⇒ distinct keys (the address is a function of the key)
    rw [List.Nodup] at hnd ⊢
    rw [List.pairwise_map] at hnd
    exact hnd.imp (fun hne e => hne (by rw [e]))
  · intro k hk
    have := k2 k hk
    simp only [isAttester, List.any_eq_true, beq_iff_eq] at this
    exact this
  · intro k hk
    simp only [recoveredKeys, List.mem_filterMap, chunks, List.mem_map, List.mem_range] at hk
    obtain ⟨c, ⟨i, hi, rfl⟩, hk⟩ := hk
    exact ⟨i, hi, by simpa using hk⟩

/-! ### corollaries named in the property -/

/-- truncated or padded attestations (any length other than 65·threshold) are rejected. -/
theorem wrong_length_rejected (ext : Ext) (msg att : Bytes) (attesters : List Bytes) (t : Nat)
    (h : att.length ≠ 65 * t) : verify ext msg att attesters t = .error .err := by
  simp [verify, req, SignatureLength, h, bind, Except.bind, throw, throwThe, MonadExceptOf.throw]

/-- a zero threshold accepts nothing, not even the empty attestation. -/
theorem zero_threshold_rejected (ext : Ext) (msg att : Bytes) (attesters : List Bytes) :
    verify ext msg att attesters 0 ≠ .ok () := by
  intro h
  simp only [verify, bind_ok, req_ok] at h
  obtain ⟨_, _, _, h2, _⟩ := h
  exact h2 rfl

/-- legacy recovery ids: 27/28 are read as 0/1, and 0/1 are left alone. -/
theorem normV_legacy (sig : Bytes) (v : UInt8) (hv : v = 27 ∨ v = 28) : normV (sig ++ [v]) = sig ++ [v - 27] := by
  simp [normV, List.getLast?_append, hv]

theorem normV_modern (sig : Bytes) (v : UInt8) (hv : v ≠ 27 ∧ v ≠ 28) : normV (sig ++ [v]) = sig ++ [v] := by
  simp [normV, List.getLast?_append, hv.1, hv.2]

/-- receive-message and replace-message verify against the attesters and threshold stored NOW. -/
theorem receive_uses_current_config (ext : Ext) (cfg : Cfg) (st : Store) (led : Ledger) (f msg att : Bytes) (o : Out)
    (hlen : att.length < 2 ^ 32) (h : handle ext cfg st led (.receiveMessage f msg att) = .ok o) :
    ∃ t, getThreshold st = some t ∧ ValidAttestation ext msg att (attestersOf st) t := by
  obtain ⟨_, _, t, m, mo, ht, hv, _⟩ := (receiveMessage_ok ..).mp h
  exact ⟨t, ht, (verify_ok_iff ext msg att _ t hlen).mp hv⟩

theorem replace_uses_current_config (ext : Ext) (cfg : Cfg) (st : Store) (led : Ledger) (f orig att nb nc : Bytes) (o : Out)
    (hlen : att.length < 2 ^ 32) (h : handle ext cfg st led (.replaceMessage f orig att nb nc) = .ok o) :
    ∃ t, getThreshold st = some t ∧ ValidAttestation ext orig att (attestersOf st) t := by
  obtain ⟨_, t, m, addr, ev, ht, hv, _⟩ := (replaceMessage_ok ..).mp h
  exact ⟨t, ht, (verify_ok_iff ext orig att _ t hlen).mp hv⟩

theorem replace_deposit_uses_current_config (ext : Ext) (cfg : Cfg) (st : Store) (led : Ledger) (f orig att nc nr : Bytes) (o : Out)
    (hlen : att.length < 2 ^ 32) (h : handle ext cfg st led (.replaceDepositForBurn f orig att nc nr) = .ok o) :
    ∃ t, getThreshold st = some t ∧ ValidAttestation ext orig att (attestersOf st) t := by
  obtain ⟨_, m, b, addr, nb, inner, _, _, _, _, _, _, hin, _⟩ := (replaceDepositForBurn_ok ..).mp h
  obtain ⟨_, t, m', addr', ev, ht, hv, _⟩ := (replaceMessage_ok ..).mp hin
  exact ⟨t, ht, (verify_ok_iff ext orig att _ t hlen).mp hv⟩

/-- outside the guard: with more than 2^32 bytes of attestation the uint32 offsets of the loop wrap.
    Such an attestation cannot exist in a transaction (it exceeds every block size limit by orders of
    magnitude); the guard is stated rather than hidden. -/
theorem offsets_exact_below_4GiB (i : Nat) (h : 65 * i + 65 < 2 ^ 32) :
    u32 (i * SignatureLength) = 65 * i ∧ u32 (65 * i + SignatureLength) = 65 * i + 65 := by
  simp only [u32, SignatureLength]
  exact ⟨by rw [Nat.mod_eq_of_lt (by omega)]; omega, by rw [Nat.mod_eq_of_lt (by omega)]⟩

/-! non-vacuity: with a toy Ext whose "recovery" reads the key off the signature, a two-signature
    attestation in increasing address order is valid, and its reversal is not accepted. -/
def toyExt : Ext := ⟨fun b => zeros 12 ++ b, fun _ sig => some (sig.take 2), fun _ => none, fun _ => none, id, fun _ _ => false,
  fun _ => false, id⟩

def outcome (r : R Unit) : Nat := match r with | .ok _ => 0 | .error .err => 1 | .error .panic => 2

example : outcome (verify toyExt [] (List.replicate 65 1 ++ List.replicate 65 2) [[48, 49, 48, 49], [48, 50, 48, 50]] 2) = 0 := by decide +kernel
example : outcome (verify toyExt [] (List.replicate 65 2 ++ List.replicate 65 1) [[48, 49, 48, 49], [48, 50, 48, 50]] 2) = 1 := by decide +kernel
example : outcome (verify toyExt [] (List.replicate 65 1 ++ List.replicate 65 1) [[48, 49, 48, 49], [48, 50, 48, 50]] 2) = 1 := by decide +kernel

end Cctp.C01
