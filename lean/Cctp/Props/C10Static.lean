import Cctp.Props.C10
import Cctp.Gen.Signers
/-
  C10, the static half: facts regenerated from proto/circle/cctp/v1/tx.proto on every run (tie 1).
-/
namespace Cctp.C10
open Cctp Gen

/-- the submitter the handlers compare with a role is the transaction's signer: every one of the 25 Msg types
    declares `from` as its signer (regenerated from tx.proto on every run; the ante handler that enforces the
    signature is the SDK's and is not modelled). -/
theorem signer_is_from : Gen.signers.length = 25 ∧ (Gen.signers.all fun e => e.2 == "from") = true := by decide

end Cctp.C10
