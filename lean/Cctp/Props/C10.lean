import Cctp.Lemmas.Typed
/-
  C10 — privileged actions require the matching role.
  No finiteness assumption on the account universe: the proofs never enumerate accounts.
-/
namespace Cctp.C10
open Cctp Gen

/-- the store key of the role each of the 18 privileged transaction types requires. -/
def roleKey : Msg → Option Bytes
  | .updateOwner .. | .updateAttesterManager .. | .updatePauser .. | .updateTokenController ..
  | .updateMaxMessageBodySize .. | .addRemoteTokenMessenger .. | .removeRemoteTokenMessenger .. => some Key.owner
  | .enableAttester .. | .disableAttester .. | .updateSignatureThreshold .. => some Key.attesterManager
  | .pauseBurning _ | .unpauseBurning _ | .pauseSending _ | .unpauseSending _ => some Key.pauser
  | .linkTokenPair .. | .unlinkTokenPair .. | .setMaxBurnAmountPerMessage .. => some Key.tokenController
  | .acceptOwner _ => some Key.pendingOwner
  | _ => none

/-- exactly 18 transaction types are privileged. -/
def privileged (m : Msg) : Bool := (roleKey m).isSome

/-- **A privileged transaction that succeeds was submitted by the current holder of its role.** -/
theorem success_requires_role (ext : Ext) (cfg : Cfg) (st : Store) (led : Ledger) (m : Msg) (k : Bytes) (o : Out)
    (hk : roleKey m = some k) (h : handle ext cfg st led m = .ok o) : getRole st k = some m.from_ := by
  cases m with
  | acceptOwner f => obtain ⟨_, _, hp, _⟩ := (acceptOwner_ok ..).mp h; simp [roleKey] at hk; subst hk; exact hp
  | addRemoteTokenMessenger f d a => obtain ⟨hr, _⟩ := (addRemoteTokenMessenger_ok ..).mp h; simp [roleKey] at hk; subst hk; exact hr
  | disableAttester f a => obtain ⟨hr, _⟩ := (disableAttester_ok ..).mp h; simp [roleKey] at hk; subst hk; exact hr
  | enableAttester f a => obtain ⟨hr, _⟩ := (enableAttester_ok ..).mp h; simp [roleKey] at hk; subst hk; exact hr
  | linkTokenPair f d t l => obtain ⟨hr, _⟩ := (linkTokenPair_ok ..).mp h; simp [roleKey] at hk; subst hk; exact hr
  | pauseBurning f => obtain ⟨hr, _⟩ := (setFlag_ok ..).mp h; simp [roleKey] at hk; subst hk; exact hr
  | pauseSending f => obtain ⟨hr, _⟩ := (setFlag_ok ..).mp h; simp [roleKey] at hk; subst hk; exact hr
  | removeRemoteTokenMessenger f d => obtain ⟨hr, _⟩ := (removeRemoteTokenMessenger_ok ..).mp h; simp [roleKey] at hk; subst hk; exact hr
  | unlinkTokenPair f d t l => obtain ⟨hr, _⟩ := (unlinkTokenPair_ok ..).mp h; simp [roleKey] at hk; subst hk; exact hr
  | unpauseBurning f => obtain ⟨hr, _⟩ := (setFlag_ok ..).mp h; simp [roleKey] at hk; subst hk; exact hr
  | unpauseSending f => obtain ⟨hr, _⟩ := (setFlag_ok ..).mp h; simp [roleKey] at hk; subst hk; exact hr
  | updateOwner f n => obtain ⟨hr, _⟩ := (updateOwner_ok ..).mp h; simp [roleKey] at hk; subst hk; exact hr
  | updateAttesterManager f n => obtain ⟨hr, _⟩ := (updateRole_ok ..).mp h; simp [roleKey] at hk; subst hk; exact hr
  | updateTokenController f n => obtain ⟨hr, _⟩ := (updateRole_ok ..).mp h; simp [roleKey] at hk; subst hk; exact hr
  | updatePauser f n => obtain ⟨hr, _⟩ := (updateRole_ok ..).mp h; simp [roleKey] at hk; subst hk; exact hr
  | updateMaxMessageBodySize f s => obtain ⟨hr, _⟩ := (updateMaxMessageBodySize_ok ..).mp h; simp [roleKey] at hk; subst hk; exact hr
  | setMaxBurnAmountPerMessage f l a => obtain ⟨hr, _⟩ := (setMaxBurnAmountPerMessage_ok ..).mp h; simp [roleKey] at hk; subst hk; exact hr
  | updateSignatureThreshold f a => obtain ⟨hr, _⟩ := (updateSignatureThreshold_ok ..).mp h; simp [roleKey] at hk; subst hk; exact hr
  | _ => simp [roleKey] at hk

/-- **Every other submitter** — holders of the other roles, the previous holder, anyone — **fails and
    changes nothing**: store, ledger and events after the transaction are those before it. -/
theorem unauthorised_fails (ext : Ext) (cfg : Cfg) (w : World) (f : List Bool) (m : Msg) (k : Bytes)
    (hk : roleKey m = some k) (hne : getRole w.store k ≠ some m.from_) :
    (deliver ext cfg w f m).2.fail ≠ none ∧ (deliver ext cfg w f m).1.store = w.store ∧
    (deliver ext cfg w f m).1.ledger = { w.ledger with faults := [] } ∧ (deliver ext cfg w f m).2.events = [] := by
  have hf : (deliver ext cfg w f m).2.fail ≠ none := by
    unfold deliver
    split
    · rename_i o ho
      exact absurd (success_requires_role ext cfg w.store _ m k o hk ho) hne
    · simp
  obtain ⟨h1, h2, h3, _⟩ := C15.failed_tx_commits_nothing ext cfg w f m hf
  exact ⟨hf, h1, h2, h3⟩

/-- the unauthorised attempt does not even panic: it is an ordinary error as long as the role slot a
    handler reads first is set (which every initialised chain guarantees, see C20.roles_always_set). -/
theorem unauthorised_is_error (ext : Ext) (cfg : Cfg) (st : Store) (led : Ledger) (f holder : Bytes)
    (hp : getRole st Key.pauser = some holder) (hne : holder ≠ f) :
    handle ext cfg st led (.pauseBurning f) = .error .err := by
  simp [handle, setFlag, hp, getMust, req, hne, bind, Except.bind, pure, Except.pure, throw, throwThe, MonadExceptOf.throw]

/-- conversely the pauser's four actions always succeed (they have no other precondition) … -/
theorem pauser_actions_succeed (ext : Ext) (cfg : Cfg) (st : Store) (led : Ledger) (f : Bytes)
    (hp : getRole st Key.pauser = some f) :
    (∃ o, handle ext cfg st led (.pauseBurning f) = .ok o) ∧ (∃ o, handle ext cfg st led (.unpauseBurning f) = .ok o) ∧
    (∃ o, handle ext cfg st led (.pauseSending f) = .ok o) ∧ (∃ o, handle ext cfg st led (.unpauseSending f) = .ok o) :=
  ⟨⟨_, (setFlag_ok ..).mpr ⟨hp, rfl⟩⟩, ⟨_, (setFlag_ok ..).mpr ⟨hp, rfl⟩⟩, ⟨_, (setFlag_ok ..).mpr ⟨hp, rfl⟩⟩,
    ⟨_, (setFlag_ok ..).mpr ⟨hp, rfl⟩⟩⟩

/-- … as do the owner's and the token controller's unconditional actions. -/
theorem owner_body_size_succeeds (ext : Ext) (cfg : Cfg) (st : Store) (led : Ledger) (f : Bytes) (n : Nat)
    (ho : getRole st Key.owner = some f) : ∃ o, handle ext cfg st led (.updateMaxMessageBodySize f n) = .ok o :=
  ⟨_, (updateMaxMessageBodySize_ok ..).mpr ⟨ho, rfl⟩⟩

theorem controller_limit_succeeds (ext : Ext) (cfg : Cfg) (st : Store) (led : Ledger) (f l : Bytes) (a : Option Int)
    (ht : getRole st Key.tokenController = some f) : ∃ o, handle ext cfg st led (.setMaxBurnAmountPerMessage f l a) = .ok o :=
  ⟨_, (setMaxBurnAmountPerMessage_ok ..).mpr ⟨ht, rfl⟩⟩

/-- the 18 privileged types, and only they, have a role. -/
theorem privileged_count :
    ([Msg.acceptOwner [], .addRemoteTokenMessenger [] 0 [], .disableAttester [] [], .enableAttester [] [],
      .linkTokenPair [] 0 [] [], .pauseBurning [], .pauseSending [], .removeRemoteTokenMessenger [] 0,
      .unlinkTokenPair [] 0 [] [], .unpauseBurning [], .unpauseSending [], .updateOwner [] [],
      .updateAttesterManager [] [], .updateTokenController [] [], .updatePauser [] [],
      .updateMaxMessageBodySize [] 0, .setMaxBurnAmountPerMessage [] [] none, .updateSignatureThreshold [] 0].all privileged)
    = true ∧
    ([Msg.depositForBurn [] none 0 [] [], .depositForBurnWithCaller [] none 0 [] [] [], .receiveMessage [] [] [],
      .replaceDepositForBurn [] [] [] [] [], .replaceMessage [] [] [] [] [], .sendMessage [] 0 [] [],
      .sendMessageWithCaller [] 0 [] [] []].any privileged) = false := by decide


/-! non-vacuity: with pauser = [1], a pause by [2] fails and by [1] succeeds -/
example : getRole [(Key.pauser, .role [1])] Key.pauser ≠ some [2] := by decide
example : getRole [(Key.pauser, .role [1])] Key.pauser = some [1] := by decide

end Cctp.C10
