import Cctp.Lemmas.Batch
import Cctp.Spec.Roles
import Cctp.Lemmas.Typed
/-
  C11 — role changes follow the documented lifecycle (refinement to the automaton of Spec/Roles.lean).
-/
namespace Cctp.C11
open Cctp Cctp.Spec Gen

/-- the roles as stored. -/
def abs (st : Store) : Roles :=
  ⟨getRole st Key.owner, getRole st Key.pendingOwner, getRole st Key.attesterManager, getRole st Key.pauser,
    getRole st Key.tokenController⟩

theorem getRole_congr {s1 s2 : Store} {k : Bytes} (h : s1.get k = s2.get k) : getRole s1 k = getRole s2 k := by
  simp [getRole, h]

theorem getRole_set_same (s : Store) (k : Bytes) (v : Bytes) : getRole (s.set k (.role v)) k = some v := by
  simp [getRole, Store.get_set_same]

theorem getRole_set_other (s : Store) (k k2 : Bytes) (v : Val) (h : k2 ≠ k) : getRole (s.set k v) k2 = getRole s k2 :=
  getRole_congr (Store.get_set_other s k k2 v h)

/-- **Refinement**: whatever transaction is delivered — any type, any submitter, any outcome — the stored
    roles move exactly as the lifecycle automaton says. -/
theorem roles_refine (ext : Ext) (cfg : Cfg) (w : World) (f : List Bool) (m : Msg) (hg : Good ext w.store) :
    abs (deliver ext cfg w f m).1.store = roleStep ext (abs w.store) m := by
  by_cases hcl : (0 ∉ docClasses m ∧ 1 ∉ docClasses m) ∧ (2 ∉ docClasses m ∧ 3 ∉ docClasses m ∧ 4 ∉ docClasses m)
  · -- not a role transaction: every role key is outside its write classes
    obtain ⟨⟨h0, h1⟩, h2, h3, h4⟩ := hcl
    have e0 := getRole_congr (get_deliver_of_cls ext cfg w f m Key.owner (by simpa using h0))
    have e1 := getRole_congr (get_deliver_of_cls ext cfg w f m Key.pendingOwner (by simpa using h1))
    have e2 := getRole_congr (get_deliver_of_cls ext cfg w f m Key.attesterManager (by simpa using h2))
    have e3 := getRole_congr (get_deliver_of_cls ext cfg w f m Key.pauser (by simpa using h3))
    have e4 := getRole_congr (get_deliver_of_cls ext cfg w f m Key.tokenController (by simpa using h4))
    have : roleStep ext (abs w.store) m = abs w.store := by
      cases m <;> first | rfl | (exfalso; simp [docClasses] at h0 h1 h2 h3 h4)
    rw [this]; simp only [abs, e0, e1, e2, e3, e4]
  · cases m with
    | updateOwner fr n =>
      unfold deliver
      split
      · rename_i o ho
        obtain ⟨hown, hv, rfl⟩ := (updateOwner_ok ..).mp ho
        simp only [C15.adminOut_writes, Store.applyAll, List.foldl_cons, List.foldl_nil, Store.apply, abs, roleStep,
          hown, hv, and_self, if_true]
        rw [getRole_set_same, getRole_set_other _ _ _ _ (Key.ne_of_cls (by simp)),
          getRole_set_other _ _ _ _ (Key.ne_of_cls (by simp)), getRole_set_other _ _ _ _ (Key.ne_of_cls (by simp)),
          getRole_set_other _ _ _ _ (Key.ne_of_cls (by simp)), hown]
      · rename_i e he
        have hno : ¬ (getRole w.store Key.owner = some fr ∧ (ext.accAddr n).isSome) := by
          intro ⟨h1, h2⟩
          have := (updateOwner_ok ext w.store { w.ledger with faults := f } fr n _).mpr ⟨h1, h2, rfl⟩
          simp only [handle] at he; rw [this] at he; cases he
        simp only [abs, roleStep, hno, if_false]
    | acceptOwner fr =>
      unfold deliver
      split
      · rename_i o ho
        obtain ⟨owner, hown, hpend, rfl⟩ := (acceptOwner_ok ..).mp ho
        simp only [C15.adminOut_writes, Store.applyAll, List.foldl_cons, List.foldl_nil, Store.apply, abs, roleStep,
          hown, hpend, Option.isSome_some, and_self, if_true]
        have hwf1 : (w.store.set Key.owner (.role fr)).WF := Store.wf_set _ _ _ hg.wf
        have hp : getRole ((w.store.set Key.owner (.role fr)).del Key.pendingOwner) Key.pendingOwner = none := by
          simp [getRole, Store.get_del_same _ _ hwf1]
        have ho' : ∀ k, k ≠ Key.pendingOwner → getRole ((w.store.set Key.owner (.role fr)).del Key.pendingOwner) k
            = getRole (w.store.set Key.owner (.role fr)) k :=
          fun k hk => getRole_congr (Store.get_del_other _ _ _ hk)
        rw [hp, ho' _ (Key.ne_of_cls (by simp)), ho' _ (Key.ne_of_cls (by simp)), ho' _ (Key.ne_of_cls (by simp)),
          ho' _ (Key.ne_of_cls (by simp)), getRole_set_same, getRole_set_other _ _ _ _ (Key.ne_of_cls (by simp)),
          getRole_set_other _ _ _ _ (Key.ne_of_cls (by simp)), getRole_set_other _ _ _ _ (Key.ne_of_cls (by simp))]
      · rename_i e he
        have hno : ¬ ((getRole w.store Key.owner).isSome ∧ getRole w.store Key.pendingOwner = some fr) := by
          intro ⟨h1, h2⟩
          obtain ⟨ow, how⟩ := Option.isSome_iff_exists.mp h1
          have := (acceptOwner_ok w.store { w.ledger with faults := f } fr _).mpr ⟨ow, how, h2, rfl⟩
          simp only [handle] at he; rw [this] at he; cases he
        simp only [abs, roleStep, hno, if_false]
    | updateAttesterManager fr n =>
      unfold deliver
      split
      · rename_i o ho
        obtain ⟨hown, hv, cur, hcur, rfl⟩ := (updateRole_ok ..).mp ho
        simp only [C15.adminOut_writes, Store.applyAll, List.foldl_cons, List.foldl_nil, Store.apply, abs, roleStep,
          hown, hv, hcur, Option.isSome_some, and_self, if_true]
        rw [getRole_set_same, getRole_set_other _ _ _ _ (Key.ne_of_cls (by simp)),
          getRole_set_other _ _ _ _ (Key.ne_of_cls (by simp)), getRole_set_other _ _ _ _ (Key.ne_of_cls (by simp)),
          getRole_set_other _ _ _ _ (Key.ne_of_cls (by simp)), hown]
      · rename_i e he
        have hno : ¬ (getRole w.store Key.owner = some fr ∧ (ext.accAddr n).isSome ∧ (getRole w.store Key.attesterManager).isSome) := by
          intro ⟨h1, h2, h3⟩
          obtain ⟨c, hc⟩ := Option.isSome_iff_exists.mp h3
          have := (updateRole_ok ext w.store { w.ledger with faults := f } Key.attesterManager .attesterManagerUpdated fr n _).mpr
            ⟨h1, h2, c, hc, rfl⟩
          simp only [handle] at he; rw [this] at he; cases he
        simp only [abs, roleStep, hno, if_false]
    | updatePauser fr n =>
      unfold deliver
      split
      · rename_i o ho
        obtain ⟨hown, hv, cur, hcur, rfl⟩ := (updateRole_ok ..).mp ho
        simp only [C15.adminOut_writes, Store.applyAll, List.foldl_cons, List.foldl_nil, Store.apply, abs, roleStep,
          hown, hv, hcur, Option.isSome_some, and_self, if_true]
        rw [getRole_set_same, getRole_set_other _ _ _ _ (Key.ne_of_cls (by simp)),
          getRole_set_other _ _ _ _ (Key.ne_of_cls (by simp)), getRole_set_other _ _ _ _ (Key.ne_of_cls (by simp)),
          getRole_set_other _ _ _ _ (Key.ne_of_cls (by simp)), hown]
      · rename_i e he
        have hno : ¬ (getRole w.store Key.owner = some fr ∧ (ext.accAddr n).isSome ∧ (getRole w.store Key.pauser).isSome) := by
          intro ⟨h1, h2, h3⟩
          obtain ⟨c, hc⟩ := Option.isSome_iff_exists.mp h3
          have := (updateRole_ok ext w.store { w.ledger with faults := f } Key.pauser .pauserUpdated fr n _).mpr
            ⟨h1, h2, c, hc, rfl⟩
          simp only [handle] at he; rw [this] at he; cases he
        simp only [abs, roleStep, hno, if_false]
    | updateTokenController fr n =>
      unfold deliver
      split
      · rename_i o ho
        obtain ⟨hown, hv, cur, hcur, rfl⟩ := (updateRole_ok ..).mp ho
        simp only [C15.adminOut_writes, Store.applyAll, List.foldl_cons, List.foldl_nil, Store.apply, abs, roleStep,
          hown, hv, hcur, Option.isSome_some, and_self, if_true]
        rw [getRole_set_same, getRole_set_other _ _ _ _ (Key.ne_of_cls (by simp)),
          getRole_set_other _ _ _ _ (Key.ne_of_cls (by simp)), getRole_set_other _ _ _ _ (Key.ne_of_cls (by simp)),
          getRole_set_other _ _ _ _ (Key.ne_of_cls (by simp)), hown]
      · rename_i e he
        have hno : ¬ (getRole w.store Key.owner = some fr ∧ (ext.accAddr n).isSome ∧ (getRole w.store Key.tokenController).isSome) := by
          intro ⟨h1, h2, h3⟩
          obtain ⟨c, hc⟩ := Option.isSome_iff_exists.mp h3
          have := (updateRole_ok ext w.store { w.ledger with faults := f } Key.tokenController .tokenControllerUpdated fr n _).mpr
            ⟨h1, h2, c, hc, rfl⟩
          simp only [handle] at he; rw [this] at he; cases he
        simp only [abs, roleStep, hno, if_false]
    | _ => all_goals exact absurd (by simp [docClasses]) hcl

/-- … and therefore over whole histories. -/
def roleRun (ext : Ext) (r : Roles) : History → Roles
  | [] => r
  | (_, m) :: h => roleRun ext (roleStep ext r m) h

theorem roles_refine_run (ext : Ext) (cfg : Cfg) (h : History) (w : World) (hg : Good ext w.store) :
    abs (runState ext cfg w h).store = roleRun ext (abs w.store) h := by
  induction h generalizing w with
  | nil => rfl
  | cons fm rest ih =>
    obtain ⟨f, m⟩ := fm
    rw [runState_cons, ih _ (good_deliver ext cfg w f m hg), roles_refine ext cfg w f m hg]
    rfl

/-! ### the lifecycle clauses, read off the automaton -/

/-- only the pending owner's acceptance makes them owner, and it clears the pending slot. -/
theorem accept_only_pending (ext : Ext) (r : Roles) (f : Bytes) (h : roleStep ext r (.acceptOwner f) ≠ r) :
    r.pending = some f ∧ roleStep ext r (.acceptOwner f) = { r with owner := some f, pending := none } := by
  simp only [roleStep] at h ⊢
  split at h
  · rename_i hc; simp [hc]
  · exact absurd rfl h

/-- a past acceptance cannot be replayed: right after an acceptance nobody can accept. -/
theorem accept_not_replayable (ext : Ext) (r : Roles) (f g : Bytes) (h : roleStep ext r (.acceptOwner f) ≠ r) :
    roleStep ext (roleStep ext r (.acceptOwner f)) (.acceptOwner g) = roleStep ext r (.acceptOwner f) := by
  obtain ⟨_, e⟩ := accept_only_pending ext r f h
  rw [e]; simp [roleStep]

/-- naming a new pending owner supersedes the old one, who can then no longer accept. -/
theorem supersede (ext : Ext) (r : Roles) (o a b : Bytes) (ho : r.owner = some o)
    (hb : (ext.accAddr b).isSome) (hab : a ≠ b) :
    let r' := roleStep ext r (.updateOwner o b)
    r'.pending = some b ∧ roleStep ext r' (.acceptOwner a) = r' := by
  simp [roleStep, ho, hb, Ne.symm hab]

/-- the current owner cannot complete the transfer in place of the pending owner. -/
theorem owner_cannot_self_accept (ext : Ext) (r : Roles) (o : Bytes) (ho : r.owner = some o) (hp : r.pending ≠ some o) :
    roleStep ext r (.acceptOwner o) = r := by
  simp [roleStep, hp]

/-- the other roles change only through the owner's update, only to syntactically valid addresses. -/
theorem other_roles_only_by_owner (ext : Ext) (r : Roles) (m : Msg)
    (h : (roleStep ext r m).attesterManager ≠ r.attesterManager ∨ (roleStep ext r m).pauser ≠ r.pauser ∨
         (roleStep ext r m).tokenController ≠ r.tokenController) :
    r.owner = some m.from_ ∧ ∃ n, (ext.accAddr n).isSome ∧
      (m = .updateAttesterManager m.from_ n ∨ m = .updatePauser m.from_ n ∨ m = .updateTokenController m.from_ n) := by
  cases m <;> simp only [roleStep] at h <;> try (simp at h)
  all_goals
    split at h
    · first
      | (simp at h; done)
      | (rename_i hc; exact ⟨hc.1, _, hc.2.1, by simp [Msg.from_]⟩)
    · simp at h

/-- the owner slot changes only by an acceptance; the pending slot only by the owner's nomination or an acceptance. -/
theorem owner_changes_only_by_accept (ext : Ext) (r : Roles) (m : Msg) (h : (roleStep ext r m).owner ≠ r.owner) :
    m = .acceptOwner m.from_ ∧ r.pending = some m.from_ := by
  cases m <;> simp only [roleStep] at h <;> try (simp at h)
  all_goals
    split at h
    · first
      | (simp at h; done)
      | (rename_i hc; exact ⟨by simp [Msg.from_], hc.2⟩)
    · simp at h

/-- no other transaction type alters any role. -/
theorem no_other_tx_touches_roles (ext : Ext) (r : Roles) (m : Msg)
    (h : ∀ f n, m ≠ .updateOwner f n ∧ m ≠ .updateAttesterManager f n ∧ m ≠ .updatePauser f n ∧ m ≠ .updateTokenController f n)
    (h' : ∀ f, m ≠ .acceptOwner f) : roleStep ext r m = r := by
  cases m <;> first | rfl | (exfalso; first | exact (h _ _).1 rfl | exact (h _ _).2.1 rfl | exact (h _ _).2.2.1 rfl | exact (h _ _).2.2.2 rfl | exact h' _ rfl)

/-! non-vacuity: a full two-step transfer on a concrete state -/
example : let ext : Ext := ⟨id, fun _ _ => none, fun b => some b, fun b => some b, id, fun _ _ => false, fun _ => false, id⟩
    roleRun ext ⟨some [1], none, some [3], some [4], some [5]⟩
      [([], .updateOwner [1] [2]), ([], .acceptOwner [1]), ([], .acceptOwner [2]), ([], .acceptOwner [2])]
    = ⟨some [2], none, some [3], some [4], some [5]⟩ := by decide


/-- over multi-message transactions the roles are those the automaton reaches on the messages of the committed
    transactions (so `UpdateOwner` and the nominee's `AcceptOwner` may share a transaction, and a role change
    inside a transaction that fails never happened). -/
theorem roles_refine_txs (ext : Ext) (cfg : Cfg) (txs : List Txn) (w : World) (hs : w.settle = w) (hg : Good ext w.store) :
    abs (runTxs ext cfg w txs).1.store = roleRun ext (abs w.store) (committed ext cfg w txs) := by
  rw [runTxs_flatten ext cfg txs w hs]
  exact roles_refine_run ext cfg _ w hg

end Cctp.C11
