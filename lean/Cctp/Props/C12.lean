import Cctp.Lemmas.Typed
import Cctp.Props.C10
/-
  C12 — pausing stops exactly the flows it names.
-/
namespace Cctp.C12
open Cctp Gen

/-- the seven user-facing transaction types. -/
def userFlow : Msg → Bool
  | .sendMessage .. | .sendMessageWithCaller .. | .depositForBurn .. | .depositForBurnWithCaller ..
  | .receiveMessage .. | .replaceMessage .. | .replaceDepositForBurn .. => true
  | _ => false

theorem innerSend_needs_unpaused {ext cfg st led d r b c o} (h : innerSend ext cfg st led d r b c = .ok o) :
    sendPaused st = false := by
  unfold innerSend at h
  split at h
  · obtain ⟨_, _, _, hs, _⟩ := (sendMessage_ok ..).mp h; exact ((sendCore_ok ..).mp hs).1
  · obtain ⟨_, _, _, _, _, hs, _⟩ := (sendMessageWithCaller_ok ..).mp h; exact ((sendCore_ok ..).mp hs).1

/-- **While sending-and-receiving is paused no message is sent, replaced or received.** -/
theorem send_paused_blocks (ext : Ext) (cfg : Cfg) (st : Store) (led : Ledger) (m : Msg)
    (hp : sendPaused st = true) (hm : userFlow m = true) : ∀ o, handle ext cfg st led m ≠ .ok o := by
  intro o h
  have : sendPaused st = false := by
    cases m with
    | sendMessage f d r b =>
      obtain ⟨_, _, _, hs, _⟩ := (sendMessage_ok ..).mp h; exact ((sendCore_ok ..).mp hs).1
    | sendMessageWithCaller f d r b c =>
      obtain ⟨_, _, _, _, _, hs, _⟩ := (sendMessageWithCaller_ok ..).mp h; exact ((sendCore_ok ..).mp hs).1
    | depositForBurn f a d r t =>
      obtain ⟨_, _, _, _, _, _, _, _, _, _, _, _, _, _, _, _, _, hin, _⟩ := (depositForBurn_ok ..).mp h
      exact innerSend_needs_unpaused hin
    | depositForBurnWithCaller f a d r t c =>
      obtain ⟨_, _, _, _, _, _, _, _, _, _, _, _, _, _, _, _, _, hin, _⟩ :=
        (depositForBurn_ok ..).mp ((depositForBurnWithCaller_ok ..).mp h).2.2
      exact innerSend_needs_unpaused hin
    | receiveMessage f msg att => exact ((receiveMessage_ok ..).mp h).1
    | replaceMessage f og a b c => exact ((replaceMessage_ok ..).mp h).1
    | replaceDepositForBurn f og a c r =>
      obtain ⟨_, _, _, _, _, _, _, _, _, _, _, _, hin, _⟩ := (replaceDepositForBurn_ok ..).mp h
      exact ((replaceMessage_ok ..).mp hin).1
    | _ => simp [userFlow] at hm
  rw [hp] at this; cases this

/-- **While burning-and-minting is paused no deposit, deposit replacement or mint occurs.** -/
theorem burn_paused_blocks (ext : Ext) (cfg : Cfg) (st : Store) (led : Ledger) (hp : burnPaused st = true) :
    (∀ f a d r t o, handle ext cfg st led (.depositForBurn f a d r t) ≠ .ok o) ∧
    (∀ f a d r t c o, handle ext cfg st led (.depositForBurnWithCaller f a d r t c) ≠ .ok o) ∧
    (∀ f og a c r o, handle ext cfg st led (.replaceDepositForBurn f og a c r) ≠ .ok o) ∧
    (∀ f msg att o m, Message.parse msg = .ok m → m.recipient = cfg.modulePadded →
        handle ext cfg st led (.receiveMessage f msg att) ≠ .ok o) := by
  refine ⟨?_, ?_, ?_, ?_⟩
  · intro f a d r t o h
    obtain ⟨_, _, _, _, _, _, _, _, _, _, _, hb, _⟩ := (depositForBurn_ok ..).mp h
    rw [hp] at hb; cases hb
  · intro f a d r t c o h
    obtain ⟨_, _, _, _, _, _, _, _, _, _, _, hb, _⟩ := (depositForBurn_ok ..).mp ((depositForBurnWithCaller_ok ..).mp h).2.2
    rw [hp] at hb; cases hb
  · intro f og a c r o h
    have hb := ((replaceDepositForBurn_ok ..).mp h).1
    rw [hp] at hb; cases hb
  · intro f msg att o m hpm hrec h
    obtain ⟨_, _, t, m', mo, _, _, hp', _, _, _, _, hmo, _⟩ := (receiveMessage_ok ..).mp h
    rw [hpm] at hp'; cases hp'
    unfold mintOrSkip at hmo
    rw [if_pos hrec] at hmo
    have hb := ((mintBranch_ok ..).mp hmo).1
    rw [hp] at hb; cases hb

/-- hence, in particular, no Mint request reaches the dependency while minting is paused. -/
theorem no_mint_while_burn_paused (ext : Ext) (cfg : Cfg) (st : Store) (led : Ledger) (f msg att : Bytes) (o : Out)
    (hp : burnPaused st = true) (h : handle ext cfg st led (.receiveMessage f msg att) = .ok o) : o.deps = [] := by
  obtain ⟨_, _, t, m, mo, _, _, hpm, _, _, _, _, hmo, rfl⟩ := (receiveMessage_ok ..).mp h
  unfold mintOrSkip at hmo
  split at hmo
  · have hb := ((mintBranch_ok ..).mp hmo).1; rw [hp] at hb; cases hb
  · simp only [pure_ok] at hmo; subst hmo; rfl

/-- **… though messages not addressed to the module can still be received**: for such a message the
    acceptance condition does not mention the burn flag at all. -/
theorem receive_other_ok_iff (ext : Ext) (cfg : Cfg) (st : Store) (led : Ledger) (f msg att : Bytes) (m : Message)
    (hpm : Message.parse msg = .ok m) (hrec : m.recipient ≠ cfg.modulePadded) :
    (∃ o, handle ext cfg st led (.receiveMessage f msg att) = .ok o) ↔
      sendPaused st = false ∧ (attestersOf st).length ≠ 0 ∧
      (∃ t, getThreshold st = some t ∧ verify ext msg att (attestersOf st) t = .ok ()) ∧
      m.destDomain = NobleDomainId ∧ (m.caller = zeros 32 ∨ ext.bech32Enc (m.caller.drop 12) = some f) ∧
      m.version = NobleMessageVersion ∧ isUsed st m.sourceDomain m.nonce = false := by
  constructor
  · rintro ⟨o, h⟩
    obtain ⟨h1, h2, t, m', mo, h3, h4, hp', h5, h6, h7, h8, _, _⟩ := (receiveMessage_ok ..).mp h
    rw [hpm] at hp'; cases hp'
    exact ⟨h1, h2, ⟨t, h3, h4⟩, h5, h6, h7, h8⟩
  · rintro ⟨h1, h2, ⟨t, h3, h4⟩, h5, h6, h7, h8⟩
    have hmo : mintOrSkip ext cfg st led m = .ok ⟨[], [], led⟩ := by
      unfold mintOrSkip; rw [if_neg hrec]; rfl
    exact ⟨_, (receiveMessage_ok ..).mpr ⟨h1, h2, t, m, ⟨[], [], led⟩, h3, h4, hpm, h5, h6, h7, h8, hmo, rfl⟩⟩

/-- **Each flag changes only by the pauser's pause / unpause of that flag.** -/
theorem burn_flag_frame (ext : Ext) (cfg : Cfg) (w : World) (f : List Bool) (m : Msg)
    (h : getFlag (deliver ext cfg w f m).1.store Key.burnPaused ≠ getFlag w.store Key.burnPaused) :
    (m = .pauseBurning m.from_ ∨ m = .unpauseBurning m.from_) ∧ getRole w.store Key.pauser = some m.from_ ∧
    (deliver ext cfg w f m).2.fail = none := by
  by_cases hcl : 5 ∈ docClasses m
  · have hok : (deliver ext cfg w f m).2.fail = none := by
      apply Classical.byContradiction
      intro hf
      rw [(C15.failed_tx_commits_nothing ext cfg w f m hf).1] at h
      exact h rfl
    have hm : m = .pauseBurning m.from_ ∨ m = .unpauseBurning m.from_ := by
      cases m <;> simp [docClasses] at hcl <;> simp [Msg.from_]
    refine ⟨hm, ?_, hok⟩
    unfold deliver at hok
    split at hok
    · rename_i o ho
      rcases hm with e | e <;> (rw [e] at ho; exact ((setFlag_ok ..).mp ho).1)
    · rename_i e he; simp at hok
  · have := get_deliver_of_cls ext cfg w f m Key.burnPaused (by simpa using hcl)
    exact absurd (by simp [getFlag, this]) h

theorem send_flag_frame (ext : Ext) (cfg : Cfg) (w : World) (f : List Bool) (m : Msg)
    (h : getFlag (deliver ext cfg w f m).1.store Key.sendPaused ≠ getFlag w.store Key.sendPaused) :
    (m = .pauseSending m.from_ ∨ m = .unpauseSending m.from_) ∧ getRole w.store Key.pauser = some m.from_ ∧
    (deliver ext cfg w f m).2.fail = none := by
  by_cases hcl : 6 ∈ docClasses m
  · have hok : (deliver ext cfg w f m).2.fail = none := by
      apply Classical.byContradiction
      intro hf
      rw [(C15.failed_tx_commits_nothing ext cfg w f m hf).1] at h
      exact h rfl
    have hm : m = .pauseSending m.from_ ∨ m = .unpauseSending m.from_ := by
      cases m <;> simp [docClasses] at hcl <;> simp [Msg.from_]
    refine ⟨hm, ?_, hok⟩
    unfold deliver at hok
    split at hok
    · rename_i o ho
      rcases hm with e | e <;> (rw [e] at ho; exact ((setFlag_ok ..).mp ho).1)
    · rename_i e he; simp at hok
  · have := get_deliver_of_cls ext cfg w f m Key.sendPaused (by simpa using hcl)
    exact absurd (by simp [getFlag, this]) h

/-- the pauser's pause / unpause sets exactly the flag it names, to the value it names, and leaves the
    other flag alone. -/
theorem pause_sets (ext : Ext) (cfg : Cfg) (w : World) (f : List Bool) (fr : Bytes)
    (hp : getRole w.store Key.pauser = some fr) :
    burnPaused (deliver ext cfg w f (.pauseBurning fr)).1.store = true ∧
    burnPaused (deliver ext cfg w f (.unpauseBurning fr)).1.store = false ∧
    sendPaused (deliver ext cfg w f (.pauseSending fr)).1.store = true ∧
    sendPaused (deliver ext cfg w f (.unpauseSending fr)).1.store = false ∧
    sendPaused (deliver ext cfg w f (.pauseBurning fr)).1.store = sendPaused w.store ∧
    burnPaused (deliver ext cfg w f (.pauseSending fr)).1.store = burnPaused w.store := by
  have key : ∀ (k : Bytes) (v : Bool) (kind : EvKind) (m : Msg),
      handle ext cfg w.store { w.ledger with faults := f } m = setFlag w.store { w.ledger with faults := f } k v kind fr →
      (deliver ext cfg w f m).1.store = w.store.set k (.flag v) := by
    intro k v kind m hm
    unfold deliver
    rw [hm, (setFlag_ok ..).mpr ⟨hp, rfl⟩]
    simp [C15.adminOut_writes, Store.applyAll, Store.apply]
  refine ⟨?_, ?_, ?_, ?_, ?_, ?_⟩
  · rw [key Key.burnPaused true .burningAndMintingPaused _ rfl]; simp [burnPaused, getFlag, Store.get_set_same]
  · rw [key Key.burnPaused false .burningAndMintingUnpaused _ rfl]; simp [burnPaused, getFlag, Store.get_set_same]
  · rw [key Key.sendPaused true .sendingAndReceivingPaused _ rfl]; simp [sendPaused, getFlag, Store.get_set_same]
  · rw [key Key.sendPaused false .sendingAndReceivingUnpaused _ rfl]; simp [sendPaused, getFlag, Store.get_set_same]
  · rw [key Key.burnPaused true .burningAndMintingPaused _ rfl]
    simp [sendPaused, getFlag, Store.get_set_other _ _ _ _ (Key.ne_of_cls (by simp : Key.cls Key.sendPaused ≠ Key.cls Key.burnPaused))]
  · rw [key Key.sendPaused true .sendingAndReceivingPaused _ rfl]
    simp [burnPaused, getFlag, Store.get_set_other _ _ _ _ (Key.ne_of_cls (by simp : Key.cls Key.burnPaused ≠ Key.cls Key.sendPaused))]

/-- **Pausing is idempotent**: pausing an already paused flag leaves the store as it is
    (stated for stores where keys are unique and ordered, as every reachable store is). -/
theorem pause_idempotent (ext : Ext) (cfg : Cfg) (w : World) (f : List Bool) (fr : Bytes) (hwf : w.store.WF)
    (hp : getRole w.store Key.pauser = some fr) (hb : w.store.get Key.burnPaused = some (.flag true)) :
    (deliver ext cfg w f (.pauseBurning fr)).1.store = w.store := by
  unfold deliver
  have : handle ext cfg w.store { w.ledger with faults := f } (.pauseBurning fr) = .ok _ := (setFlag_ok ..).mpr ⟨hp, rfl⟩
  rw [this]
  simp only [C15.adminOut_writes, Store.applyAll, List.foldl_cons, List.foldl_nil, Store.apply]
  -- setting a key to the value it already has
  clear this
  induction hs : w.store with
  | nil => rw [hs] at hb; simp [Store.get] at hb
  | cons p rest _ =>
    rw [hs] at hb hwf
    exact set_same_wf _ _ _ hwf hb
where
  set_same_wf : ∀ (s : Store) (k : Bytes) (v : Val), s.WF → s.get k = some v → s.set k v = s := by
    intro s k v hwf h
    induction s with
    | nil => simp [Store.get] at h
    | cons p rest ih =>
      obtain ⟨k', v'⟩ := p
      obtain ⟨h1, h2⟩ := hwf
      simp only [Store.get] at h
      simp only [Store.set]
      split at h
      · rename_i e; subst e; simp only [Option.some.injEq] at h; subst h; simp
      · rename_i hne
        simp only [hne, if_false]
        have hmem := Store.mem_of_get h
        have hlt := h1 _ hmem
        -- k' < k, hence not k < k'
        have hnlt : blt k k' = false := by
          cases hb : blt k k' with
          | false => rfl
          | true => exact absurd (blt_trans hb hlt) (by rw [blt_irrefl]; simp)
        simp only [hnlt, Bool.false_eq_true, if_false]
        rw [ih h2 h]

/-- **Administrative actions stay available while paused**: no privileged handler's success depends on a
    pause flag — shown here as: each still succeeds for its role holder with both flags set. -/
theorem admin_available_while_paused (ext : Ext) (cfg : Cfg) (st : Store) (led : Ledger) (fr : Bytes)
    (_hb : burnPaused st = true) (_hs : sendPaused st = true) :
    (getRole st Key.pauser = some fr → ∃ o, handle ext cfg st led (.unpauseBurning fr) = .ok o) ∧
    (getRole st Key.pauser = some fr → ∃ o, handle ext cfg st led (.unpauseSending fr) = .ok o) ∧
    (getRole st Key.owner = some fr → ∀ n, ∃ o, handle ext cfg st led (.updateMaxMessageBodySize fr n) = .ok o) ∧
    (getRole st Key.tokenController = some fr → ∀ l a, ∃ o, handle ext cfg st led (.setMaxBurnAmountPerMessage fr l a) = .ok o) ∧
    (getRole st Key.owner = some fr → ∀ n, (ext.accAddr n).isSome → ∃ o, handle ext cfg st led (.updateOwner fr n) = .ok o) :=
  ⟨fun h => ⟨_, (setFlag_ok ..).mpr ⟨h, rfl⟩⟩, fun h => ⟨_, (setFlag_ok ..).mpr ⟨h, rfl⟩⟩,
   fun h n => ⟨_, (updateMaxMessageBodySize_ok ..).mpr ⟨h, rfl⟩⟩,
   fun h l a => ⟨_, (setMaxBurnAmountPerMessage_ok ..).mpr ⟨h, rfl⟩⟩,
   fun h n hv => ⟨_, (updateOwner_ok ..).mpr ⟨h, hv, rfl⟩⟩⟩

/-! ### administrative actions do not look at the pause flags; unpausing restores the store -/

/-- setting a key outside a prefix does not change what a prefix scan sees. -/
theorem scan_set_other (s : Store) (k : Bytes) (v : Val) (p : Bytes) (h : isPrefixOf p k = false) :
    (s.set k v).scan p = s.scan p := by
  induction s with
  | nil => simp [Store.set, Store.scan, h]
  | cons e rest ih =>
    obtain ⟨k', v'⟩ := e
    simp only [Store.set]
    split
    · rename_i e; subst e; simp [Store.scan, h]
    · split
      · simp [Store.scan, h]
      · simp only [Store.scan, List.filter_cons] at ih ⊢
        rw [ih]

/-- the two pause-flag keys. -/
def isFlagKey (k : Bytes) : Prop := k = Key.burnPaused ∨ k = Key.sendPaused

theorem flag_cls {k : Bytes} (h : isFlagKey k) : Key.cls k = 5 ∨ Key.cls k = 6 := by
  rcases h with rfl | rfl <;> simp

theorem flag_not_attester_prefix {k : Bytes} (h : isFlagKey k) : isPrefixOf AttesterKeyPrefix k = false := by
  rcases h with rfl | rfl <;> decide

section
variable (st : Store) (k : Bytes) (b : Bool) (hk : isFlagKey k)
include hk

theorem get_setflag {k2 : Bytes} (h : Key.cls k2 ≠ 5 ∧ Key.cls k2 ≠ 6) : (st.set k (.flag b)).get k2 = st.get k2 := by
  apply Store.get_set_other
  intro e; subst e
  rcases flag_cls hk with h' | h' <;> omega

theorem getRole_setflag {k2 : Bytes} (h : Key.cls k2 ≤ 4) : getRole (st.set k (.flag b)) k2 = getRole st k2 := by
  unfold getRole; rw [get_setflag st k b hk (by omega)]
theorem getThreshold_setflag : getThreshold (st.set k (.flag b)) = getThreshold st := by
  unfold getThreshold; rw [get_setflag st k b hk (by simp)]
theorem getAttester_setflag (a : Bytes) : getAttester (st.set k (.flag b)) a = getAttester st a := by
  unfold getAttester; rw [get_setflag st k b hk (by simp)]
theorem getPair_setflag (ext : Ext) (d : Nat) (t : Bytes) : getPair ext (st.set k (.flag b)) d t = getPair ext st d t := by
  unfold getPair; rw [get_setflag st k b hk (by simp)]
theorem getMessenger_setflag (d : Nat) : getMessenger (st.set k (.flag b)) d = getMessenger st d := by
  unfold getMessenger; rw [get_setflag st k b hk (by simp)]
theorem attestersOf_setflag : attestersOf (st.set k (.flag b)) = attestersOf st := by
  unfold attestersOf; rw [scan_set_other _ _ _ _ (flag_not_attester_prefix hk)]
end

/-- **Administrative actions stay available while paused — at full strength**: the outcome (success or
    failure, writes, events) of every one of the 18 privileged transaction types is the same whatever
    the two pause flags hold; no administrative handler reads them. -/
theorem admin_ignores_pause_flags (ext : Ext) (cfg : Cfg) (st : Store) (led : Ledger) (m : Msg) (k : Bytes) (b : Bool)
    (hk : isFlagKey k) (hm : C10.privileged m = true) :
    handle ext cfg (st.set k (.flag b)) led m = handle ext cfg st led m := by
  have r0 := getRole_setflag st k b hk (k2 := Key.owner) (by simp)
  have r1 := getRole_setflag st k b hk (k2 := Key.pendingOwner) (by simp)
  have r2 := getRole_setflag st k b hk (k2 := Key.attesterManager) (by simp)
  have r3 := getRole_setflag st k b hk (k2 := Key.pauser) (by simp)
  have r4 := getRole_setflag st k b hk (k2 := Key.tokenController) (by simp)
  cases m <;> simp [C10.privileged, C10.roleKey] at hm <;>
    simp [handle, acceptOwner, addRemoteTokenMessenger, removeRemoteTokenMessenger, enableAttester, disableAttester,
      updateSignatureThreshold, setFlag, linkTokenPair, unlinkTokenPair, setMaxBurnAmountPerMessage, updateOwner, updateRole,
      updateMaxMessageBodySize, r0, r1, r2, r3, r4,
      getThreshold_setflag st k b hk, getAttester_setflag st k b hk, getPair_setflag st k b hk, getMessenger_setflag st k b hk,
      attestersOf_setflag st k b hk]

theorem set_set (s : Store) (k : Bytes) (v v' : Val) : (s.set k v).set k v' = s.set k v' := by
  induction s with
  | nil => simp [Store.set]
  | cons e rest ih =>
    obtain ⟨k', w⟩ := e
    simp only [Store.set]
    split
    · rename_i e; subst e; simp [Store.set]
    · rename_i hne
      split
      · simp [Store.set]
      · rename_i hlt
        simp only [Store.set, hne, if_false, hlt, ih]
        simp

/-- the store after the pauser's pause / unpause of a flag. -/
theorem deliver_setFlag (ext : Ext) (cfg : Cfg) (w : World) (f : List Bool) (fr : Bytes)
    (hp : getRole w.store Key.pauser = some fr) :
    (deliver ext cfg w f (.pauseBurning fr)).1.store = w.store.set Key.burnPaused (.flag true) ∧
    (deliver ext cfg w f (.unpauseBurning fr)).1.store = w.store.set Key.burnPaused (.flag false) ∧
    (deliver ext cfg w f (.pauseSending fr)).1.store = w.store.set Key.sendPaused (.flag true) ∧
    (deliver ext cfg w f (.unpauseSending fr)).1.store = w.store.set Key.sendPaused (.flag false) := by
  have key : ∀ (k : Bytes) (v : Bool) (kind : EvKind) (m : Msg),
      handle ext cfg w.store { w.ledger with faults := f } m = setFlag w.store { w.ledger with faults := f } k v kind fr →
      (deliver ext cfg w f m).1.store = w.store.set k (.flag v) := by
    intro k v kind m hm
    unfold deliver
    rw [hm, (setFlag_ok ..).mpr ⟨hp, rfl⟩]
    simp [C15.adminOut_writes, Store.applyAll, Store.apply]
  exact ⟨key _ _ .burningAndMintingPaused _ rfl, key _ _ .burningAndMintingUnpaused _ rfl,
    key _ _ .sendingAndReceivingPaused _ rfl, key _ _ .sendingAndReceivingUnpaused _ rfl⟩

/-- **Unpausing restores the previous behaviour**: from a state in which a flag is stored as "not paused",
    the pauser's pause followed by unpause of that flag gives back the identical store — hence identical
    results for every later transaction and query (the ledger is not touched by either). -/
theorem unpause_restores (ext : Ext) (cfg : Cfg) (w : World) (f1 f2 : List Bool) (fr : Bytes) (hwf : w.store.WF)
    (hp : getRole w.store Key.pauser = some fr) :
    (w.store.get Key.burnPaused = some (.flag false) →
      (deliver ext cfg (deliver ext cfg w f1 (.pauseBurning fr)).1 f2 (.unpauseBurning fr)).1.store = w.store) ∧
    (w.store.get Key.sendPaused = some (.flag false) →
      (deliver ext cfg (deliver ext cfg w f1 (.pauseSending fr)).1 f2 (.unpauseSending fr)).1.store = w.store) := by
  obtain ⟨d1, _, d3, _⟩ := deliver_setFlag ext cfg w f1 fr hp
  constructor
  · intro hb
    have hp' : getRole (deliver ext cfg w f1 (.pauseBurning fr)).1.store Key.pauser = some fr := by
      rw [d1, getRole_setflag _ _ _ (Or.inl rfl) (by simp)]; exact hp
    rw [(deliver_setFlag ext cfg _ f2 fr hp').2.1, d1, set_set]
    exact pause_idempotent.set_same_wf _ _ _ hwf hb
  · intro hb
    have hp' : getRole (deliver ext cfg w f1 (.pauseSending fr)).1.store Key.pauser = some fr := by
      rw [d3, getRole_setflag _ _ _ (Or.inr rfl) (by simp)]; exact hp
    rw [(deliver_setFlag ext cfg _ f2 fr hp').2.2.2, d3, set_set]
    exact pause_idempotent.set_same_wf _ _ _ hwf hb


/-! non-vacuity -/
example : sendPaused [(Key.sendPaused, .flag true)] = true ∧ burnPaused [(Key.sendPaused, .flag true)] = false := by decide

end Cctp.C12
