import Cctp.Spec.Layout
import Cctp.Lemmas.Bytes
import Cctp.Lemmas.Result
/-
  C16 — the wire encodings are the CCTP formats and round-trip exactly.
-/
namespace Cctp.C16
open Cctp Cctp.Spec Cctp.Gen

/-- the offsets regenerated from /repo's constants.go are the CCTP offsets. -/
theorem gen_layout_is_cctp :
    (VersionIndex, SourceDomainIndex, DestinationDomainIndex, NonceIndex, SenderIndex, RecipientIndex,
      DestinationCallerIndex, MessageBodyIndex) = (0, 4, 8, 12, 20, 52, 84, 116)
    ∧ (BurnMsgVersionIndex, BurnTokenIndex, MintRecipientIndex, AmountIndex, MsgSenderIndex, BurnMessageLen)
      = (0, 4, 36, 68, 100, 132)
    ∧ (VersionLen, DomainBytesLen, NonceBytesLen, AddressBytesLen, BurnTokenLen, MintRecipientLen, AmountLen)
      = (4, 4, 8, 32, 32, 32, 32) := ⟨rfl, rfl, rfl⟩

/-- the module's decoder is the reference decoder, on every byte string. -/
theorem parse_eq_spec (bz : Bytes) :
    Message.parse bz = (match decodeMessage bz with | some m => .ok m | none => .error .err) := by
  unfold Message.parse decodeMessage
  by_cases h : bz.length < 116
  · simp [h, req, MessageBodyIndex, throw, throwThe, MonadExceptOf.throw, bind, Except.bind]
  · simp [h, req, slice, MessageBodyIndex, VersionIndex, SourceDomainIndex, DestinationDomainIndex,
      NonceIndex, SenderIndex, RecipientIndex, DestinationCallerIndex, pure, Except.pure, bind, Except.bind]


theorem field_exact (w : Nat) (src : Bytes) (h : src.length = w) : field w src = src := by
  subst h; simp [field, zeros]

/-- the module's encoder is the reference encoder whenever the three address fields are 32 bytes … -/
theorem bytes_eq_spec (m : Message) (hs : m.sender.length = 32) (hr : m.recipient.length = 32)
    (hc : m.caller.length = 32) : m.bytes = .ok (encodeMessage m) := by
  unfold Message.bytes encodeMessage
  simp [req, hs, hr, hc, AddressBytesLen, pure, Except.pure, bind, Except.bind, field_exact,
    SourceDomainIndex, VersionIndex, DestinationDomainIndex, NonceIndex, SenderIndex, RecipientIndex,
    DestinationCallerIndex, MessageBodyIndex, VersionLen, DomainBytesLen, NonceBytesLen]

/-- … and is an error (never a misencoding) when any of them has another length. -/
theorem bytes_bad_field_size (m : Message)
    (h : ¬ (m.sender.length = 32 ∧ m.recipient.length = 32 ∧ m.caller.length = 32)) :
    m.bytes = .error .err := by
  unfold Message.bytes
  by_cases hs : m.sender.length = 32
  · by_cases hr : m.recipient.length = 32
    · have hc : ¬ m.caller.length = 32 := fun hc => h ⟨hs, hr, hc⟩
      simp [req, hs, hr, hc, AddressBytesLen, pure, Except.pure, bind, Except.bind, throw, throwThe,
        MonadExceptOf.throw]
    · simp [req, hs, hr, AddressBytesLen, pure, Except.pure, bind, Except.bind, throw, throwThe,
        MonadExceptOf.throw]
  · simp [req, hs, AddressBytesLen, bind, Except.bind, throw, throwThe, MonadExceptOf.throw]

theorem short_rejected (bz : Bytes) (h : bz.length < 116) : Message.parse bz = .error .err := by
  rw [parse_eq_spec]; simp [decodeMessage, h]

theorem drop_split (bz : Bytes) (i w : Nat) : bz.drop i = (bz.drop i).take w ++ bz.drop (i + w) := by
  rw [← List.drop_drop]; exact (List.take_append_drop w (bz.drop i)).symm

/-- decode then encode: every byte string with a full header is reproduced exactly. -/
theorem decode_encode (bz : Bytes) (h : 116 ≤ bz.length) :
    ∃ m, decodeMessage bz = some m ∧ encodeMessage m = bz ∧ WFMessage m := by
  have hn : ¬ bz.length < 116 := by omega
  refine ⟨_, (by unfold decodeMessage; exact if_neg hn), ?_, ?_⟩
  · simp only [encodeMessage]
    have l4 : (bz.take 4).length = 4 := by simp; omega
    have l4b : ((bz.drop 4).take 4).length = 4 := by simp; omega
    have l4c : ((bz.drop 8).take 4).length = 4 := by simp; omega
    have l8 : ((bz.drop 12).take 8).length = 8 := by simp; omega
    rw [be_fromBE' 4 _ l4, be_fromBE' 4 _ l4b, be_fromBE' 4 _ l4c, be_fromBE' 8 _ l8]
    have e0 := (List.take_append_drop 4 bz).symm
    have e1 := drop_split bz 4 4
    have e2 := drop_split bz 8 4
    have e3 := drop_split bz 12 8
    have e4 := drop_split bz 20 32
    have e5 := drop_split bz 52 32
    have e6 := drop_split bz 84 32
    conv => rhs; rw [e0, e1, e2, e3, e4, e5, e6]
  · constructor
    · have := fromBE_lt (bz.take 4); simp at this
      have l4 : (bz.take 4).length = 4 := by simp; omega
      have := fromBE_lt (bz.take 4); rw [l4] at this; simpa using this
    · have l : ((bz.drop 4).take 4).length = 4 := by simp; omega
      have := fromBE_lt ((bz.drop 4).take 4); rw [l] at this; simpa using this
    · have l : ((bz.drop 8).take 4).length = 4 := by simp; omega
      have := fromBE_lt ((bz.drop 8).take 4); rw [l] at this; simpa using this
    · have l : ((bz.drop 12).take 8).length = 8 := by simp; omega
      have := fromBE_lt ((bz.drop 12).take 8); rw [l] at this; simpa using this
    · simp; omega
    · simp; omega
    · simp; omega

/-- encode then decode: every well-formed message value is reproduced exactly. -/
theorem encode_decode (m : Message) (wf : WFMessage m) : decodeMessage (encodeMessage m) = some m := by
  obtain ⟨hv, hsd, hd, hn, hs, hr, hc⟩ := wf
  have len : (encodeMessage m).length = 116 + m.body.length := by
    simp [encodeMessage, hs, hr, hc]; omega
  have hnl : ¬ (encodeMessage m).length < 116 := by omega
  simp only [decodeMessage, hnl, if_false]
  have t4 : ∀ (a rest : Bytes), a.length = 4 → (a ++ rest).take 4 = a := fun a rest h => by
    rw [← h]; exact List.take_left
  cases m with
  | mk version sourceDomain destDomain nonce sender recipient caller body =>
    simp only at hv hsd hd hn hs hr hc
    simp only [encodeMessage]
    congr 1
    simp only [Message.mk.injEq]
    have d4 : ∀ (a rest : Bytes) (n : Nat), a.length = n → (a ++ rest).drop n = rest := fun a rest n h => by
      rw [← h]; exact List.drop_left
    have tk : ∀ (a rest : Bytes) (n : Nat), a.length = n → (a ++ rest).take n = a := fun a rest n h => by
      rw [← h]; exact List.take_left
    have dd : ∀ (a rest : Bytes) (n k : Nat), a.length = n → (a ++ rest).drop (n + k) = rest.drop k :=
      fun a rest n k h => by rw [← h]; exact List.drop_length_add_append k
    refine ⟨?_, ?_, ?_, ?_, ?_, ?_, ?_, ?_⟩
    · rw [tk _ _ 4 (be_length _ _), fromBE_be, Nat.mod_eq_of_lt]; simpa using hv
    · rw [d4 _ _ 4 (be_length _ _), tk _ _ 4 (be_length _ _), fromBE_be, Nat.mod_eq_of_lt]; simpa using hsd
    · rw [show (8:Nat) = 4 + 4 from rfl, dd _ _ 4 4 (be_length _ _), d4 _ _ 4 (be_length _ _),
        tk _ _ 4 (be_length _ _), fromBE_be, Nat.mod_eq_of_lt]; simpa using hd
    · rw [show (12:Nat) = 4 + 8 from rfl, dd _ _ 4 8 (be_length _ _), show (8:Nat) = 4 + 4 from rfl,
        dd _ _ 4 4 (be_length _ _), d4 _ _ 4 (be_length _ _), tk _ _ 8 (be_length _ _), fromBE_be,
        Nat.mod_eq_of_lt]; simpa using hn
    · rw [show (20:Nat) = 4 + 16 from rfl, dd _ _ 4 16 (be_length _ _), show (16:Nat) = 4 + 12 from rfl,
        dd _ _ 4 12 (be_length _ _), show (12:Nat) = 4 + 8 from rfl, dd _ _ 4 8 (be_length _ _),
        d4 _ _ 8 (be_length _ _), tk _ _ 32 hs]
    · rw [show (52:Nat) = 4 + 48 from rfl, dd _ _ 4 48 (be_length _ _), show (48:Nat) = 4 + 44 from rfl,
        dd _ _ 4 44 (be_length _ _), show (44:Nat) = 4 + 40 from rfl, dd _ _ 4 40 (be_length _ _),
        show (40:Nat) = 8 + 32 from rfl, dd _ _ 8 32 (be_length _ _), d4 _ _ 32 hs, tk _ _ 32 hr]
    · rw [show (84:Nat) = 4 + 80 from rfl, dd _ _ 4 80 (be_length _ _), show (80:Nat) = 4 + 76 from rfl,
        dd _ _ 4 76 (be_length _ _), show (76:Nat) = 4 + 72 from rfl, dd _ _ 4 72 (be_length _ _),
        show (72:Nat) = 8 + 64 from rfl, dd _ _ 8 64 (be_length _ _), show (64:Nat) = 32 + 32 from rfl,
        dd _ _ 32 32 hs, d4 _ _ 32 hr, tk _ _ 32 hc]
    · rw [show (116:Nat) = 4 + 112 from rfl, dd _ _ 4 112 (be_length _ _), show (112:Nat) = 4 + 108 from rfl,
        dd _ _ 4 108 (be_length _ _), show (108:Nat) = 4 + 104 from rfl, dd _ _ 4 104 (be_length _ _),
        show (104:Nat) = 8 + 96 from rfl, dd _ _ 8 96 (be_length _ _), show (96:Nat) = 32 + 64 from rfl,
        dd _ _ 32 64 hs, show (64:Nat) = 32 + 32 from rfl, dd _ _ 32 32 hr, d4 _ _ 32 hc]


/-! ### burn message body -/

theorem burn_parse_eq_spec (bz : Bytes) :
    BurnMessage.parse bz = (match decodeBurn bz with | some b => .ok (toModel b) | none => .error .err) := by
  unfold BurnMessage.parse decodeBurn
  by_cases h : bz.length = 132
  · simp [h, req, slice, toModel, BurnMessageLen, BurnMsgVersionIndex, BurnTokenIndex, MintRecipientIndex,
      AmountIndex, MsgSenderIndex, pure, Except.pure, bind, Except.bind]
  · simp [h, req, BurnMessageLen, throw, throwThe, MonadExceptOf.throw, bind, Except.bind]

theorem burn_wrong_length_rejected (bz : Bytes) (h : bz.length ≠ 132) :
    BurnMessage.parse bz = .error .err := by
  rw [burn_parse_eq_spec]; simp [decodeBurn, h]

/-- the module's burn-body encoder is the reference encoder on well-formed values
    (a negative amount is encoded by its magnitude, as `FillBytes` does). -/
theorem burn_bytes_eq_spec (m : BurnMessage) (a : Int) (ha : m.amount = some a) (hlt : a.natAbs < 2 ^ 256)
    (ht : m.burnToken.length = 32) (hr : m.mintRecipient.length = 32) (hs : m.messageSender.length = 32) :
    m.bytes = .ok (encodeBurn (ofModel m)) := by
  unfold BurnMessage.bytes encodeBurn ofModel
  have hlt' : a.natAbs < 256 ^ 32 := by
    have : (256:Nat) ^ 32 = 2 ^ 256 := by decide
    omega
  simp [req, must, getMust, ha, hlt', ht, hr, hs, AddressBytesLen, BurnTokenLen, MintRecipientLen, AmountLen,
    pure, Except.pure, bind, Except.bind, field_exact, BurnTokenIndex, BurnMsgVersionIndex,
    MintRecipientIndex, AmountIndex, MsgSenderIndex, BurnMessageLen, VersionLen]

theorem burn_bytes_bad_field_size (m : BurnMessage)
    (h : ¬ (m.burnToken.length = 32 ∧ m.mintRecipient.length = 32 ∧ m.messageSender.length = 32)) :
    m.bytes = .error .err := by
  unfold BurnMessage.bytes
  by_cases ht : m.burnToken.length = 32
  · by_cases hr : m.mintRecipient.length = 32
    · have hs : ¬ m.messageSender.length = 32 := fun hs => h ⟨ht, hr, hs⟩
      simp [req, ht, hr, hs, AddressBytesLen, BurnTokenLen, MintRecipientLen, pure, Except.pure, bind,
        Except.bind, throw, throwThe, MonadExceptOf.throw]
    · simp [req, ht, hr, BurnTokenLen, MintRecipientLen, pure, Except.pure, bind, Except.bind, throw,
        throwThe, MonadExceptOf.throw]
  · simp [req, ht, BurnTokenLen, bind, Except.bind, throw, throwThe, MonadExceptOf.throw]

theorem burn_decode_encode (bz : Bytes) (h : bz.length = 132) :
    ∃ b, decodeBurn bz = some b ∧ encodeBurn b = bz ∧ WFBurn b := by
  have hn : ¬ bz.length ≠ 132 := by omega
  refine ⟨_, (by unfold decodeBurn; exact if_neg hn), ?_, ?_⟩
  · simp only [encodeBurn]
    have l4 : (bz.take 4).length = 4 := by simp; omega
    have l32 : ((bz.drop 68).take 32).length = 32 := by simp; omega
    rw [be_fromBE' 4 _ l4, be_fromBE' 32 _ l32]
    have e0 := (List.take_append_drop 4 bz).symm
    have e1 := drop_split bz 4 32
    have e2 := drop_split bz 36 32
    have e3 := drop_split bz 68 32
    have e4 : bz.drop 100 = (bz.drop 100).take 32 := by
      rw [List.take_of_length_le]; simp; omega
    conv => rhs; rw [e0, e1, e2, e3, e4]
  · constructor
    · have l : (bz.take 4).length = 4 := by simp; omega
      have := fromBE_lt (bz.take 4); rw [l] at this; simpa using this
    · simp; omega
    · simp; omega
    · have l : ((bz.drop 68).take 32).length = 32 := by simp; omega
      have := fromBE_lt ((bz.drop 68).take 32); rw [l] at this
      have e : (256:Nat) ^ 32 = 2 ^ 256 := by decide
      simp only [] at this ⊢; omega
    · simp; omega

theorem burn_encode_decode (b : Burn) (wf : WFBurn b) : decodeBurn (encodeBurn b) = some b := by
  obtain ⟨hv, ht, hr, ha, hs⟩ := wf
  have len : (encodeBurn b).length = 132 := by simp [encodeBurn, ht, hr, hs]
  have hnl : ¬ (encodeBurn b).length ≠ 132 := by omega
  simp only [decodeBurn, hnl, if_false]
  cases b with
  | mk version burnToken mintRecipient amount messageSender =>
    simp only at hv ht hr ha hs
    simp only [encodeBurn]
    congr 1
    simp only [Burn.mk.injEq]
    have d4 : ∀ (a rest : Bytes) (n : Nat), a.length = n → (a ++ rest).drop n = rest := fun a rest n h => by
      rw [← h]; exact List.drop_left
    have tk : ∀ (a rest : Bytes) (n : Nat), a.length = n → (a ++ rest).take n = a := fun a rest n h => by
      rw [← h]; exact List.take_left
    have dd : ∀ (a rest : Bytes) (n k : Nat), a.length = n → (a ++ rest).drop (n + k) = rest.drop k :=
      fun a rest n k h => by rw [← h]; exact List.drop_length_add_append k
    have e : (256:Nat) ^ 32 = 2 ^ 256 := by decide
    refine ⟨?_, ?_, ?_, ?_, ?_⟩
    · rw [tk _ _ 4 (be_length _ _), fromBE_be, Nat.mod_eq_of_lt]; simpa using hv
    · rw [d4 _ _ 4 (be_length _ _), tk _ _ 32 ht]
    · rw [show (36:Nat) = 4 + 32 from rfl, dd _ _ 4 32 (be_length _ _), d4 _ _ 32 ht, tk _ _ 32 hr]
    · rw [show (68:Nat) = 4 + 64 from rfl, dd _ _ 4 64 (be_length _ _), show (64:Nat) = 32 + 32 from rfl,
        dd _ _ 32 32 ht, d4 _ _ 32 hr, tk _ _ 32 (be_length _ _), fromBE_be, Nat.mod_eq_of_lt]; omega
    · rw [show (100:Nat) = 4 + 96 from rfl, dd _ _ 4 96 (be_length _ _), show (96:Nat) = 32 + 64 from rfl,
        dd _ _ 32 64 ht, show (64:Nat) = 32 + 32 from rfl, dd _ _ 32 32 hr, d4 _ _ 32 (be_length _ _)]
      rw [List.take_of_length_le]; omega

/-! ### round trips stated on the module's own functions -/

/-- Decoding then encoding any byte string of valid length returns the same bytes. -/
theorem parse_bytes_roundtrip (bz : Bytes) (h : 116 ≤ bz.length) :
    ∃ m, Message.parse bz = .ok m ∧ m.bytes = .ok bz := by
  obtain ⟨m, hd, he, wf⟩ := decode_encode bz h
  refine ⟨m, ?_, ?_⟩
  · rw [parse_eq_spec, hd]
  · rw [bytes_eq_spec m wf.sender wf.recipient wf.caller, he]

/-- Encoding then decoding any well-formed value returns the same value. -/
theorem bytes_parse_roundtrip (m : Message) (wf : WFMessage m) :
    ∃ bz, m.bytes = .ok bz ∧ Message.parse bz = .ok m := by
  refine ⟨encodeMessage m, bytes_eq_spec m wf.sender wf.recipient wf.caller, ?_⟩
  rw [parse_eq_spec, encode_decode m wf]

theorem burn_parse_bytes_roundtrip (bz : Bytes) (h : bz.length = 132) :
    ∃ m, BurnMessage.parse bz = .ok m ∧ m.bytes = .ok bz := by
  obtain ⟨b, hd, he, wf⟩ := burn_decode_encode bz h
  refine ⟨toModel b, ?_, ?_⟩
  · rw [burn_parse_eq_spec, hd]
  · have := burn_bytes_eq_spec (toModel b) (Int.ofNat b.amount) rfl (by simpa using wf.amount)
      wf.token wf.recipient wf.sender
    rw [this]
    have : ofModel (toModel b) = b := by cases b; simp [ofModel, toModel]
    rw [this, he]

theorem burn_bytes_parse_roundtrip (b : Burn) (wf : WFBurn b) :
    ∃ bz, (toModel b).bytes = .ok bz ∧ BurnMessage.parse bz = .ok (toModel b) := by
  have hb := burn_bytes_eq_spec (toModel b) (Int.ofNat b.amount) rfl (by simpa using wf.amount)
      wf.token wf.recipient wf.sender
  have e : ofModel (toModel b) = b := by cases b; simp [ofModel, toModel]
  refine ⟨encodeBurn b, by rw [hb, e], ?_⟩
  rw [burn_parse_eq_spec, burn_encode_decode b wf]

/-! ### non-vacuity: a concrete non-trivial message meets the hypotheses and round-trips -/

example : WFMessage ⟨0, 4, 1, 7, zeros 12 ++ List.replicate 20 1, List.replicate 32 2, zeros 32, [9, 9, 9]⟩ :=
  ⟨by decide, by decide, by decide, by decide, by decide, by decide, by decide⟩

example : WFBurn ⟨0, List.replicate 32 7, List.replicate 32 8, 2 ^ 255 + 5, List.replicate 32 9⟩ :=
  ⟨by decide, by decide, by decide, by decide, by decide⟩

end Cctp.C16
