import Cctp.Props.C15
import Cctp.Gen.WriteSets
/-
  C15, the static half: facts regenerated from /repo's static call graph on every run (tie 1).  Kept in a
  module of its own, imported by nothing, so that a change which only defeats the extractor's resolution
  breaks this obligation and no other property's build.
-/
namespace Cctp.C15
open Cctp Cctp.Spec Gen

/-! ### the static half: for every code path — regenerated from /repo's call graph on every run -/

/-- documented store-key classes per entry point, by the names of the key constants in types/keys.go. -/
def documentedClasses : String → List String
  | "msg:ReceiveMessage" => ["usedNonceKeyPrefix"]
  | "msg:SendMessage" | "msg:SendMessageWithCaller" | "msg:DepositForBurn" | "msg:DepositForBurnWithCaller" => ["nextAvailableNonceKey"]
  | "msg:ReplaceMessage" | "msg:ReplaceDepositForBurn" => []
  | "msg:AcceptOwner" => ["ownerKey", "pendingOwnerKey"]
  | "msg:UpdateOwner" => ["pendingOwnerKey"]
  | "msg:UpdateAttesterManager" => ["attesterManagerKey"]
  | "msg:UpdatePauser" => ["pauserKey"]
  | "msg:UpdateTokenController" => ["tokenControllerKey"]
  | "msg:UpdateMaxMessageBodySize" => ["maxMessageBodySizeKey"]
  | "msg:AddRemoteTokenMessenger" | "msg:RemoveRemoteTokenMessenger" => ["remoteTokenMessengerKeyPrefix"]
  | "msg:EnableAttester" | "msg:DisableAttester" => ["attesterKeyPrefix"]
  | "msg:UpdateSignatureThreshold" => ["signatureThresholdKey"]
  | "msg:PauseBurningAndMinting" | "msg:UnpauseBurningAndMinting" => ["burningAndMintingPausedKey"]
  | "msg:PauseSendingAndReceivingMessages" | "msg:UnpauseSendingAndReceivingMessages" => ["sendingAndReceivingMessagesPausedKey"]
  | "msg:LinkTokenPair" | "msg:UnlinkTokenPair" => ["tokenPairKeyPrefix"]
  | "msg:SetMaxBurnAmountPerMessage" => ["perMessageBurnLimitKeyPrefix"]
  | "func:InitGenesis" => ["attesterKeyPrefix", "attesterManagerKey", "burningAndMintingPausedKey", "maxMessageBodySizeKey",
      "nextAvailableNonceKey", "ownerKey", "pauserKey", "perMessageBurnLimitKeyPrefix", "remoteTokenMessengerKeyPrefix",
      "sendingAndReceivingMessagesPausedKey", "signatureThresholdKey", "tokenControllerKey", "tokenPairKeyPrefix", "usedNonceKeyPrefix"]
  | _ => []   -- queries, ExportGenesis and anything new: nothing

/-- **For every code path**: the store-key classes that any function reachable from a handler (in the static
    call graph regenerated from the current source) can Set or Delete lie within the documented classes of
    that handler; in particular no write resolves to an unknown key class. -/
theorem static_writes_within_documented :
    (Gen.writeSets.all fun e => e.2.all fun c => (documentedClasses e.1).contains c) = true := by decide

/-- **Queries and genesis export write nothing**, statically: no Set/Delete is reachable from any of the 19
    query methods or from ExportGenesis. -/
theorem queries_and_export_write_nothing :
    (["keeper:Attester", "keeper:Attesters", "keeper:BurnMessageVersion", "keeper:BurningAndMintingPaused", "keeper:LocalDomain",
      "keeper:LocalMessageVersion", "keeper:MaxMessageBodySize", "keeper:NextAvailableNonce", "keeper:PerMessageBurnLimit",
      "keeper:PerMessageBurnLimits", "keeper:RemoteTokenMessenger", "keeper:RemoteTokenMessengers", "keeper:Roles",
      "keeper:SendingAndReceivingMessagesPaused", "keeper:SignatureThreshold", "keeper:TokenPair", "keeper:TokenPairs",
      "keeper:UsedNonce", "keeper:UsedNonces", "func:ExportGenesis"].all fun n => Gen.writeSets.lookup n == some []) = true := by
  decide

/-- all 25 transaction handlers, 19 queries and the two genesis functions were found by the extractor. -/
theorem entry_points_complete : Gen.writeSets.length = 46 := by decide

end Cctp.C15
