/-
  Byte strings and the fixed-width encodings used by x/cctp.
  Go `[]byte` and Go `string` are both `Bytes` (Go strings are byte strings).
  Core-only: no Mathlib import (the driver links as a lean_exe).
-/
namespace Cctp

abbrev Bytes := List UInt8

/-- big-endian encoding of `n` on exactly `w` bytes (wraps like Go's PutUintNN on the low bytes). -/
def be : Nat → Nat → Bytes
  | 0, _ => []
  | w+1, n => be w (n / 256) ++ [UInt8.ofNat (n % 256)]

/-- unsigned big-endian value of a byte string (`big.Int.SetBytes`, `binary.BigEndian.UintNN`). -/
def fromBE (bs : Bytes) : Nat := bs.foldl (fun acc b => acc * 256 + b.toNat) 0

def zeros (n : Nat) : Bytes := List.replicate n 0

def isZeros (b : Bytes) : Bool := b.all (· == 0)

/-- Go: `dst := make([]byte, 32); copy(dst[12:], addr)` — at most 20 bytes are copied. -/
def pad12 (addr : Bytes) : Bytes :=
  let a := addr.take 20
  zeros 12 ++ a ++ zeros (20 - a.length)

/-- Go slice `b[i:j]` for `i ≤ j ≤ len b` (callers guard the bounds). -/
def slice (b : Bytes) (i j : Nat) : Bytes := (b.drop i).take (j - i)

/-- lexicographic order on byte strings: `bytes.Compare(a,b) < 0`. -/
def blt : Bytes → Bytes → Bool
  | [], [] => false
  | [], _ :: _ => true
  | _ :: _, [] => false
  | a :: as, b :: bs => a < b || (a == b && blt as bs)

def isPrefixOf : Bytes → Bytes → Bool
  | [], _ => true
  | _ :: _, [] => false
  | a :: as, b :: bs => a == b && isPrefixOf as bs

/-! ### hex (go-ethereum `common.FromHex`, Go `encoding/hex`) -/

def hexVal (c : UInt8) : Option UInt8 :=
  if 48 ≤ c ∧ c ≤ 57 then some (c - 48)
  else if 97 ≤ c ∧ c ≤ 102 then some (c - 87)
  else if 65 ≤ c ∧ c ≤ 70 then some (c - 55)
  else none

/-- `hex.Decode` semantics: decode pairs, stop at the first bad pair, return what was decoded and
    whether the whole (even-length) input was consumed. -/
def hexPairs : Bytes → Bytes × Bool
  | a :: b :: rest =>
    match hexVal a, hexVal b with
    | some x, some y =>
      let (r, ok) := hexPairs rest
      ((x * 16 + y) :: r, ok)
    | _, _ => ([], false)
  | [_] => ([], false)
  | [] => ([], true)

def has0x (s : Bytes) : Bool :=
  match s with
  | 48 :: c :: _ => c == 120 || c == 88
  | _ => false

/-- go-ethereum `common.FromHex`: optional 0x/0X, odd length gets a leading '0', decoding stops
    silently at the first invalid pair. -/
def fromHex (s : Bytes) : Bytes :=
  let s := if has0x s then s.drop 2 else s
  let s := if s.length % 2 == 1 then 48 :: s else s
  (hexPairs s).1

/-- Go `hex.DecodeString(strings.TrimPrefix(s,"0x"))`, strict. -/
def hexDecodeStrict0x (s : Bytes) : Option Bytes :=
  let s := match s with
    | 48 :: 120 :: rest => rest
    | _ => s
  let (r, ok) := hexPairs s
  if ok then some r else none

def hexDigit (n : UInt8) : UInt8 := if n < 10 then 48 + n else 87 + n

def toHex (b : Bytes) : Bytes := b.flatMap fun x => [hexDigit (x / 16), hexDigit (x % 16)]

/-- left-pad to 32 bytes (`RemoteTokenPadded`, cli `leftPadBytes`); `none` when longer than 32. -/
def leftPad32 (b : Bytes) : Option Bytes :=
  if b.length > 32 then none else some (zeros (32 - b.length) ++ b)

end Cctp
