import Cctp.Model.Handlers
/-
  keeper/grpc_query_*.go (19 queries) and the SDK's `query.Paginate` as the list queries use it.
-/
namespace Cctp
open Gen

structure PageReq where
  key : Bytes
  offset : Nat
  limit : Nat
  countTotal : Bool
  reverse : Bool
  deriving Repr, DecidableEq, Inhabited

structure PageRes where
  items : List Val
  nextKey : Bytes
  total : Nat
  deriving Repr, DecidableEq, Inhabited

/-- the offset-mode loop of `query.Paginate`. -/
def pageLoop (offset endc : Nat) (countTotal : Bool) :
    List (Bytes × Val) → (count : Nat) → (acc : List Val) → (nextKey : Bytes) → List Val × Bytes × Nat
  | [], count, acc, nk => (acc, nk, count)
  | (k, v) :: rest, count, acc, nk =>
    let count := count + 1
    if count ≤ offset then pageLoop offset endc countTotal rest count acc nk
    else if count ≤ endc then pageLoop offset endc countTotal rest count (acc ++ [v]) nk
    else if count = u64 (endc + 1) then
      if !countTotal then (acc, k, count) else pageLoop offset endc countTotal rest count acc k
    else pageLoop offset endc countTotal rest count acc nk

/-- key of the first entry of a list ([] when there is none). -/
def headKey : List (Bytes × Val) → Bytes
  | (k, _) :: _ => k
  | [] => []

/-- `query.Paginate(prefixStore, req, onResult)`; `all` = the prefix store's entries in key order with
    the prefix stripped.  `none` request = nil pointer. -/
def paginate (all : List (Bytes × Val)) (rq : Option PageReq) : R PageRes := do
  let rq := rq.getD { key := [], offset := 0, limit := 0, countTotal := false, reverse := false }
  let (limit, countTotal) := if rq.limit = 0 then (100, true) else (rq.limit, rq.countTotal)
  let keyed := rq.key.length ≠ 0
  req (¬ (rq.offset > 0 ∧ keyed))
  -- getIterator
  let fromKey := all.filter fun kv => !(blt kv.1 rq.key)      -- entries with key ≥ start
  let items ←
    if rq.reverse then
      if keyed then
        match fromKey with
        | [] => pure all.reverse
        | _ :: [] => throw Fail.panic                 -- itr.Next(); itr.Key() on an exhausted iterator
        | _ :: (k2, _) :: _ => pure ((all.filter fun kv => blt kv.1 k2).reverse)
      else pure all.reverse
    else pure (if keyed then fromKey else all)
  if keyed then
    let page := items.take limit
    let nk := headKey (items.drop limit)
    pure { items := page.map (·.2), nextKey := nk, total := 0 }
  else
    let endc := u64 (rq.offset + limit)
    let (acc, nk, count) := pageLoop rq.offset endc countTotal items 0 [] []
    pure { items := acc, nextKey := nk, total := if countTotal then count else 0 }

inductive Query where
  | attester (a : Bytes)
  | attesters (p : Option PageReq)
  | burnLimit (denom : Bytes)
  | burnLimits (p : Option PageReq)
  | burningAndMintingPaused
  | sendingAndReceivingPaused
  | maxMessageBodySize
  | nextAvailableNonce
  | signatureThreshold
  | tokenPair (domain : Nat) (tokenHex : Bytes)
  | tokenPairs (p : Option PageReq)
  | usedNonce (domain nonce : Nat)
  | usedNonces (p : Option PageReq)
  | remoteTokenMessenger (domain : Nat)
  | remoteTokenMessengers (p : Option PageReq)
  | roles
  | burnMessageVersion
  | localMessageVersion
  | localDomain
  deriving Repr, DecidableEq, Inhabited

inductive QResp where
  | val (v : Val)
  | page (p : PageRes)
  | roles (owner attesterManager pauser tokenController : Bytes)
  | num (n : Nat)
  deriving Repr, DecidableEq, Inhabited

def stripPrefix (p : Bytes) (l : List (Bytes × Val)) : List (Bytes × Val) :=
  l.map fun kv => (kv.1.drop p.length, kv.2)

def listQuery (st : Store) (pfx : Bytes) (p : Option PageReq) : R QResp := do
  let r ← paginate (stripPrefix pfx (st.scan pfx)) p
  pure (.page r)

/-- `nilReq` = the request pointer is nil (possible for in-process callers only). -/
def query (ext : Ext) (st : Store) (nilReq : Bool) (q : Query) : R QResp :=
  match q with
  | .burnMessageVersion => pure (.num MessageBodyVersion)
  | .localMessageVersion => pure (.num NobleMessageVersion)
  | .localDomain => pure (.num NobleDomainId)
  | q => do
    req (¬ nilReq)
    match q with
    | .attester a => do let s ← getOr (getAttester st a); pure (.val (.attester s))
    | .attesters p => listQuery st AttesterKeyPrefix p
    | .burnLimit d => do let v ← getOr (st.get (Key.limit d)); pure (.val v)
    | .burnLimits p => listQuery st PerMessageBurnLimitKeyPrefix p
    | .burningAndMintingPaused => do let b ← getOr (getFlag st Key.burnPaused); pure (.val (.flag b))
    | .sendingAndReceivingPaused => do let b ← getOr (getFlag st Key.sendPaused); pure (.val (.flag b))
    | .maxMessageBodySize => do let n ← getOr (getSize st); pure (.val (.size n))
    | .nextAvailableNonce => do let (d, n) ← getOr (getNextNonce st); pure (.val (.nonce d n))
    | .signatureThreshold => do let n ← getOr (getThreshold st); pure (.val (.threshold n))
    | .tokenPair d hex => do
        let raw ← getOr (hexDecodeStrict0x hex)
        let tok ← getOr (leftPad32 raw)
        let (d', t, l) ← getOr (getPair ext st d tok)
        pure (.val (.pair d' t l))
    | .tokenPairs p => listQuery st TokenPairKeyPrefix p
    | .usedNonce d n => do
        req (isUsed st d n)
        pure (.val (.nonce d n))
    | .usedNonces p => listQuery st UsedNonceKeyPrefix p
    | .remoteTokenMessenger d => do let (d', a) ← getOr (getMessenger st d); pure (.val (.messenger d' a))
    | .remoteTokenMessengers p => listQuery st RemoteTokenMessengerKeyPrefix p
    | .roles => do
        let o ← getMust (getRole st Key.owner)
        let am ← getMust (getRole st Key.attesterManager)
        let pa ← getMust (getRole st Key.pauser)
        let tc ← getMust (getRole st Key.tokenController)
        pure (.roles o am pa tc)
    | _ => pure (.num 0)

end Cctp
