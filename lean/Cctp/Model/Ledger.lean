import Cctp.Model.Bytes
import Cctp.Model.Ext
/-
  A ledger standing for x/bank + x/fiattokenfactory as far as x/cctp can observe them:
  balances per (address bytes, exact denom), supply per denom, the configured minting denom,
  and a fault plan consumed by dependency calls in call order (true = that call fails).
  Written from reading noble-fiattokenfactory keeper/msg_server_{mint,burn}.go:
  denom must equal the minting denom, amount must be positive, balance must suffice.
-/
namespace Cctp

structure Ledger where
  mintingDenom : Bytes
  /-- (address bytes, denom) ↦ balance; absent = 0 -/
  bal : List ((Bytes × Bytes) × Nat)
  /-- denom ↦ total supply -/
  supply : List (Bytes × Nat)
  /-- remaining fault plan -/
  faults : List Bool
  deriving Repr, DecidableEq, Inhabited

/-- a dependency call as seen by the dependency, with its result. -/
inductive Dep where
  | transfer (from_ : Bytes) (moduleName : Bytes) (denom : Bytes) (amount : Int) (ok : Bool)
  | burn (from_ : Bytes) (denom : Bytes) (amount : Int) (ok : Bool)
  | mint (from_ : Bytes) (address : Bytes) (denom : Bytes) (amount : Int) (ok : Bool)
  deriving Repr, DecidableEq, Inhabited

namespace Ledger

def lookup {κ} [DecidableEq κ] (l : List (κ × Nat)) (k : κ) : Nat :=
  match l with
  | [] => 0
  | (k', v) :: rest => if k = k' then v else lookup rest k

def update {κ} [DecidableEq κ] (l : List (κ × Nat)) (k : κ) (v : Nat) : List (κ × Nat) :=
  match l with
  | [] => [(k, v)]
  | (k', v') :: rest => if k = k' then (k, v) :: rest else (k', v') :: update rest k v

def balance (l : Ledger) (a d : Bytes) : Nat := lookup l.bal (a, d)
def supplyOf (l : Ledger) (d : Bytes) : Nat := lookup l.supply d

/-- pop the next fault bit (an exhausted plan means "no fault"). -/
def popFault (l : Ledger) : Bool × Ledger :=
  match l.faults with
  | [] => (false, l)
  | f :: rest => (f, { l with faults := rest })

/-- `bank.SendCoinsFromAccountToModule(from, module, [coin])`. -/
def transfer (l : Ledger) (from_ moduleAddr denom : Bytes) (amt : Int) : Bool × Ledger :=
  let (f, l) := l.popFault
  if f then (false, l)
  else if amt ≤ 0 then (false, l)
  else
    let a := amt.toNat
    if l.balance from_ denom < a then (false, l)
    else
      let b1 := update l.bal (from_, denom) (l.balance from_ denom - a)
      let l1 := { l with bal := b1 }
      let b2 := update l1.bal (moduleAddr, denom) (l1.balance moduleAddr denom + a)
      (true, { l1 with bal := b2 })

/-- `fiattokenfactory.Burn{From = module string, Amount = coin}`; the minter is the cctp module. -/
def burn (l : Ledger) (fromOk : Bool) (moduleAddr denom : Bytes) (amt : Int) : Bool × Ledger :=
  let (f, l) := l.popFault
  if f then (false, l)
  else if !fromOk then (false, l)
  else if denom ≠ l.mintingDenom then (false, l)
  else if amt ≤ 0 then (false, l)
  else
    let a := amt.toNat
    if l.balance moduleAddr denom < a then (false, l)
    else
      (true, { l with bal := update l.bal (moduleAddr, denom) (l.balance moduleAddr denom - a)
                      supply := update l.supply denom (l.supplyOf denom - a) })

/-- `fiattokenfactory.Mint{From = module string, Address, Amount}`. -/
def mint (l : Ledger) (fromOk : Bool) (to : Option Bytes) (denom : Bytes) (amt : Int) : Bool × Ledger :=
  let (f, l) := l.popFault
  if f then (false, l)
  else if !fromOk then (false, l)
  else match to with
    | none => (false, l)
    | some to =>
      if denom ≠ l.mintingDenom then (false, l)
      else if amt ≤ 0 then (false, l)
      else
        let a := amt.toNat
        (true, { l with bal := update l.bal (to, denom) (l.balance to denom + a)
                        supply := update l.supply denom (l.supplyOf denom + a) })

end Ledger
end Cctp
