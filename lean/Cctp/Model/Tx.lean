import Cctp.Model.Handlers
/-
  The SDK contract the handlers rely on (baseapp runMsgs / CacheContext): a message runs on a branch
  of the state; the branch (store writes, ledger changes, events) is committed iff the handler
  returned no error, and discarded otherwise (a panic is recovered by runTx and treated the same).
  This is an assumption about the SDK, mirrored in the harness by a real CacheContext.
-/
namespace Cctp

structure World where
  store : Store
  ledger : Ledger
  deriving Repr, Inhabited

/-- the externally visible result of delivering one transaction. -/
structure TxResult where
  /-- `none` = ok -/
  fail : Option Fail
  resp : Resp
  events : List Event
  deps : List Dep
  writes : List Store.Write
  deriving Repr, Inhabited

def deliver (ext : Ext) (cfg : Cfg) (w : World) (faults : List Bool) (m : Msg) : World × TxResult :=
  match handle ext cfg w.store { w.ledger with faults := faults } m with
  | .ok o =>
    ({ store := w.store.applyAll o.writes, ledger := { o.ledger with faults := [] } },
     { fail := none, resp := o.resp, events := o.events, deps := o.deps, writes := o.writes })
  | .error e =>
    ({ w with ledger := { w.ledger with faults := [] } },
     { fail := some e, resp := .empty, events := [], deps := [], writes := [] })

/-- a history: transactions with their fault plans. -/
abbrev History := List (List Bool × Msg)

def run (ext : Ext) (cfg : Cfg) (w : World) : History → World × List TxResult
  | [] => (w, [])
  | (f, m) :: rest =>
    let (w1, r) := deliver ext cfg w f m
    let (w2, rs) := run ext cfg w1 rest
    (w2, r :: rs)

def runState (ext : Ext) (cfg : Cfg) (w : World) (h : History) : World := (run ext cfg w h).1

end Cctp
