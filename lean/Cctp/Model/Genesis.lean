import Cctp.Model.Handlers
/-
  types/genesis.go (Validate) and x/cctp/genesis.go (InitGenesis / ExportGenesis).
-/
namespace Cctp
open Gen

structure Genesis where
  owner : Bytes
  attesterManager : Bytes
  pauser : Bytes
  tokenController : Bytes
  attesters : List Bytes
  limits : List (Bytes × Int)
  burnPaused : Option Bool
  sendPaused : Option Bool
  maxBody : Option Nat
  nextNonce : Option (Nat × Nat)
  threshold : Option Nat
  pairs : List (Nat × Bytes × Bytes)
  used : List (Nat × Nat)
  messengers : List (Nat × Bytes)
  deriving Repr, DecidableEq, Inhabited

/-- `types.DefaultGenesis()`: no roles, empty registries, both flags present and false, the three optional scalars absent. -/
def Genesis.default : Genesis where
  owner := []
  attesterManager := []
  pauser := []
  tokenController := []
  attesters := []
  limits := []
  burnPaused := some false
  sendPaused := some false
  maxBody := none
  nextNonce := none
  threshold := none
  pairs := []
  used := []
  messengers := []

/-- the map-based duplicate check: no key occurs twice. -/
def noDup (ks : List Bytes) : Bool :=
  match ks with
  | [] => true
  | k :: rest => !rest.contains k && noDup rest

namespace Genesis

def roleOk (ext : Ext) (r : Bytes) : Bool := r = [] || (ext.accAddr r).isSome

/-- `GenesisState.Validate`; keys are compared as item keys (the prefix is the same per list). -/
def validate (ext : Ext) (g : Genesis) : Bool :=
  roleOk ext g.owner && roleOk ext g.attesterManager && roleOk ext g.pauser && roleOk ext g.tokenController
  && noDup (g.attesters.map Key.attester)
  && noDup (g.limits.map fun l => Key.limit l.1)
  && g.burnPaused.isSome && g.sendPaused.isSome
  && g.pairs.all (fun p => p.2.1.length = BurnTokenLen)
  && noDup (g.pairs.map fun p => Key.tokenPair ext p.1 p.2.1)
  && noDup (g.used.map fun u => Key.usedNonce u.1 u.2)
  && noDup (g.messengers.map fun m => Key.messenger m.1)

/-- the stored next-available-nonce record (default 0 when the genesis field is absent). -/
def nonceVal : Option (Nat × Nat) → Val
  | some (d, n) => .nonce d n
  | none => .nonce 0 0

/-- the writes of `InitGenesis`, in order. -/
def initWrites (ext : Ext) (g : Genesis) : List Store.Write :=
  [ (Key.owner, some (.role g.owner)), (Key.attesterManager, some (.role g.attesterManager)),
    (Key.pauser, some (.role g.pauser)), (Key.tokenController, some (.role g.tokenController)) ]
  ++ g.attesters.map (fun a => (Key.attester a, some (.attester a)))
  ++ g.limits.map (fun l => (Key.limit l.1, some (.limit l.1 l.2)))
  ++ [ (Key.burnPaused, some (.flag (g.burnPaused.getD true))),
       (Key.sendPaused, some (.flag (g.sendPaused.getD true))),
       (Key.maxBody, some (.size (g.maxBody.getD 8000))),
       (Key.nextNonce, some (nonceVal g.nextNonce)),
       (Key.threshold, some (.threshold (g.threshold.getD 1))) ]
  ++ g.pairs.map (fun p => (Key.tokenPair ext p.1 p.2.1, some (.pair p.1 p.2.1 p.2.2)))
  ++ g.used.map (fun u => (Key.usedNonce u.1 u.2, some (.nonce u.1 u.2)))
  ++ g.messengers.map (fun m => (Key.messenger m.1, some (.messenger m.1 m.2)))

/-- `InitGenesis` on a store: panics iff the threshold is present and 0. -/
def init (ext : Ext) (st : Store) (g : Genesis) : R Store := do
  must (g.threshold ≠ some 0)
  pure (st.applyAll (initWrites ext g))

def scanMap {α} (st : Store) (p : Bytes) (f : Val → Option α) : List α :=
  (st.scan p).filterMap fun kv => f kv.2

def limOf : Val → Option (Bytes × Int) | .limit d a => some (d, a) | _ => none
def pairOf : Val → Option (Nat × Bytes × Bytes) | .pair d t l => some (d, t, l) | _ => none
def usedOf : Val → Option (Nat × Nat) | .nonce d n => some (d, n) | _ => none
def msgrOf : Val → Option (Nat × Bytes) | .messenger d a => some (d, a) | _ => none

/-- `ExportGenesis`: the four role getters panic when absent; the pending owner is not exported. -/
def exportG (st : Store) : R Genesis := do
  let owner ← getMust (getRole st Key.owner)
  let am ← getMust (getRole st Key.attesterManager)
  let pa ← getMust (getRole st Key.pauser)
  let tc ← getMust (getRole st Key.tokenController)
  pure {
    owner := owner, attesterManager := am, pauser := pa, tokenController := tc
    attesters := attestersOf st
    limits := scanMap st PerMessageBurnLimitKeyPrefix limOf
    -- DefaultGenesis() presets both flags to false; a stored value overrides it
    burnPaused := some ((getFlag st Key.burnPaused).getD false)
    sendPaused := some ((getFlag st Key.sendPaused).getD false)
    maxBody := getSize st
    nextNonce := getNextNonce st
    threshold := getThreshold st
    pairs := scanMap st TokenPairKeyPrefix pairOf
    used := scanMap st UsedNonceKeyPrefix usedOf
    messengers := scanMap st RemoteTokenMessengerKeyPrefix msgrOf }

end Genesis
end Cctp
