import Cctp.Model.Types
import Cctp.Model.Result
import Cctp.Model.Codec
import Cctp.Model.Keys
import Cctp.Model.Attest
/-
  keeper/msg_server_*.go — the 25 transaction handlers.  Guards are in source order.
  A handler reads the pre-state `st`, and returns its store writes as a log (never applied here);
  `Tx.deliver` applies them iff the handler succeeded.  No handler reads a key it wrote earlier in
  the same call, so computing from the pre-state is exact.
-/
namespace Cctp
open Gen

/-! ### typed readers -/

def getRole (st : Store) (k : Bytes) : Option Bytes :=
  match st.get k with | some (.role s) => some s | _ => none
def getFlag (st : Store) (k : Bytes) : Option Bool :=
  match st.get k with | some (.flag b) => some b | _ => none
def getSize (st : Store) : Option Nat :=
  match st.get Key.maxBody with | some (.size n) => some n | _ => none
def getThreshold (st : Store) : Option Nat :=
  match st.get Key.threshold with | some (.threshold n) => some n | _ => none
/-- the stored next-available nonce (only its `nonce` field matters to the handlers). -/
def getNextNonce (st : Store) : Option (Nat × Nat) :=
  match st.get Key.nextNonce with | some (.nonce d n) => some (d, n) | _ => none
def getAttester (st : Store) (a : Bytes) : Option Bytes :=
  match st.get (Key.attester a) with | some (.attester s) => some s | _ => none
def getLimit (st : Store) (denom : Bytes) : Option Int :=
  match st.get (Key.limit denom) with | some (.limit _ a) => some a | _ => none
def getPair (ext : Ext) (st : Store) (domain : Nat) (token : Bytes) : Option (Nat × Bytes × Bytes) :=
  match st.get (Key.tokenPair ext domain token) with | some (.pair d t l) => some (d, t, l) | _ => none
def getMessenger (st : Store) (domain : Nat) : Option (Nat × Bytes) :=
  match st.get (Key.messenger domain) with | some (.messenger d a) => some (d, a) | _ => none
def isUsed (st : Store) (domain nonce : Nat) : Bool := st.has (Key.usedNonce domain nonce)

/-- `GetAllAttesters`: the attester strings in key order. -/
def attestersOf (st : Store) : List Bytes :=
  (st.scan AttesterKeyPrefix).filterMap fun kv => match kv.2 with | .attester a => some a | _ => none

def sendPaused (st : Store) : Bool := getFlag st Key.sendPaused == some true
def burnPaused (st : Store) : Bool := getFlag st Key.burnPaused == some true

def out0 (led : Ledger) : Out := { writes := [], events := [], deps := [], ledger := led, resp := .empty }

/-! ### user flows -/

/-- `msgServer.sendMessage` (the shared tail of send / replace): pause, body size, recipient,
    serialisation; yields the MessageSent event. -/
def sendCore (st : Store) (dest : Nat) (recipient caller sender : Bytes) (nonce : Nat) (body : Bytes) :
    R Event := do
  req (¬ sendPaused st)
  reqAll (getSize st) (fun mx => ¬ body.length > mx)
  req (¬ (recipient.length = 0 ∨ isZeros recipient))
  let bz ← Message.bytes { version := MessageBodyVersion, sourceDomain := NobleDomainId, destDomain := dest,
                           nonce := nonce, sender := sender, recipient := recipient, caller := caller,
                           body := body }
  pure (Event.messageSent bz)

/-- `ReserveAndIncrementNonce`: returns the reserved nonce and the counter write. -/
def reserveNonce (st : Store) : Nat × Store.Write :=
  let n := match getNextNonce st with | some (_, n) => n | none => 0
  (n, (Key.nextNonce, some (.nonce 0 (u64 (n + 1)))))

def sendMessage (ext : Ext) (st : Store) (led : Ledger) (from_ : Bytes) (dest : Nat)
    (recipient body : Bytes) : R Out := do
  let addr ← getOr (ext.accAddr from_)
  let (n, w) := reserveNonce st
  let ev ← sendCore st dest recipient (zeros DestinationCallerLen) (pad12 addr) n body
  pure { out0 led with writes := [w], events := [ev], resp := .nonce n }

def sendMessageWithCaller (ext : Ext) (st : Store) (led : Ledger) (from_ : Bytes) (dest : Nat)
    (recipient body caller : Bytes) : R Out := do
  let addr ← getOr (ext.accAddr from_)
  req (¬ (caller.length ≠ DestinationCallerLen ∨ caller = zeros DestinationCallerLen))
  let (n, w) := reserveNonce st
  let ev ← sendCore st dest recipient caller (pad12 addr) n body
  pure { out0 led with writes := [w], events := [ev], resp := .nonce n }

/-- depositForBurn's hand-off: SendMessage when no destination caller was given, else
    SendMessageWithCaller — both in the module's own name. -/
def innerSend (ext : Ext) (cfg : Cfg) (st : Store) (led : Ledger) (dest : Nat) (recipient body caller : Bytes) :
    R Out :=
  if caller.length = 0 then sendMessage ext st led cfg.moduleStr dest recipient body
  else sendMessageWithCaller ext st led cfg.moduleStr dest recipient body caller

def depositForBurn (ext : Ext) (cfg : Cfg) (st : Store) (led : Ledger) (from_ : Bytes)
    (amount : Option Int) (dest : Nat) (mintRecipient burnToken caller : Bytes) : R Out := do
  let addr ← getOr (ext.accAddr from_)
  let a ← getOr amount
  req (0 < a)
  req (¬ mintRecipient = zeros MintRecipientLen)
  let (_, msgrAddr) ← getOr (getMessenger st dest)
  req (ext.equalFold led.mintingDenom burnToken)
  req (¬ burnPaused st)
  reqAll (getLimit st (ext.toLower burnToken)) (fun l => ¬ a > l)
  req (ext.validDenom burnToken)
  let r1 := led.transfer addr cfg.moduleAddr burnToken a
  req (r1.1 = true)
  let r2 := r1.2.burn true cfg.moduleAddr burnToken a
  req (r2.1 = true)
  let d1 := Dep.transfer addr ModuleName burnToken a true
  let d2 := Dep.burn cfg.moduleStr burnToken a true
  let led2 := r2.2
  let token := ext.keccak256 (ext.toLower burnToken)
  let body ← BurnMessage.bytes { version := MessageBodyVersion, burnToken := token,
                                 mintRecipient := mintRecipient, amount := some a,
                                 messageSender := pad12 addr }
  let inner ← innerSend ext cfg st led2 dest msgrAddr body caller
  let n := match inner.resp with | .nonce n => n | _ => 0
  let ev := Event.depositForBurn n (toHex token) a from_ mintRecipient dest msgrAddr caller
  pure { inner with events := inner.events ++ [ev], deps := [d1, d2], resp := .nonce n }

def depositForBurnWithCaller (ext : Ext) (cfg : Cfg) (st : Store) (led : Ledger) (from_ : Bytes)
    (amount : Option Int) (dest : Nat) (mintRecipient burnToken caller : Bytes) : R Out := do
  req (¬ (caller.length = 0 ∨ caller = zeros DestinationCallerLen))
  depositForBurn ext cfg st led from_ amount dest mintRecipient burnToken caller

def replaceMessage (ext : Ext) (st : Store) (led : Ledger) (from_ original attestation newBody
    newCaller : Bytes) : R Out := do
  req (¬ sendPaused st)
  let t ← getOr (getThreshold st)
  verify ext original attestation (attestersOf st) t
  let m ← Message.parse original
  let addr ← getOr (ext.accAddr from_)
  req (pad12 addr = m.sender)
  req (m.sourceDomain = NobleDomainId)
  let ev ← sendCore st m.destDomain m.recipient newCaller m.sender m.nonce newBody
  pure { out0 led with events := [ev] }

def replaceDepositForBurn (ext : Ext) (cfg : Cfg) (st : Store) (led : Ledger) (from_ original
    attestation newCaller newMintRecipient : Bytes) : R Out := do
  req (¬ burnPaused st)
  let m ← Message.parse original
  let b ← BurnMessage.parse m.body
  let addr ← getOr (ext.accAddr from_)
  req (pad12 addr = b.messageSender)
  req (¬ newMintRecipient = zeros MintRecipientLen)
  let nb ← BurnMessage.bytes { b with mintRecipient := newMintRecipient }
  let inner ← replaceMessage ext st led cfg.moduleStr original attestation nb newCaller
  let amt := b.amount.getD 0
  let ev := Event.depositForBurn m.nonce (toHex b.burnToken) amt from_ newMintRecipient m.destDomain
    m.recipient newCaller
  pure { inner with events := inner.events ++ [ev] }

/-- the destination-caller check of ReceiveMessage: all-zero, or the bech32 form of its low 20 bytes
    is the submitter's address string. -/
def checkCaller (ext : Ext) (caller from_ : Bytes) : R Unit :=
  if caller = zeros 32 then pure ()
  else do
    let s ← getOr (ext.bech32Enc (caller.drop 12))
    req (s = from_)

/-- what the mint branch of ReceiveMessage yields: events, dependency calls, ledger. -/
structure MintOut where
  events : List Event
  deps : List Dep
  ledger : Ledger

/-- the branch of ReceiveMessage taken for messages addressed to the CCTP module. -/
def mintBranch (ext : Ext) (cfg : Cfg) (st : Store) (led : Ledger) (m : Message) : R MintOut := do
  req (¬ burnPaused st)
  let b ← BurnMessage.parse m.body
  req (b.version = MessageBodyVersion)
  let (_, _, localToken) ← getOr (getPair ext st m.sourceDomain b.burnToken)
  let (_, msgrAddr) ← getOr (getMessenger st m.sourceDomain)
  req (m.sender = msgrAddr)
  let rcp ← getOr (ext.bech32Enc (b.mintRecipient.drop 12))
  let denom := ext.toLower localToken
  let amt := b.amount.getD 0
  let r := led.mint true (ext.accAddr rcp) denom amt
  req (r.1 = true)
  pure { events := [Event.mintAndWithdraw b.mintRecipient amt denom],
         deps := [Dep.mint cfg.moduleStr rcp denom amt true], ledger := r.2 }

/-- only messages addressed to the CCTP module mint. -/
def mintOrSkip (ext : Ext) (cfg : Cfg) (st : Store) (led : Ledger) (m : Message) : R MintOut :=
  if m.recipient = cfg.modulePadded then mintBranch ext cfg st led m
  else pure { events := [], deps := [], ledger := led }

def receiveMessage (ext : Ext) (cfg : Cfg) (st : Store) (led : Ledger) (from_ message attestation : Bytes) :
    R Out := do
  req (¬ sendPaused st)
  let attesters := attestersOf st
  req (attesters.length ≠ 0)
  let t ← getOr (getThreshold st)
  verify ext message attestation attesters t
  let m ← Message.parse message
  req (m.destDomain = NobleDomainId)
  checkCaller ext m.caller from_
  req (m.version = NobleMessageVersion)
  req (¬ isUsed st m.sourceDomain m.nonce)
  let w : Store.Write := (Key.usedNonce m.sourceDomain m.nonce, some (.nonce m.sourceDomain m.nonce))
  let recvEv := Event.messageReceived from_ m.sourceDomain m.nonce m.sender m.body
  let mo ← mintOrSkip ext cfg st led m
  pure { writes := [w], events := mo.events ++ [recvEv], deps := mo.deps, ledger := mo.ledger, resp := .success }

/-! ### administrative handlers -/

def adminOut (led : Ledger) (ws : List Store.Write) (ev : Event) : Out :=
  { out0 led with writes := ws, events := [ev] }

def updateOwner (ext : Ext) (st : Store) (led : Ledger) (from_ new : Bytes) : R Out := do
  let owner ← getMust (getRole st Key.owner)
  req (owner = from_)
  let _ ← getOr (ext.accAddr new)
  pure (adminOut led [(Key.pendingOwner, some (.role new))]
    ⟨.ownershipTransferStarted, [.bytes owner, .bytes new]⟩)

def acceptOwner (st : Store) (led : Ledger) (from_ : Bytes) : R Out := do
  let owner ← getMust (getRole st Key.owner)
  let pending ← getOr (getRole st Key.pendingOwner)
  req (pending = from_)
  pure (adminOut led [(Key.owner, some (.role pending)), (Key.pendingOwner, none)]
    ⟨.ownerUpdated, [.bytes owner, .bytes pending]⟩)

/-- UpdateAttesterManager / UpdatePauser / UpdateTokenController. -/
def updateRole (ext : Ext) (st : Store) (led : Ledger) (slot : Bytes) (kind : EvKind)
    (from_ new : Bytes) : R Out := do
  let owner ← getMust (getRole st Key.owner)
  req (owner = from_)
  let _ ← getOr (ext.accAddr new)
  let cur ← getMust (getRole st slot)
  pure (adminOut led [(slot, some (.role new))] ⟨kind, [.bytes cur, .bytes new]⟩)

def updateMaxMessageBodySize (st : Store) (led : Ledger) (from_ : Bytes) (size : Nat) : R Out := do
  let owner ← getMust (getRole st Key.owner)
  req (owner = from_)
  pure (adminOut led [(Key.maxBody, some (.size size))] ⟨.maxMessageBodySizeUpdated, [.nat size]⟩)

def addRemoteTokenMessenger (st : Store) (led : Ledger) (from_ : Bytes) (domain : Nat) (address : Bytes) :
    R Out := do
  let owner ← getMust (getRole st Key.owner)
  req (owner = from_)
  req (getMessenger st domain = none)
  req (address.length = 32)
  pure (adminOut led [(Key.messenger domain, some (.messenger domain address))]
    ⟨.remoteTokenMessengerAdded, [.nat domain, .bytes address]⟩)

def removeRemoteTokenMessenger (st : Store) (led : Ledger) (from_ : Bytes) (domain : Nat) : R Out := do
  let owner ← getMust (getRole st Key.owner)
  req (owner = from_)
  let (_, addr) ← getOr (getMessenger st domain)
  pure (adminOut led [(Key.messenger domain, none)] ⟨.remoteTokenMessengerRemoved, [.nat domain, .bytes addr]⟩)

def enableAttester (st : Store) (led : Ledger) (from_ attester : Bytes) : R Out := do
  let mgr ← getMust (getRole st Key.attesterManager)
  req (mgr = from_)
  req (¬ (fromHex attester).length = 0)
  req (getAttester st attester = none)
  pure (adminOut led [(Key.attester attester, some (.attester attester))] ⟨.attesterEnabled, [.bytes attester]⟩)

def disableAttester (st : Store) (led : Ledger) (from_ attester : Bytes) : R Out := do
  let mgr ← getMust (getRole st Key.attesterManager)
  req (mgr = from_)
  req (¬ (fromHex attester).length = 0)
  let _ ← getOr (getAttester st attester)
  let count := (attestersOf st).length
  req (¬ count = 1)
  let t ← getOr (getThreshold st)
  req (¬ u32 count ≤ t)
  pure (adminOut led [(Key.attester attester, none)] ⟨.attesterDisabled, [.bytes attester]⟩)

def updateSignatureThreshold (st : Store) (led : Ledger) (from_ : Bytes) (amount : Nat) : R Out := do
  let mgr ← getMust (getRole st Key.attesterManager)
  req (mgr = from_)
  req (¬ amount = 0)
  let cur := (getThreshold st).getD 0
  req (¬ amount = cur)
  req (¬ amount > u32 (attestersOf st).length)
  pure (adminOut led [(Key.threshold, some (.threshold amount))]
    ⟨.signatureThresholdUpdated, [.nat cur, .nat amount]⟩)

def setFlag (st : Store) (led : Ledger) (key : Bytes) (value : Bool) (kind : EvKind) (from_ : Bytes) :
    R Out := do
  let pauser ← getMust (getRole st Key.pauser)
  req (pauser = from_)
  pure (adminOut led [(key, some (.flag value))] ⟨kind, []⟩)

def linkTokenPair (ext : Ext) (st : Store) (led : Ledger) (from_ : Bytes) (domain : Nat)
    (token localToken : Bytes) : R Out := do
  let tc ← getMust (getRole st Key.tokenController)
  req (tc = from_)
  req (token.length = 32)
  req (getPair ext st domain token = none)
  let loc := ext.toLower localToken
  pure (adminOut led [(Key.tokenPair ext domain token, some (.pair domain token loc))]
    ⟨.tokenPairLinked, [.bytes loc, .nat domain, .bytes token]⟩)

def unlinkTokenPair (ext : Ext) (st : Store) (led : Ledger) (from_ : Bytes) (domain : Nat)
    (token : Bytes) : R Out := do
  let tc ← getMust (getRole st Key.tokenController)
  req (tc = from_)
  req (token.length = 32)
  let (d, t, loc) ← getOr (getPair ext st domain token)
  pure (adminOut led [(Key.tokenPair ext domain t, none)]
    ⟨.tokenPairUnlinked, [.bytes loc, .nat d, .bytes token]⟩)

def setMaxBurnAmountPerMessage (ext : Ext) (st : Store) (led : Ledger) (from_ localToken : Bytes)
    (amount : Option Int) : R Out := do
  let tc ← getMust (getRole st Key.tokenController)
  req (tc = from_)
  let denom := ext.toLower localToken
  let a := amount.getD 0   -- a nil Int marshals as "0"
  pure (adminOut led [(Key.limit denom, some (.limit denom a))]
    ⟨.setBurnLimitPerMessage, [.bytes denom, .int a]⟩)

/-! ### dispatch -/

def handle (ext : Ext) (cfg : Cfg) (st : Store) (led : Ledger) : Msg → R Out
  | .acceptOwner f => acceptOwner st led f
  | .addRemoteTokenMessenger f d a => addRemoteTokenMessenger st led f d a
  | .depositForBurn f a d r t => depositForBurn ext cfg st led f a d r t []
  | .depositForBurnWithCaller f a d r t c => depositForBurnWithCaller ext cfg st led f a d r t c
  | .disableAttester f a => disableAttester st led f a
  | .enableAttester f a => enableAttester st led f a
  | .linkTokenPair f d t l => linkTokenPair ext st led f d t l
  | .pauseBurning f => setFlag st led Key.burnPaused true .burningAndMintingPaused f
  | .pauseSending f => setFlag st led Key.sendPaused true .sendingAndReceivingPaused f
  | .receiveMessage f m a => receiveMessage ext cfg st led f m a
  | .removeRemoteTokenMessenger f d => removeRemoteTokenMessenger st led f d
  | .replaceDepositForBurn f o a c r => replaceDepositForBurn ext cfg st led f o a c r
  | .replaceMessage f o a b c => replaceMessage ext st led f o a b c
  | .sendMessage f d r b => sendMessage ext st led f d r b
  | .sendMessageWithCaller f d r b c => sendMessageWithCaller ext st led f d r b c
  | .unlinkTokenPair f d t _ => unlinkTokenPair ext st led f d t
  | .unpauseBurning f => setFlag st led Key.burnPaused false .burningAndMintingUnpaused f
  | .unpauseSending f => setFlag st led Key.sendPaused false .sendingAndReceivingUnpaused f
  | .updateOwner f n => updateOwner ext st led f n
  | .updateAttesterManager f n => updateRole ext st led Key.attesterManager .attesterManagerUpdated f n
  | .updateTokenController f n => updateRole ext st led Key.tokenController .tokenControllerUpdated f n
  | .updatePauser f n => updateRole ext st led Key.pauser .pauserUpdated f n
  | .updateMaxMessageBodySize f s => updateMaxMessageBodySize st led f s
  | .setMaxBurnAmountPerMessage f l a => setMaxBurnAmountPerMessage ext st led f l a
  | .updateSignatureThreshold f a => updateSignatureThreshold st led f a

end Cctp
