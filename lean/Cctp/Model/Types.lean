import Cctp.Model.Bytes
import Cctp.Model.Store
import Cctp.Model.Ledger
/-
  Transaction messages (tx.proto), typed events (events.proto), responses, handler output.
  Go `string` fields are `Bytes`; `math.Int` fields are `Option Int` (`none` = nil Int, an absent field).
-/
namespace Cctp

inductive Msg where
  | acceptOwner (from_ : Bytes)
  | addRemoteTokenMessenger (from_ : Bytes) (domain : Nat) (address : Bytes)
  | depositForBurn (from_ : Bytes) (amount : Option Int) (dest : Nat) (mintRecipient burnToken : Bytes)
  | depositForBurnWithCaller (from_ : Bytes) (amount : Option Int) (dest : Nat)
      (mintRecipient burnToken caller : Bytes)
  | disableAttester (from_ attester : Bytes)
  | enableAttester (from_ attester : Bytes)
  | linkTokenPair (from_ : Bytes) (domain : Nat) (token localToken : Bytes)
  | pauseBurning (from_ : Bytes)
  | pauseSending (from_ : Bytes)
  | receiveMessage (from_ message attestation : Bytes)
  | removeRemoteTokenMessenger (from_ : Bytes) (domain : Nat)
  | replaceDepositForBurn (from_ original attestation newCaller newMintRecipient : Bytes)
  | replaceMessage (from_ original attestation newBody newCaller : Bytes)
  | sendMessage (from_ : Bytes) (dest : Nat) (recipient body : Bytes)
  | sendMessageWithCaller (from_ : Bytes) (dest : Nat) (recipient body caller : Bytes)
  | unlinkTokenPair (from_ : Bytes) (domain : Nat) (token localToken : Bytes)
  | unpauseBurning (from_ : Bytes)
  | unpauseSending (from_ : Bytes)
  | updateOwner (from_ newOwner : Bytes)
  | updateAttesterManager (from_ new : Bytes)
  | updateTokenController (from_ new : Bytes)
  | updatePauser (from_ new : Bytes)
  | updateMaxMessageBodySize (from_ : Bytes) (size : Nat)
  | setMaxBurnAmountPerMessage (from_ localToken : Bytes) (amount : Option Int)
  | updateSignatureThreshold (from_ : Bytes) (amount : Nat)
  deriving DecidableEq, Repr, Inhabited

def Msg.from_ : Msg → Bytes
  | .acceptOwner f | .addRemoteTokenMessenger f _ _ | .depositForBurn f _ _ _ _
  | .depositForBurnWithCaller f _ _ _ _ _ | .disableAttester f _ | .enableAttester f _
  | .linkTokenPair f _ _ _ | .pauseBurning f | .pauseSending f | .receiveMessage f _ _
  | .removeRemoteTokenMessenger f _ | .replaceDepositForBurn f _ _ _ _ | .replaceMessage f _ _ _ _
  | .sendMessage f _ _ _ | .sendMessageWithCaller f _ _ _ _ | .unlinkTokenPair f _ _ _
  | .unpauseBurning f | .unpauseSending f | .updateOwner f _ | .updateAttesterManager f _
  | .updateTokenController f _ | .updatePauser f _ | .updateMaxMessageBodySize f _
  | .setMaxBurnAmountPerMessage f _ _ | .updateSignatureThreshold f _ => f

inductive EvKind where
  | attesterEnabled | attesterDisabled | signatureThresholdUpdated | ownerUpdated
  | ownershipTransferStarted | pauserUpdated | attesterManagerUpdated | tokenControllerUpdated
  | burningAndMintingPaused | burningAndMintingUnpaused | sendingAndReceivingPaused
  | sendingAndReceivingUnpaused | depositForBurn | mintAndWithdraw | tokenPairLinked
  | tokenPairUnlinked | messageSent | messageReceived | maxMessageBodySizeUpdated
  | remoteTokenMessengerAdded | remoteTokenMessengerRemoved | setBurnLimitPerMessage
  deriving DecidableEq, Repr, Inhabited

inductive Field where
  | bytes (b : Bytes)
  | nat (n : Nat)
  | int (i : Int)
  deriving DecidableEq, Repr, Inhabited

structure Event where
  kind : EvKind
  fields : List Field
  deriving DecidableEq, Repr, Inhabited

namespace Event
def messageSent (bz : Bytes) : Event := ⟨.messageSent, [.bytes bz]⟩
def messageReceived (caller : Bytes) (src nonce : Nat) (sender body : Bytes) : Event :=
  ⟨.messageReceived, [.bytes caller, .nat src, .nat nonce, .bytes sender, .bytes body]⟩
def mintAndWithdraw (rcp : Bytes) (amount : Int) (token : Bytes) : Event :=
  ⟨.mintAndWithdraw, [.bytes rcp, .int amount, .bytes token]⟩
def depositForBurn (nonce : Nat) (burnTokenHex : Bytes) (amount : Int) (depositor mintRecipient : Bytes)
    (dest : Nat) (messenger caller : Bytes) : Event :=
  ⟨.depositForBurn, [.nat nonce, .bytes burnTokenHex, .int amount, .bytes depositor, .bytes mintRecipient,
    .nat dest, .bytes messenger, .bytes caller]⟩
end Event

inductive Resp where
  | empty
  | nonce (n : Nat)
  | success
  deriving DecidableEq, Repr, Inhabited

/-- what a handler call produced when it returned without error. -/
structure Out where
  writes : List Store.Write
  events : List Event
  deps : List Dep
  ledger : Ledger
  resp : Resp
  deriving Repr, Inhabited

end Cctp
