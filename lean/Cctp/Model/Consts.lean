import Cctp.Model.Bytes
/-
  The layout constants (x/cctp/types/constants.go) and the store keys and prefixes (x/cctp/types/keys.go) the model is
  written against -- by VALUE.  Hand-maintained; on every run the extractor regenerates the tables
  Gen.constantTable / Gen.keyTable from the source and the static theorems of Props/C16Static.lean and
  Props/C19Static.lean compare them with these definitions (by name up to the case of the first letter, so that
  exporting / unexporting an identifier is not a change).  The namespace is kept as `Cctp.Gen` for the model's
  `open Gen`.
-/
namespace Cctp.Gen

def VersionIndex : Nat := 0
def SourceDomainIndex : Nat := 4
def DestinationDomainIndex : Nat := 8
def NonceIndex : Nat := 12
def SenderIndex : Nat := 20
def RecipientIndex : Nat := 52
def DestinationCallerIndex : Nat := 84
def MessageBodyIndex : Nat := 116
def BurnMsgVersionIndex : Nat := 0
def VersionLen : Nat := 4
def BurnTokenIndex : Nat := 4
def BurnTokenLen : Nat := 32
def MintRecipientIndex : Nat := 36
def MintRecipientLen : Nat := 32
def AmountIndex : Nat := 68
def AmountLen : Nat := 32
def MsgSenderIndex : Nat := 100
def MsgSenderLen : Nat := 32
def BurnMessageLen : Nat := 132
def NobleMessageVersion : Nat := 0
def MessageBodyVersion : Nat := 0
def NobleDomainId : Nat := 4
def DomainBytesLen : Nat := 4
def UsedNonceLen : Nat := 8
def NonceBytesLen : Nat := 8
def AddressBytesLen : Nat := 32
def DestinationCallerLen : Nat := 32
def SignatureLength : Nat := 65

/-- "cctp" -/
def ModuleName : Bytes := [99, 99, 116, 112]
/-- "cctp" -/
def StoreKey : Bytes := [99, 99, 116, 112]
/-- "BurningAndMintingPaused/value/" -/
def BurningAndMintingPausedKey : Bytes := [66, 117, 114, 110, 105, 110, 103, 65, 110, 100, 77, 105, 110, 116, 105, 110, 103, 80, 97, 117, 115, 101, 100, 47, 118, 97, 108, 117, 101, 47]
/-- "MaxMessageBodySize/value/" -/
def MaxMessageBodySizeKey : Bytes := [77, 97, 120, 77, 101, 115, 115, 97, 103, 101, 66, 111, 100, 121, 83, 105, 122, 101, 47, 118, 97, 108, 117, 101, 47]
/-- "NextAvailableNonce/value/" -/
def NextAvailableNonceKey : Bytes := [78, 101, 120, 116, 65, 118, 97, 105, 108, 97, 98, 108, 101, 78, 111, 110, 99, 101, 47, 118, 97, 108, 117, 101, 47]
/-- "SendingAndReceivingMessagesPaused/value/" -/
def SendingAndReceivingMessagesPausedKey : Bytes := [83, 101, 110, 100, 105, 110, 103, 65, 110, 100, 82, 101, 99, 101, 105, 118, 105, 110, 103, 77, 101, 115, 115, 97, 103, 101, 115, 80, 97, 117, 115, 101, 100, 47, 118, 97, 108, 117, 101, 47]
/-- "SignatureThreshold/value/" -/
def SignatureThresholdKey : Bytes := [83, 105, 103, 110, 97, 116, 117, 114, 101, 84, 104, 114, 101, 115, 104, 111, 108, 100, 47, 118, 97, 108, 117, 101, 47]
/-- "Attester/value/" -/
def AttesterKeyPrefix : Bytes := [65, 116, 116, 101, 115, 116, 101, 114, 47, 118, 97, 108, 117, 101, 47]
/-- "PerMessageBurnLimit/value/" -/
def PerMessageBurnLimitKeyPrefix : Bytes := [80, 101, 114, 77, 101, 115, 115, 97, 103, 101, 66, 117, 114, 110, 76, 105, 109, 105, 116, 47, 118, 97, 108, 117, 101, 47]
/-- "RemoteTokenMessenger/value/" -/
def RemoteTokenMessengerKeyPrefix : Bytes := [82, 101, 109, 111, 116, 101, 84, 111, 107, 101, 110, 77, 101, 115, 115, 101, 110, 103, 101, 114, 47, 118, 97, 108, 117, 101, 47]
/-- "TokenPair/value/" -/
def TokenPairKeyPrefix : Bytes := [84, 111, 107, 101, 110, 80, 97, 105, 114, 47, 118, 97, 108, 117, 101, 47]
/-- "UsedNonce/value/" -/
def UsedNonceKeyPrefix : Bytes := [85, 115, 101, 100, 78, 111, 110, 99, 101, 47, 118, 97, 108, 117, 101, 47]
/-- "owner" -/
def OwnerKey : Bytes := [111, 119, 110, 101, 114]
/-- "pending-owner" -/
def PendingOwnerKey : Bytes := [112, 101, 110, 100, 105, 110, 103, 45, 111, 119, 110, 101, 114]
/-- "attester-manager" -/
def AttesterManagerKey : Bytes := [97, 116, 116, 101, 115, 116, 101, 114, 45, 109, 97, 110, 97, 103, 101, 114]
/-- "pauser" -/
def PauserKey : Bytes := [112, 97, 117, 115, 101, 114]
/-- "token-controller" -/
def TokenControllerKey : Bytes := [116, 111, 107, 101, 110, 45, 99, 111, 110, 116, 114, 111, 108, 108, 101, 114]
end Cctp.Gen
