import Cctp.Model.Bytes
import Cctp.Model.Result
import Cctp.Model.Ext
/- client/cli/util.go: parseAddress / leftPadBytes. -/
namespace Cctp

def parseAddress (ext : Ext) (s : Bytes) : R Bytes :=
  let bz := match s with
    | 48 :: 120 :: _ => fromHex s
    | _ => ext.base58 s
  getOr (leftPad32 bz)

end Cctp
