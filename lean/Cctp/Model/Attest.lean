import Cctp.Model.Bytes
import Cctp.Model.Result
import Cctp.Model.Ext
import Cctp.Model.Consts
/-
  keeper/attestation.go: VerifyAttestationSignatures.  The length check is done in 64 bits (exact for
  every length a Go slice can have); the per-signature offsets are uint32 arithmetic as in the code.
-/
namespace Cctp
open Gen

def u32 (n : Nat) : Nat := n % 2 ^ 32
def u64 (n : Nat) : Nat := n % 2 ^ 64

/-- legacy v ∈ {27,28} is rewritten to {0,1} (in place, on the last byte of the 65-byte chunk). -/
def normV (sig : Bytes) : Bytes :=
  match sig.getLast? with
  | some v => if v = 27 ∨ v = 28 then sig.dropLast ++ [v - 27] else sig
  | none => sig

/-- `crypto.PubkeyToAddress`: keccak(pub[1:])[12:]. -/
def addrOf (ext : Ext) (pub : Bytes) : Bytes := (ext.keccak256 (pub.drop 1)).drop 12

/-- the recovered key is enabled iff some stored attester string decodes (FromHex) to it. -/
def isAttester (attesters : List Bytes) (key : Bytes) : Bool :=
  attesters.any fun a => fromHex a == key

/-- loop body for signatures `i, i+1, …, t-1`; `prev` is the previous signer's address. -/
def verifyLoop (ext : Ext) (digest att : Bytes) (attesters : List Bytes)
    (t : Nat) : (fuel : Nat) → (i : Nat) → (prev : Option Bytes) → R Unit
  | 0, _, _ => pure ()
  | fuel+1, i, prev => do
    let lo := u32 (i * SignatureLength)
    let hi := u32 (lo + SignatureLength)
    -- attestation[lo:hi] panics unless lo ≤ hi ≤ cap; cap = len for the slices the callers pass
    must (lo ≤ hi ∧ hi ≤ att.length)
    let sig := normV (slice att lo hi)
    let key ← getOr (ext.ecrecover digest sig)
    reqAll prev (fun p => blt p (addrOf ext key) = true)
    req (isAttester attesters key)
    verifyLoop ext digest att attesters t fuel (i+1) (some (addrOf ext key))

/-- `VerifyAttestationSignatures(message, attestation, publicKeys, threshold)`. -/
def verify (ext : Ext) (msg att : Bytes) (attesters : List Bytes) (t : Nat) : R Unit := do
  req (att.length = SignatureLength * t)
  req (t ≠ 0)
  verifyLoop ext (ext.keccak256 msg) att attesters t t 0 none

end Cctp
