import Cctp.Model.Bytes
import Cctp.Model.Ext
import Cctp.Model.Consts
/-
  types/keys.go: full store keys (prefix-store prefix ‖ item key).
-/
namespace Cctp
open Gen

def slash : Bytes := [47]

namespace Key
def owner : Bytes := OwnerKey
def pendingOwner : Bytes := PendingOwnerKey
def attesterManager : Bytes := AttesterManagerKey
def pauser : Bytes := PauserKey
def tokenController : Bytes := TokenControllerKey

/- scalars live at K‖K: a prefix store with prefix K and item key K. -/
def burnPaused : Bytes := BurningAndMintingPausedKey ++ BurningAndMintingPausedKey
def sendPaused : Bytes := SendingAndReceivingMessagesPausedKey ++ SendingAndReceivingMessagesPausedKey
def maxBody : Bytes := MaxMessageBodySizeKey ++ MaxMessageBodySizeKey
def nextNonce : Bytes := NextAvailableNonceKey ++ NextAvailableNonceKey
def threshold : Bytes := SignatureThresholdKey ++ SignatureThresholdKey

def attester (a : Bytes) : Bytes := AttesterKeyPrefix ++ a ++ slash
def limit (denom : Bytes) : Bytes := PerMessageBurnLimitKeyPrefix ++ denom ++ slash
def usedNonce (domain nonce : Nat) : Bytes :=
  UsedNonceKeyPrefix ++ be DomainBytesLen domain ++ be UsedNonceLen nonce ++ slash
def tokenPair (ext : Ext) (domain : Nat) (token : Bytes) : Bytes :=
  TokenPairKeyPrefix ++ ext.keccak256 (be DomainBytesLen domain ++ token) ++ slash
def messenger (domain : Nat) : Bytes := RemoteTokenMessengerKeyPrefix ++ be DomainBytesLen domain ++ slash
end Key

end Cctp
