import Cctp.Model.Bytes
/-
  External pure functions the module calls.  They are a *parameter* of the model:
  every theorem quantifies over `ext : Ext` (or states a named hypothesis about it).
  The executable instance used by the driver is in Cctp/Model/Native*.lean + Main.lean.
-/
namespace Cctp

structure Ext where
  /-- `crypto.Keccak256` -/
  keccak256 : Bytes → Bytes
  /-- `crypto.Ecrecover(digest, sig65)` → 65-byte uncompressed public key -/
  ecrecover : Bytes → Bytes → Option Bytes
  /-- `sdk.AccAddressFromBech32` on the string's bytes (with the configured account prefix) -/
  accAddr : Bytes → Option Bytes
  /-- `bech32.ConvertAndEncode(accountPrefix, data)` / `sdk.Bech32ifyAddressBytes` -/
  bech32Enc : Bytes → Option Bytes
  /-- `strings.ToLower` -/
  toLower : Bytes → Bytes
  /-- `strings.EqualFold` -/
  equalFold : Bytes → Bytes → Bool
  /-- `sdk.ValidateDenom(d) == nil` -/
  validDenom : Bytes → Bool
  /-- `base58.Decode` -/
  base58 : Bytes → Bytes

/-- Static configuration of the chain the module runs in. -/
structure Cfg where
  /-- `types.ModuleAddress` (20 bytes) -/
  moduleAddr : Bytes
  /-- `types.ModuleAddress.String()` -/
  moduleStr : Bytes
  deriving Repr

/-- `types.PaddedModuleAddress` -/
def Cfg.modulePadded (c : Cfg) : Bytes := pad12 c.moduleAddr

end Cctp
