import Cctp.Model.Bytes
/-
  The module's KV store: an association list sorted by full key (lexicographic), unique keys.
  Iteration order is observable (list queries, export, Paginate), so it is part of the model.
-/
namespace Cctp

/-- Stored values, decoded.  Protobuf encoding of these is trusted, not modelled. -/
inductive Val where
  | role (s : Bytes)                                   -- raw string bytes at a role key
  | attester (a : Bytes)                               -- Attester{attester}
  | limit (denom : Bytes) (amount : Int)               -- PerMessageBurnLimit{denom, amount}
  | flag (paused : Bool)                               -- both pause flags
  | size (n : Nat)                                     -- MaxMessageBodySize{amount}
  | nonce (domain : Nat) (n : Nat)                     -- Nonce{source_domain, nonce}
  | threshold (n : Nat)                                -- SignatureThreshold{amount}
  | pair (domain : Nat) (token : Bytes) (loc : Bytes)  -- TokenPair
  | messenger (domain : Nat) (addr : Bytes)            -- RemoteTokenMessenger
  deriving DecidableEq, Repr, Inhabited

abbrev Store := List (Bytes × Val)

namespace Store

def get : Store → Bytes → Option Val
  | [], _ => none
  | (k', v) :: rest, k => if k = k' then some v else get rest k

def set : Store → Bytes → Val → Store
  | [], k, v => [(k, v)]
  | (k', v') :: rest, k, v =>
    if k = k' then (k, v) :: rest
    else if blt k k' then (k, v) :: (k', v') :: rest
    else (k', v') :: set rest k v

def del : Store → Bytes → Store
  | [], _ => []
  | (k', v') :: rest, k => if k = k' then rest else (k', v') :: del rest k

def has (s : Store) (k : Bytes) : Bool := (s.get k).isSome

/-- entries whose key starts with `p`, in key order (a prefix-store iterator). -/
def scan (s : Store) (p : Bytes) : List (Bytes × Val) := s.filter fun kv => isPrefixOf p kv.1

/-- a write: `some v` = Set, `none` = Delete. -/
abbrev Write := Bytes × Option Val

def apply (s : Store) (w : Write) : Store :=
  match w.2 with
  | some v => s.set w.1 v
  | none => s.del w.1

def applyAll (s : Store) (ws : List Write) : Store := ws.foldl apply s

end Store
end Cctp
