import Cctp.Model.Bytes
import Cctp.Model.Result
import Cctp.Model.Consts
/-
  types/message.go and types/burn_message.go, written against the *generated* offset constants
  (Cctp.Gen.*), so that a change to constants.go changes this codec.  The literal-offset CCTP
  reference codec lives in Cctp/Spec/Layout.lean and the two are proved equal (C16).
-/
namespace Cctp
open Gen

structure Message where
  version : Nat
  sourceDomain : Nat
  destDomain : Nat
  nonce : Nat
  sender : Bytes
  recipient : Bytes
  caller : Bytes
  body : Bytes
  deriving DecidableEq, Repr, Inhabited

/-- `(*Message).Parse` -/
def Message.parse (bz : Bytes) : R Message := do
  req (¬ bz.length < MessageBodyIndex)
  pure {
    version := fromBE (slice bz VersionIndex SourceDomainIndex)
    sourceDomain := fromBE (slice bz SourceDomainIndex DestinationDomainIndex)
    destDomain := fromBE (slice bz DestinationDomainIndex NonceIndex)
    nonce := fromBE (slice bz NonceIndex SenderIndex)
    sender := slice bz SenderIndex RecipientIndex
    recipient := slice bz RecipientIndex DestinationCallerIndex
    caller := slice bz DestinationCallerIndex MessageBodyIndex
    body := bz.drop MessageBodyIndex }

/-- `copy(result[i:j], src)` into a zeroed region of width `j-i`. -/
def field (w : Nat) (src : Bytes) : Bytes :=
  let s := src.take w
  s ++ zeros (w - s.length)

/-- `(*Message).Bytes` -/
def Message.bytes (m : Message) : R Bytes := do
  req (m.sender.length = AddressBytesLen)
  req (m.recipient.length = AddressBytesLen)
  req (m.caller.length = AddressBytesLen)
  pure (field (SourceDomainIndex - VersionIndex) (be VersionLen m.version)
     ++ field (DestinationDomainIndex - SourceDomainIndex) (be DomainBytesLen m.sourceDomain)
     ++ field (NonceIndex - DestinationDomainIndex) (be DomainBytesLen m.destDomain)
     ++ field (SenderIndex - NonceIndex) (be NonceBytesLen m.nonce)
     ++ field (RecipientIndex - SenderIndex) m.sender
     ++ field (DestinationCallerIndex - RecipientIndex) m.recipient
     ++ field (MessageBodyIndex - DestinationCallerIndex) m.caller
     ++ m.body)

structure BurnMessage where
  version : Nat
  burnToken : Bytes
  mintRecipient : Bytes
  /-- `math.Int`; `none` is Go's nil Int (an absent protobuf field). -/
  amount : Option Int
  messageSender : Bytes
  deriving DecidableEq, Repr, Inhabited

/-- `(*BurnMessage).Parse` -/
def BurnMessage.parse (bz : Bytes) : R BurnMessage := do
  req (bz.length = BurnMessageLen)
  pure {
    version := fromBE (slice bz BurnMsgVersionIndex BurnTokenIndex)
    burnToken := slice bz BurnTokenIndex MintRecipientIndex
    mintRecipient := slice bz MintRecipientIndex AmountIndex
    amount := some (Int.ofNat (fromBE (slice bz AmountIndex MsgSenderIndex)))
    messageSender := slice bz MsgSenderIndex BurnMessageLen }

/-- `(*BurnMessage).Bytes`: three length checks (→ err); a nil amount dereferences nil and an
    amount of more than 256 bits overflows `FillBytes` (→ panic); a negative amount encodes its
    absolute value. -/
def BurnMessage.bytes (m : BurnMessage) : R Bytes := do
  req (m.burnToken.length = BurnTokenLen)
  req (m.mintRecipient.length = MintRecipientLen)
  req (m.messageSender.length = AddressBytesLen)
  let a ← getMust m.amount
  must (a.natAbs < 256 ^ AmountLen)
  pure (field (BurnTokenIndex - BurnMsgVersionIndex) (be VersionLen m.version)
     ++ field (MintRecipientIndex - BurnTokenIndex) m.burnToken
     ++ field (AmountIndex - MintRecipientIndex) m.mintRecipient
     ++ field (MsgSenderIndex - AmountIndex) (be AmountLen a.natAbs)
     ++ field (BurnMessageLen - MsgSenderIndex) m.messageSender)

end Cctp
