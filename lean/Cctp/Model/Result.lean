/-
  Outcome classes of a Go call and the guard-chain idiom used by every handler.
-/
namespace Cctp

/-- how a Go call can fail: it returns an error, or it panics. -/
inductive Fail where
  | err
  | panic
  deriving DecidableEq, Repr, Inhabited

abbrev R := Except Fail

/-- guard: the Go code returns an error unless `c`. -/
def req (c : Prop) [Decidable c] : R Unit := if c then pure () else throw .err
/-- guard: the Go code panics unless `c` (nil dereference, slice out of range, explicit panic). -/
def must (c : Prop) [Decidable c] : R Unit := if c then pure () else throw .panic
/-- lookup that returns an error when absent. -/
def getOr {α} (o : Option α) : R α := match o with | some a => pure a | none => throw .err
/-- lookup that panics when absent. -/
def getMust {α} (o : Option α) : R α := match o with | some a => pure a | none => throw .panic

/-- guard on an optional configuration value: absent means "no constraint". -/
def reqAll {α} (o : Option α) (p : α → Prop) [DecidablePred p] : R Unit :=
  match o with | some a => req (p a) | none => pure ()

end Cctp
