import Cctp.Model.Tx
/-
  Transactions with several messages (baseapp.runTx / runMsgs).  A transaction is a list of messages; they run in
  order on ONE branch of the state, each seeing the writes of the earlier ones; the branch is committed iff every
  message succeeded, and the first failure aborts the transaction and discards everything the earlier messages did
  (store writes, ledger changes, events).  `Tx.lean`'s `deliver` is the one-message case.

  Two formulations are given and proved equal (Lemmas/Batch.lean):
    * `deliverTx`  — the specification: run the messages, keep the result iff all succeeded;
    * `Chain.step` — the incremental machine the line-protocol driver executes (`begin`, messages, `end`), in which
      messages that follow a failed one still run on the doomed branch (their observations are compared with the
      implementation's, like simulations), and `end` commits or restores.
-/
namespace Cctp

/-- one transaction: messages with the fault plans of their dependency calls. -/
abbrev Txn := List (List Bool × Msg)

/-- between transactions no fault plan is pending. -/
def World.settle (w : World) : World := { w with ledger := { w.ledger with faults := [] } }

/-- run the messages of one transaction on a branch; `none` as soon as one fails. -/
def runMsgs (ext : Ext) (cfg : Cfg) (w : World) : Txn → Option (World × List TxResult)
  | [] => some (w, [])
  | (f, m) :: rest =>
    let (w1, r) := deliver ext cfg w f m
    match r.fail with
    | none =>
      match runMsgs ext cfg w1 rest with
      | some (w2, rs) => some (w2, r :: rs)
      | none => none
    | some _ => none

/-- deliver one multi-message transaction: all or nothing. -/
def deliverTx (ext : Ext) (cfg : Cfg) (w : World) (tx : Txn) : World × Option (List TxResult) :=
  match runMsgs ext cfg w tx with
  | some (w', rs) => (w', some rs)
  | none => (w.settle, none)

/-- a block / a chain history: a list of transactions. -/
def runTxs (ext : Ext) (cfg : Cfg) (w : World) : List Txn → World × List (Option (List TxResult))
  | [] => (w, [])
  | tx :: rest =>
    let (w1, r) := deliverTx ext cfg w tx
    let (w2, rs) := runTxs ext cfg w1 rest
    (w2, r :: rs)

/-- the messages of the transactions that commit, in order: the single-message history the chain is equivalent to. -/
def committed (ext : Ext) (cfg : Cfg) (w : World) : List Txn → History
  | [] => []
  | tx :: rest =>
    match runMsgs ext cfg w tx with
    | some (w', _) => tx ++ committed ext cfg w' rest
    | none => committed ext cfg w.settle rest

/-- the results of the messages of the committed transactions, in order. -/
def txResults (ext : Ext) (cfg : Cfg) (w : World) (txs : List Txn) : List TxResult :=
  ((runTxs ext cfg w txs).2.filterMap id).flatten

/-! ### the incremental machine run by the driver -/

structure Pending where
  /-- the state to return to if the transaction is discarded -/
  base : World
  failed : Bool
  deriving Repr, Inhabited

structure Chain where
  /-- the state messages run on: the chain state, or the branch of the open transaction -/
  world : World
  pending : Option Pending := none
  deriving Repr, Inhabited

inductive BOp where
  | begin_
  | msg (faults : List Bool) (m : Msg)
  | end_
  deriving Repr

inductive BObs where
  | opened | already
  | result (r : TxResult)
  | committed | discarded | noTx
  deriving Repr

def Chain.step (ext : Ext) (cfg : Cfg) (c : Chain) : BOp → Chain × BObs
  | .begin_ =>
    match c.pending with
    | some _ => (c, .already)
    | none => ({ c with pending := some { base := c.world, failed := false } }, .opened)
  | .msg f m =>
    let (w, r) := deliver ext cfg c.world f m
    match c.pending with
    | none => ({ c with world := w }, .result r)
    | some p => ({ world := w, pending := some { p with failed := p.failed || r.fail.isSome } }, .result r)
  | .end_ =>
    match c.pending with
    | none => (c, .noTx)
    | some p =>
      if p.failed then ({ world := p.base.settle, pending := none }, .discarded)
      else ({ world := c.world, pending := none }, .committed)

def Chain.steps (ext : Ext) (cfg : Cfg) (c : Chain) : List BOp → Chain
  | [] => c
  | o :: rest => Chain.steps ext cfg (c.step ext cfg o).1 rest

/-- the op sequence of one transaction. -/
def Txn.ops (tx : Txn) : List BOp := .begin_ :: (tx.map fun fm => BOp.msg fm.1 fm.2) ++ [.end_]

end Cctp
