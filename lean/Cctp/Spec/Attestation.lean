import Cctp.Model.Attest
/-
  What a valid attestation IS (declaratively), independent of how the verifier loops.
-/
namespace Cctp.Spec
open Cctp

/-- the i-th 65-byte signature of an attestation. -/
def chunk (att : Bytes) (i : Nat) : Bytes := slice att (65 * i) (65 * i + 65)

def chunks (att : Bytes) (i n : Nat) : List Bytes := (List.range n).map fun j => chunk att (i + j)

/-- signatures `cs`, in order, each recover (over `digest`, after 27/28 normalisation) to an enabled
    attester key whose Ethereum-style address is strictly greater than its predecessor's. -/
def validChunks (ext : Ext) (digest : Bytes) (attesters : List Bytes) : Option Bytes → List Bytes → Prop
  | _, [] => True
  | prev, c :: cs =>
    ∃ k, ext.ecrecover digest (normV c) = some k ∧ (∀ p, prev = some p → blt p (addrOf ext k) = true) ∧
      isAttester attesters k = true ∧ validChunks ext digest attesters (some (addrOf ext k)) cs

/-- exactly threshold-many 65-byte recoverable signatures over keccak256(message), each by a different
    enabled attester, in strictly increasing order of signer address. -/
structure ValidAttestation (ext : Ext) (msg att : Bytes) (attesters : List Bytes) (t : Nat) : Prop where
  threshold_pos : t ≠ 0
  length : att.length = 65 * t
  signatures : validChunks ext (ext.keccak256 msg) attesters none (chunks att 0 t)

/-- the keys the signatures recover to. -/
def recoveredKeys (ext : Ext) (digest : Bytes) (cs : List Bytes) : List Bytes :=
  cs.filterMap fun c => ext.ecrecover digest (normV c)

end Cctp.Spec
