import Cctp.Model.Codec
/-
  The CCTP wire formats written from the protocol's technical reference with LITERAL offsets,
  independently of /repo's constants.go.  Remote chains decode these bytes with their own
  implementations, so this — not the module's own constants — is the yardstick for C16.

  Message header (116 bytes), all integers big-endian:
    version u32 @0 · sourceDomain u32 @4 · destinationDomain u32 @8 · nonce u64 @12 ·
    sender bytes32 @20 · recipient bytes32 @52 · destinationCaller bytes32 @84 · body @116…
  BurnMessage (132 bytes):
    version u32 @0 · burnToken bytes32 @4 · mintRecipient bytes32 @36 · amount u256 @68 ·
    messageSender bytes32 @100
-/
namespace Cctp.Spec

def encodeMessage (m : Message) : Bytes :=
  be 4 m.version ++ (be 4 m.sourceDomain ++ (be 4 m.destDomain ++ (be 8 m.nonce ++
    (m.sender ++ (m.recipient ++ (m.caller ++ m.body))))))

def decodeMessage (bz : Bytes) : Option Message :=
  if bz.length < 116 then none else some
    { version := fromBE (bz.take 4)
      sourceDomain := fromBE ((bz.drop 4).take 4)
      destDomain := fromBE ((bz.drop 8).take 4)
      nonce := fromBE ((bz.drop 12).take 8)
      sender := (bz.drop 20).take 32
      recipient := (bz.drop 52).take 32
      caller := (bz.drop 84).take 32
      body := bz.drop 116 }

structure WFMessage (m : Message) : Prop where
  version : m.version < 2 ^ 32
  source : m.sourceDomain < 2 ^ 32
  dest : m.destDomain < 2 ^ 32
  nonce : m.nonce < 2 ^ 64
  sender : m.sender.length = 32
  recipient : m.recipient.length = 32
  caller : m.caller.length = 32

/-- burn body with the amount as a natural number below 2^256. -/
structure Burn where
  version : Nat
  burnToken : Bytes
  mintRecipient : Bytes
  amount : Nat
  messageSender : Bytes
  deriving DecidableEq, Repr

def encodeBurn (b : Burn) : Bytes :=
  be 4 b.version ++ (b.burnToken ++ (b.mintRecipient ++ (be 32 b.amount ++ b.messageSender)))

def decodeBurn (bz : Bytes) : Option Burn :=
  if bz.length ≠ 132 then none else some
    { version := fromBE (bz.take 4)
      burnToken := (bz.drop 4).take 32
      mintRecipient := (bz.drop 36).take 32
      amount := fromBE ((bz.drop 68).take 32)
      messageSender := (bz.drop 100).take 32 }

structure WFBurn (b : Burn) : Prop where
  version : b.version < 2 ^ 32
  token : b.burnToken.length = 32
  recipient : b.mintRecipient.length = 32
  amount : b.amount < 2 ^ 256
  sender : b.messageSender.length = 32

/-- the model's BurnMessage seen as a spec-level burn body (amount as the encoded magnitude). -/
def ofModel (b : BurnMessage) : Burn :=
  { version := b.version, burnToken := b.burnToken, mintRecipient := b.mintRecipient,
    amount := (b.amount.getD 0).natAbs, messageSender := b.messageSender }

def toModel (b : Burn) : BurnMessage :=
  { version := b.version, burnToken := b.burnToken, mintRecipient := b.mintRecipient,
    amount := some (Int.ofNat b.amount), messageSender := b.messageSender }

end Cctp.Spec
