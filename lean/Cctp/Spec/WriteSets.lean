import Cctp.Model.Types
import Cctp.Model.Codec
import Cctp.Model.Keys
/-
  The documented write set of each transaction type: the store keys it may write or delete,
  for the key it names.  (C15; also evaluated by the driver for the monitor on the implementation.)
-/
namespace Cctp.Spec
open Cctp Gen

def documented (ext : Ext) : Msg → List Bytes
  | .receiveMessage _ message _ =>
    match Message.parse message with
    | .ok m => [Key.usedNonce m.sourceDomain m.nonce]      -- the one used-nonce entry
    | .error _ => []
  | .sendMessage .. | .sendMessageWithCaller .. | .depositForBurn .. | .depositForBurnWithCaller .. =>
    [Key.nextNonce]                                          -- the next-nonce counter
  | .replaceMessage .. | .replaceDepositForBurn .. => []     -- nothing
  | .acceptOwner _ => [Key.owner, Key.pendingOwner]
  | .updateOwner .. => [Key.pendingOwner]
  | .updateAttesterManager .. => [Key.attesterManager]
  | .updateTokenController .. => [Key.tokenController]
  | .updatePauser .. => [Key.pauser]
  | .updateMaxMessageBodySize .. => [Key.maxBody]
  | .addRemoteTokenMessenger _ d _ | .removeRemoteTokenMessenger _ d => [Key.messenger d]
  | .enableAttester _ a | .disableAttester _ a => [Key.attester a]
  | .updateSignatureThreshold .. => [Key.threshold]
  | .pauseBurning _ | .unpauseBurning _ => [Key.burnPaused]
  | .pauseSending _ | .unpauseSending _ => [Key.sendPaused]
  | .linkTokenPair _ d t _ | .unlinkTokenPair _ d t _ => [Key.tokenPair ext d t]
  | .setMaxBurnAmountPerMessage _ l _ => [Key.limit (ext.toLower l)]

end Cctp.Spec
