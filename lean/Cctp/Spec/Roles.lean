import Cctp.Model.Types
import Cctp.Model.Ext
/-
  The documented role lifecycle as a small automaton over the five role slots.
-/
namespace Cctp.Spec

structure Roles where
  owner : Option Bytes
  pending : Option Bytes
  attesterManager : Option Bytes
  pauser : Option Bytes
  tokenController : Option Bytes
  deriving DecidableEq, Repr

/-- one transaction's effect on the roles, as documented: ownership moves in two steps; the other three
    roles change only through the owner's update to a syntactically valid address; nothing else touches a role. -/
def roleStep (ext : Ext) (r : Roles) : Msg → Roles
  | .updateOwner f n =>
    if r.owner = some f ∧ (ext.accAddr n).isSome then { r with pending := some n } else r
  | .acceptOwner f =>
    if r.owner.isSome ∧ r.pending = some f then { r with owner := some f, pending := none } else r
  | .updateAttesterManager f n =>
    if r.owner = some f ∧ (ext.accAddr n).isSome ∧ r.attesterManager.isSome then { r with attesterManager := some n } else r
  | .updatePauser f n =>
    if r.owner = some f ∧ (ext.accAddr n).isSome ∧ r.pauser.isSome then { r with pauser := some n } else r
  | .updateTokenController f n =>
    if r.owner = some f ∧ (ext.accAddr n).isSome ∧ r.tokenController.isSome then { r with tokenController := some n } else r
  | _ => r

end Cctp.Spec
