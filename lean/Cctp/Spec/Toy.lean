import Cctp.Model.Tx
import Cctp.Model.Genesis
import Cctp.Spec.Layout
/-
  A small concrete world in which every user flow succeeds: used by the non-vacuity examples next to the property
  theorems (the hypotheses of a theorem that no state satisfies would make it mean nothing).  "Recovery" returns the
  first two signature bytes, bech32 is the identity, the hash pads / truncates to 32 bytes.
-/
namespace Cctp.Toy
open Cctp Cctp.Spec Gen

def ext : Ext :=
  ⟨fun b => (b ++ zeros 32).take 32, fun _ sig => some (sig.take 2), fun b => some b, fun b => some b, id,
   fun a b => a == b, fun _ => true, id⟩
def cfg : Cfg := ⟨List.replicate 20 7, List.replicate 20 7⟩
def alice : Bytes := List.replicate 20 1
def bob : Bytes := List.replicate 20 2
def denom : Bytes := [117]
def led : Ledger := ⟨denom, [((alice, denom), 1000)], [(denom, 1000)], []⟩
def remoteToken : Bytes := List.replicate 32 6
def messenger0 : Bytes := List.replicate 32 5

/-- owner alice, one attester (hex "0101"), threshold 1, nothing paused, domain 0 configured, a limit of 100. -/
def genesis : Genesis where
  owner := alice
  attesterManager := alice
  pauser := alice
  tokenController := alice
  attesters := [[48, 49, 48, 49]]
  limits := [(denom, 100)]
  burnPaused := some false
  sendPaused := some false
  maxBody := some 8000
  nextNonce := some (0, 7)
  threshold := some 1
  pairs := [(0, remoteToken, denom)]
  used := []
  messengers := [(0, messenger0)]

def st : Store := Store.applyAll [] (Genesis.initWrites ext genesis)
def world : World := ⟨st, led⟩

def isOk {α} (r : R α) : Bool := match r with | .ok _ => true | .error _ => false
theorem isOk_iff {α} (r : R α) : isOk r = true ↔ ∃ o, r = .ok o := by cases r <;> simp [isOk]

/-- an outbound user message from alice (as attested later for a replacement). -/
def sentByAlice : Bytes := encodeMessage ⟨0, 4, 0, 3, pad12 alice, List.replicate 32 3, zeros 32, [1, 2]⟩
/-- an inbound burn message for the module: 40 units of the linked token for bob. -/
def inboundBurn : Bytes :=
  encodeMessage ⟨0, 0, 4, 8, messenger0, cfg.modulePadded, zeros 32,
    encodeBurn ⟨0, remoteToken, zeros 12 ++ bob, 40, List.replicate 32 9⟩⟩
def sig1 : Bytes := List.replicate 65 1

def deposit : Msg := .depositForBurn alice (some 5) 0 (List.replicate 32 9) denom
def send : Msg := .sendMessage alice 0 (List.replicate 32 3) [1, 2, 3]
def receive : Msg := .receiveMessage bob inboundBurn sig1
def replace : Msg := .replaceMessage alice sentByAlice sig1 [9] (zeros 32)

end Cctp.Toy
