import Cctp
/-
  Line-protocol driver for the model (one op per input line, one observation per output line).
  Built as a core-only `lean_exe` from the SAME definitions the theorems are about.
  Protocol: see /verif/DESIGN.md §5.2 / Appendix B and /verif/harness/proto.go.
-/
open Cctp

/-! ### parsing helpers -/

def hexNib (c : Char) : Option UInt8 :=
  let n := c.toNat
  if 48 ≤ n ∧ n ≤ 57 then some (UInt8.ofNat (n - 48))
  else if 97 ≤ n ∧ n ≤ 102 then some (UInt8.ofNat (n - 87))
  else none

def unhexAux : List Char → Option Bytes
  | a :: b :: rest => do
    let x ← hexNib a
    let y ← hexNib b
    let r ← unhexAux rest
    pure ((x * 16 + y) :: r)
  | [] => some []
  | _ => none

def unhex (s : String) : Bytes := (unhexAux s.toList).getD []

def hexStr (b : Bytes) : String := String.ofList ((toHex b).map fun c => Char.ofNat c.toNat)

abbrev KV := List (String × String)

def parseKV (parts : List String) : KV :=
  parts.filterMap fun p =>
    match p.splitOn "=" with
    | [k, v] => some (k, v)
    | [k] => some (k, "")
    | _ => none

def KV.get (kv : KV) (k : String) : String := (kv.lookup k).getD ""
def KV.bytes (kv : KV) (k : String) : Bytes := unhex (kv.get k)
def KV.nat (kv : KV) (k : String) : Nat := (kv.get k).toNat?.getD 0
def KV.optInt (kv : KV) (k : String) : Option Int :=
  let s := kv.get k
  if s == "-" || s == "" then none else s.toInt?
def KV.optNat (kv : KV) (k : String) : Option Nat :=
  let s := kv.get k
  if s == "-" || s == "" then none else s.toNat?
def KV.optBool (kv : KV) (k : String) : Option Bool :=
  match kv.get k with | "0" => some false | "1" => some true | _ => none
def KV.bool (kv : KV) (k : String) : Bool := kv.get k == "1"

/-- lists: "-" = empty list, otherwise comma-separated items -/
def listItems (s : String) : List String := if s == "-" then [] else s.splitOn ","

def KV.bytesList (kv : KV) (k : String) : List Bytes := (listItems (kv.get k)).map unhex

/-! ### printing -/

def showInt (i : Int) : String := toString i

def showVal : Val → String
  | .role s => s!"role:{hexStr s}"
  | .attester a => s!"att:{hexStr a}"
  | .limit d a => s!"limit:{hexStr d}:{showInt a}"
  | .flag b => s!"flag:{if b then 1 else 0}"
  | .size n => s!"size:{n}"
  | .nonce d n => s!"nonce:{d}:{n}"
  | .threshold n => s!"thr:{n}"
  | .pair d t l => s!"pair:{d}:{hexStr t}:{hexStr l}"
  | .messenger d a => s!"msgr:{d}:{hexStr a}"

def evName : EvKind → String
  | .attesterEnabled => "AttesterEnabled" | .attesterDisabled => "AttesterDisabled"
  | .signatureThresholdUpdated => "SignatureThresholdUpdated" | .ownerUpdated => "OwnerUpdated"
  | .ownershipTransferStarted => "OwnershipTransferStarted" | .pauserUpdated => "PauserUpdated"
  | .attesterManagerUpdated => "AttesterManagerUpdated" | .tokenControllerUpdated => "TokenControllerUpdated"
  | .burningAndMintingPaused => "BurningAndMintingPausedEvent"
  | .burningAndMintingUnpaused => "BurningAndMintingUnpausedEvent"
  | .sendingAndReceivingPaused => "SendingAndReceivingPausedEvent"
  | .sendingAndReceivingUnpaused => "SendingAndReceivingUnpausedEvent"
  | .depositForBurn => "DepositForBurn" | .mintAndWithdraw => "MintAndWithdraw"
  | .tokenPairLinked => "TokenPairLinked" | .tokenPairUnlinked => "TokenPairUnlinked"
  | .messageSent => "MessageSent" | .messageReceived => "MessageReceived"
  | .maxMessageBodySizeUpdated => "MaxMessageBodySizeUpdated"
  | .remoteTokenMessengerAdded => "RemoteTokenMessengerAdded"
  | .remoteTokenMessengerRemoved => "RemoteTokenMessengerRemoved"
  | .setBurnLimitPerMessage => "SetBurnLimitPerMessage"

def showField : Field → String
  | .bytes b => "x" ++ hexStr b
  | .nat n => toString n
  | .int i => showInt i

def joinOr (sep : String) (l : List String) : String := if l.isEmpty then "-" else sep.intercalate l

def showEvent (e : Event) : String := evName e.kind ++ "{" ++ ",".intercalate (e.fields.map showField) ++ "}"

def showDep : Dep → String
  | .transfer f m d a ok => s!"Transfer\{x{hexStr f},x{hexStr m},x{hexStr d},{showInt a}}={if ok then 1 else 0}"
  | .burn f d a ok => s!"Burn\{x{hexStr f},x{hexStr d},{showInt a}}={if ok then 1 else 0}"
  | .mint f t d a ok => s!"Mint\{x{hexStr f},x{hexStr t},x{hexStr d},{showInt a}}={if ok then 1 else 0}"

def showResp : Resp → String
  | .empty => "-"
  | .nonce n => s!"nonce:{n}"
  | .success => "success"

def showFail : Option Fail → String
  | none => "ok" | some .err => "err" | some .panic => "panic"

def showR {α} (r : R α) : String := match r with | .ok _ => "ok" | .error .err => "err" | .error .panic => "panic"

def showStore (st : Store) : String := joinOr ";" (st.map fun kv => hexStr kv.1 ++ "=" ++ showVal kv.2)

def showLedger (l : Ledger) : String :=
  let bals := l.bal.filter (·.2 ≠ 0) |>.map fun e => s!"{hexStr e.1.1}/{hexStr e.1.2}={e.2}"
  let sup := l.supply.filter (·.2 ≠ 0) |>.map fun e => s!"{hexStr e.1}={e.2}"
  s!"ledger={joinOr ";" bals} supply={joinOr ";" sup}"

def showPage (p : PageRes) : String :=
  s!"page:[{";".intercalate (p.items.map showVal)}]:next={hexStr p.nextKey}:total={p.total}"

def showQResp : QResp → String
  | .val v => showVal v
  | .page p => showPage p
  | .roles o a p t => s!"roles:{hexStr o}:{hexStr a}:{hexStr p}:{hexStr t}"
  | .num n => s!"num:{n}"

def showGenesis (g : Genesis) : String :=
  let ob (o : Option Bool) := match o with | none => "-" | some b => if b then "1" else "0"
  let on (o : Option Nat) := match o with | none => "-" | some n => toString n
  s!"owner={hexStr g.owner} am={hexStr g.attesterManager} pauser={hexStr g.pauser} tc={hexStr g.tokenController} " ++
  s!"attesters={joinOr "," (g.attesters.map hexStr)} " ++
  s!"limits={joinOr "," (g.limits.map fun l => hexStr l.1 ++ ":" ++ showInt l.2)} " ++
  s!"burnPaused={ob g.burnPaused} sendPaused={ob g.sendPaused} maxBody={on g.maxBody} " ++
  s!"nextNonce={match g.nextNonce with | none => "-" | some (d, n) => s!"{d}:{n}"} threshold={on g.threshold} " ++
  s!"pairs={joinOr "," (g.pairs.map fun p => s!"{p.1}:{hexStr p.2.1}:{hexStr p.2.2}")} " ++
  s!"used={joinOr "," (g.used.map fun u => s!"{u.1}:{u.2}")} " ++
  s!"messengers={joinOr "," (g.messengers.map fun m => s!"{m.1}:{hexStr m.2}")}"

/-! ### driver state and the executable `Ext` -/

structure DState where
  pfx : Bytes := []
  cfg : Cfg := { moduleAddr := [], moduleStr := [] }
  world : World := { store := [], ledger := { mintingDenom := [], bal := [], supply := [], faults := [] } }
  lowers : List (Bytes × Bytes) := []
  folds : List ((Bytes × Bytes) × Bool) := []
  snaps : List (String × Store) := []
  /-- the open multi-message transaction, if any (`Model/Batch.lean`: `world` is then its branch) -/
  pending : Option Pending := none

def DState.chain (s : DState) : Chain := { world := s.world, pending := s.pending }
def DState.withChain (s : DState) (c : Chain) : DState := { s with world := c.world, pending := c.pending }

def missMark : Bytes := "ORACLEMISS".toUTF8.data.toList

def mkExt (s : DState) (ecr : List ((Bytes × Bytes) × Option Bytes)) : Ext where
  keccak256 := Native.keccak256
  -- an entry on the op line (the harness's own call of the library on the inputs the specification names) if there is
  -- one; otherwise the model's own secp256k1 (Native/Secp256k1.lean)
  ecrecover := fun d sig => match ecr.lookup (d, sig) with | some r => r | none => Native.Secp.ecrecover d sig
  accAddr := Native.accAddrFromBech32 s.pfx
  bech32Enc := Native.bech32Encode s.pfx
  toLower := fun b => if Native.isAscii b then Native.lowerAscii b else (s.lowers.lookup b).getD missMark
  equalFold := fun a b =>
    if Native.isAscii a && Native.isAscii b then Native.lowerAscii a == Native.lowerAscii b
    else (s.folds.lookup (a, b)).getD false
  validDenom := Native.validDenom
  base58 := Native.base58Decode

/-- `ecr=<digest>:<sig>:<pub|ERR>,…` -/
def parseEcr (s : String) : List ((Bytes × Bytes) × Option Bytes) :=
  (listItems s).filterMap fun it =>
    match it.splitOn ":" with
    | [d, sg, p] => some ((unhex d, unhex sg), if p == "ERR" then none else some (unhex p))
    | _ => none

/-- every (digest, chunk) the verifier can ask for must be in the table. -/
def ecrMissing (ext : Ext) (ecr : List ((Bytes × Bytes) × Option Bytes)) (msg att : Bytes) : Bool :=
  let d := ext.keccak256 msg
  (List.range (att.length / 65)).any fun i => (ecr.lookup (d, normV (slice att (65*i) (65*i+65)))).isNone

def parsePairs3 (s : String) : List (Nat × Bytes × Bytes) :=
  (listItems s).filterMap fun it =>
    match it.splitOn ":" with
    | [d, t, l] => some (d.toNat?.getD 0, unhex t, unhex l)
    | _ => none

def parseGenesis (kv : KV) : Genesis where
  owner := kv.bytes "owner"
  attesterManager := kv.bytes "am"
  pauser := kv.bytes "pauser"
  tokenController := kv.bytes "tc"
  attesters := kv.bytesList "attesters"
  limits := (listItems (kv.get "limits")).filterMap fun it =>
    match it.splitOn ":" with
    | [d, a] => some (unhex d, a.toInt?.getD 0)
    | _ => none
  burnPaused := kv.optBool "burnPaused"
  sendPaused := kv.optBool "sendPaused"
  maxBody := kv.optNat "maxBody"
  nextNonce := match (kv.get "nextNonce").splitOn ":" with
    | [d, n] => some (d.toNat?.getD 0, n.toNat?.getD 0)
    | _ => none
  threshold := kv.optNat "threshold"
  pairs := parsePairs3 (kv.get "pairs")
  used := (listItems (kv.get "used")).filterMap fun it =>
    match it.splitOn ":" with
    | [d, n] => some (d.toNat?.getD 0, n.toNat?.getD 0)
    | _ => none
  messengers := (listItems (kv.get "messengers")).filterMap fun it =>
    match it.splitOn ":" with
    | [d, a] => some (d.toNat?.getD 0, unhex a)
    | _ => none

def parseMsg (ty : String) (kv : KV) : Option Msg :=
  let f := kv.bytes "from"
  match ty with
  | "AcceptOwner" => some (.acceptOwner f)
  | "AddRemoteTokenMessenger" => some (.addRemoteTokenMessenger f (kv.nat "domain") (kv.bytes "address"))
  | "DepositForBurn" => some (.depositForBurn f (kv.optInt "amount") (kv.nat "dest") (kv.bytes "mintRecipient") (kv.bytes "burnToken"))
  | "DepositForBurnWithCaller" => some (.depositForBurnWithCaller f (kv.optInt "amount") (kv.nat "dest") (kv.bytes "mintRecipient") (kv.bytes "burnToken") (kv.bytes "caller"))
  | "DisableAttester" => some (.disableAttester f (kv.bytes "attester"))
  | "EnableAttester" => some (.enableAttester f (kv.bytes "attester"))
  | "LinkTokenPair" => some (.linkTokenPair f (kv.nat "domain") (kv.bytes "token") (kv.bytes "localToken"))
  | "PauseBurningAndMinting" => some (.pauseBurning f)
  | "PauseSendingAndReceivingMessages" => some (.pauseSending f)
  | "ReceiveMessage" => some (.receiveMessage f (kv.bytes "message") (kv.bytes "attestation"))
  | "RemoveRemoteTokenMessenger" => some (.removeRemoteTokenMessenger f (kv.nat "domain"))
  | "ReplaceDepositForBurn" => some (.replaceDepositForBurn f (kv.bytes "message") (kv.bytes "attestation") (kv.bytes "newCaller") (kv.bytes "newMintRecipient"))
  | "ReplaceMessage" => some (.replaceMessage f (kv.bytes "message") (kv.bytes "attestation") (kv.bytes "newBody") (kv.bytes "newCaller"))
  | "SendMessage" => some (.sendMessage f (kv.nat "dest") (kv.bytes "recipient") (kv.bytes "body"))
  | "SendMessageWithCaller" => some (.sendMessageWithCaller f (kv.nat "dest") (kv.bytes "recipient") (kv.bytes "body") (kv.bytes "caller"))
  | "UnlinkTokenPair" => some (.unlinkTokenPair f (kv.nat "domain") (kv.bytes "token") (kv.bytes "localToken"))
  | "UnpauseBurningAndMinting" => some (.unpauseBurning f)
  | "UnpauseSendingAndReceivingMessages" => some (.unpauseSending f)
  | "UpdateOwner" => some (.updateOwner f (kv.bytes "new"))
  | "UpdateAttesterManager" => some (.updateAttesterManager f (kv.bytes "new"))
  | "UpdateTokenController" => some (.updateTokenController f (kv.bytes "new"))
  | "UpdatePauser" => some (.updatePauser f (kv.bytes "new"))
  | "UpdateMaxMessageBodySize" => some (.updateMaxMessageBodySize f (kv.nat "size"))
  | "SetMaxBurnAmountPerMessage" => some (.setMaxBurnAmountPerMessage f (kv.bytes "localToken") (kv.optInt "amount"))
  | "UpdateSignatureThreshold" => some (.updateSignatureThreshold f (kv.nat "amount"))
  | _ => none

def parsePage (kv : KV) : Option PageReq :=
  if kv.get "page" == "nil" then none
  else some { key := kv.bytes "key", offset := kv.nat "offset", limit := kv.nat "limit",
              countTotal := kv.bool "countTotal", reverse := kv.bool "reverse" }

def parseQuery (name : String) (kv : KV) : Option Query :=
  match name with
  | "Attester" => some (.attester (kv.bytes "attester"))
  | "Attesters" => some (.attesters (parsePage kv))
  | "PerMessageBurnLimit" => some (.burnLimit (kv.bytes "denom"))
  | "PerMessageBurnLimits" => some (.burnLimits (parsePage kv))
  | "BurningAndMintingPaused" => some .burningAndMintingPaused
  | "SendingAndReceivingMessagesPaused" => some .sendingAndReceivingPaused
  | "MaxMessageBodySize" => some .maxMessageBodySize
  | "NextAvailableNonce" => some .nextAvailableNonce
  | "SignatureThreshold" => some .signatureThreshold
  | "TokenPair" => some (.tokenPair (kv.nat "domain") (kv.bytes "token"))
  | "TokenPairs" => some (.tokenPairs (parsePage kv))
  | "UsedNonce" => some (.usedNonce (kv.nat "domain") (kv.nat "nonce"))
  | "UsedNonces" => some (.usedNonces (parsePage kv))
  | "RemoteTokenMessenger" => some (.remoteTokenMessenger (kv.nat "domain"))
  | "RemoteTokenMessengers" => some (.remoteTokenMessengers (parsePage kv))
  | "Roles" => some .roles
  | "BurnMessageVersion" => some .burnMessageVersion
  | "LocalMessageVersion" => some .localMessageVersion
  | "LocalDomain" => some .localDomain
  | _ => none

def parseFaults (s : String) : List Bool := s.toList.filterMap fun c => if c == '1' then some true else if c == '0' then some false else none

def showMessage (m : Message) : String :=
  s!"ver={m.version} src={m.sourceDomain} dst={m.destDomain} nonce={m.nonce} sender={hexStr m.sender} recipient={hexStr m.recipient} caller={hexStr m.caller} body={hexStr m.body}"

def showBurn (b : BurnMessage) : String :=
  s!"ver={b.version} token={hexStr b.burnToken} recipient={hexStr b.mintRecipient} amount={match b.amount with | some a => showInt a | none => "-"} sender={hexStr b.messageSender}"

/-! ### one step -/

def step (s : DState) (line : String) : DState × String :=
  let parts := (line.splitOn " ").filter (· ≠ "")
  match parts with
  | [] => (s, "")
  | kind :: rest =>
    let kv := parseKV rest
    let ecr := parseEcr (kv.get "ecr")
    let ext := mkExt s ecr
    match kind with
    | "config" =>
      let lowers := (listItems (kv.get "lower")).filterMap fun it =>
        match it.splitOn ":" with | [a, b] => some (unhex a, unhex b) | _ => none
      let folds := (listItems (kv.get "fold")).filterMap fun it =>
        match it.splitOn ":" with | [a, b, r] => some ((unhex a, unhex b), r == "1") | _ => none
      ({ pfx := kv.bytes "prefix",
         cfg := { moduleAddr := kv.bytes "module", moduleStr := kv.bytes "moduleStr" },
         world := { store := [], ledger := { mintingDenom := kv.bytes "mintingDenom", bal := [], supply := [], faults := [] } },
         lowers := lowers, folds := folds, snaps := s.snaps }, "out=ok")
    | "fund" =>
      let a := kv.bytes "addr"; let d := kv.bytes "denom"; let n := kv.nat "amount"
      let l := s.world.ledger
      let l := { l with bal := Ledger.update l.bal (a, d) (l.balance a d + n),
                        supply := Ledger.update l.supply d (l.supplyOf d + n) }
      ({ s with world := { s.world with ledger := l } }, "out=ok")
    | "genesis-validate" =>
      (s, if (parseGenesis kv).validate ext then "out=ok" else "out=err")
    | "genesis-init" =>
      match Genesis.init ext s.world.store (parseGenesis kv) with
      | .ok st => ({ s with world := { s.world with store := st } }, "out=ok")
      | .error e => (s, "out=" ++ showFail (some e))
    | "genesis-default" => (s, "out=ok " ++ showGenesis Genesis.default)
    | "genesis-export" =>
      match Genesis.exportG s.world.store with
      | .ok g => (s, "out=ok " ++ showGenesis g)
      | .error e => (s, "out=" ++ showFail (some e))
    | "tx" | "sim" =>
      match rest with
      | ty :: _ =>
        match parseMsg ty kv with
        | none => (s, "bad-op")
        | some m =>
          let miss := match m with
            | .receiveMessage _ msg att => ecrMissing ext ecr msg att
            | .replaceMessage _ msg att _ _ => ecrMissing ext ecr msg att
            | .replaceDepositForBurn _ msg att _ _ => ecrMissing ext ecr msg att
            | _ => false
          let _ := miss
          -- through the transaction machine of Model/Batch.lean (`Chain.step`): outside an open transaction this is
          -- `deliver`; inside one the message runs on the transaction's branch and a failure dooms the transaction
          let faults := parseFaults (kv.get "faults")
          let (_, r) := deliver ext s.cfg s.world faults m
          let s' := if kind == "sim" then s else s.withChain (s.chain.step ext s.cfg (.msg faults m)).1
          let evs := joinOr "|" (r.events.map showEvent)
          let deps := joinOr "|" (r.deps.map showDep)
          let wr := joinOr "," (r.writes.map (fun w => hexStr w.1))
          -- `sim`: the same computation on a branch that is thrown away (gas simulation, CheckTx, an earlier message of a
          -- transaction that fails later): the world is left exactly as it was
          (s',
           "out=" ++ showFail r.fail ++ " resp=" ++ showResp r.resp ++ " events=" ++ evs ++ " deps=" ++ deps ++ " writes=" ++ wr
             ++ " doc=" ++ joinOr "," ((Spec.documented ext m).map hexStr))
      | [] => (s, "bad-op")
    | "query" =>
      match rest with
      | name :: _ =>
        match parseQuery name kv with
        | none => (s, "bad-op")
        | some q =>
          match query ext s.world.store (kv.bool "nil") q with
          | .ok r => (s, "out=ok resp=" ++ showQResp r)
          | .error e => (s, "out=" ++ showFail (some e))
      | [] => (s, "bad-op")
    | "verify" =>
      let msg := kv.bytes "message"; let att := kv.bytes "attestation"
      (s, "out=" ++ showR (verify ext msg att (kv.bytesList "attesters") (kv.nat "threshold")))
    | "msg-parse" =>
      match Message.parse (kv.bytes "bz") with
      | .ok m => (s, "out=ok " ++ showMessage m)
      | .error e => (s, "out=" ++ showFail (some e))
    | "msg-bytes" =>
      let m : Message := Message.mk (kv.nat "ver") (kv.nat "src") (kv.nat "dst") (kv.nat "nonce")
        (kv.bytes "sender") (kv.bytes "recipient") (kv.bytes "caller") (kv.bytes "body")
      match m.bytes with
      | .ok bz => (s, "out=ok bz=" ++ hexStr bz)
      | .error e => (s, "out=" ++ showFail (some e))
    | "burn-parse" =>
      match BurnMessage.parse (kv.bytes "bz") with
      | .ok b => (s, "out=ok " ++ showBurn b)
      | .error e => (s, "out=" ++ showFail (some e))
    | "burn-bytes" =>
      let b : BurnMessage := BurnMessage.mk (kv.nat "ver") (kv.bytes "token") (kv.bytes "recipient")
        (kv.optInt "amount") (kv.bytes "sender")
      match b.bytes with
      | .ok bz => (s, "out=ok bz=" ++ hexStr bz)
      | .error e => (s, "out=" ++ showFail (some e))
    | "cli-parse" =>
      match parseAddress ext (kv.bytes "s") with
      | .ok bz => (s, "out=ok bz=" ++ hexStr bz)
      | .error e => (s, "out=" ++ showFail (some e))
    | "key" =>
      let k := match kv.get "fn" with
        | "attester" => Key.attester (kv.bytes "a")
        | "limit" => Key.limit (kv.bytes "a")
        | "usedNonce" => Key.usedNonce (kv.nat "domain") (kv.nat "nonce")
        | "tokenPair" => Key.tokenPair ext (kv.nat "domain") (kv.bytes "a")
        | "messenger" => Key.messenger (kv.nat "domain")
        | _ => []
      (s, "out=ok key=" ++ hexStr k)
    | "ext" =>
      -- self-test of the native instances against the Go libraries
      let a := kv.bytes "a"
      let r := match kv.get "fn" with
        | "keccak" => hexStr (ext.keccak256 a)
        | "fromHex" => hexStr (fromHex a)
        | "accAddr" => (match ext.accAddr a with | some b => hexStr b | none => "ERR")
        | "bech32" => (match ext.bech32Enc a with | some b => hexStr b | none => "ERR")
        | "ecrecover" => (match Native.Secp.ecrecover a (kv.bytes "b") with | some b => hexStr b | none => "ERR")
        | "denom" => (if ext.validDenom a then "1" else "0")
        | "base58" => hexStr (ext.base58 a)
        | "lower" => hexStr (ext.toLower a)
        | "fold" => (if ext.equalFold a (kv.bytes "b") then "1" else "0")
        | "tokenPadded" => (match (hexDecodeStrict0x a).bind leftPad32 with | some b => hexStr b | none => "ERR")
        | _ => "?"
      (s, "out=ok r=" ++ r)
    | "begin" =>
      let (c, o) := s.chain.step ext s.cfg .begin_
      (s.withChain c, match o with | .opened => "out=ok" | _ => "out=ok open=1")
    | "end" =>
      let (c, o) := s.chain.step ext s.cfg .end_
      (s.withChain c, match o with | .committed => "out=committed" | .discarded => "out=discarded" | _ => "out=none")
    | "dump" =>
      (s, s!"store={showStore s.world.store} {showLedger s.world.ledger}")
    | "snap" => ({ s with snaps := (kv.get "id", s.world.store) :: s.snaps }, "out=ok")
    | "snapdiff" =>
      let a := (s.snaps.lookup (kv.get "a")).getD []
      let b := (s.snaps.lookup (kv.get "b")).getD []
      let ka := a.filter (fun e => b.get e.1 != some e.2) |>.map (·.1)
      let kb := b.filter (fun e => (a.get e.1).isNone) |>.map (·.1)
      let ks := (ka ++ kb).map hexStr |>.toArray |>.qsort (· < ·) |>.toList
      (s, "out=ok diff=" ++ joinOr "," ks)
    | "#" => (s, "#")
    | _ => (s, "bad-op")

partial def loop (h : IO.FS.Stream) (out : IO.FS.Stream) (s : DState) : IO Unit := do
  let line ← h.getLine
  if line.isEmpty then return ()
  let line := String.ofList (line.toList.filter (fun c => c != '\n' && c != '\r'))
  let (s', o) := step s line
  out.putStrLn o
  loop h out s'

def main : IO Unit := do
  let stdin ← IO.getStdin
  let stdout ← IO.getStdout
  loop stdin stdout {}
