-- This module serves as the root of the `Cctp` library.
-- Import modules here that should be built as part of the library.
import Cctp.Basic
