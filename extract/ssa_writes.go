package main

// Static write sets by symbolic evaluation over SSA.
//
// For every Set / Delete on a KVStore reachable from an entry point, the class of the written key is computed by
// evaluating, symbolically and context-sensitively (arguments are substituted along the call path), the store the
// call is made on and the key it is given:
//   a prefix store  prefix.NewStore(parent, P)        -> class of P
//   a plain store   runtime.KVStoreAdapter(...) etc.  -> class of the key argument
// where the class of an expression is the name of the key constant of x/cctp/types it was built from (named
// string constants are recognised by value, package-level key variables by identity), followed through
// conversions, types.KeyPrefix, parameters, results of helper functions, struct fields of values built by
// constructors, embedded structs, closures' free variables and generic instances.  Anything else is UNKNOWN.

import (
	"fmt"
	"os"
	"go/constant"
	"go/token"
	"go/types"
	"sort"
	"strings"

	"golang.org/x/tools/go/packages"
	"golang.org/x/tools/go/ssa"
	"golang.org/x/tools/go/ssa/ssautil"
)

type symKind int

const (
	symUnknown symKind = iota
	symKey             // a key / prefix of class name
	symPlain           // a store without prefix
	symPrefix          // a prefix store of class name
	symStruct          // a struct value with known fields
	symTuple           // several results
)

type sym struct {
	kind   symKind
	name   string
	fields map[string]*sym // symStruct (by field name)
	elems  []*sym          // symTuple
}

var unknownSym = &sym{kind: symUnknown}

func (s *sym) String() string {
	if s == nil {
		return "?"
	}
	switch s.kind {
	case symKey:
		return "K:" + s.name
	case symPlain:
		return "plain"
	case symPrefix:
		return "P:" + s.name
	case symStruct:
		var ks []string
		for k := range s.fields {
			ks = append(ks, k)
		}
		sort.Strings(ks)
		var b strings.Builder
		b.WriteString("{")
		for _, k := range ks {
			b.WriteString(k + "=" + s.fields[k].String() + ";")
		}
		b.WriteString("}")
		return b.String()
	case symTuple:
		var b strings.Builder
		b.WriteString("(")
		for _, e := range s.elems {
			b.WriteString(e.String() + ",")
		}
		b.WriteString(")")
		return b.String()
	}
	return "U"
}

type ssaAnalysis struct {
	prog      *ssa.Program
	ours      map[*ssa.Package]bool
	typesPath string
	constName map[string]string // string value of a key constant -> its name
	depth     int
	classes   map[string]bool
	seen      map[string]bool
	budget    int
	memo      map[evalKey]*sym
	retMemo   map[string]*sym
}

func isKeyName(n string) bool { return strings.HasSuffix(n, "Key") || strings.HasSuffix(n, "KeyPrefix") }

func storePkgPath(p string) bool {
	return strings.Contains(p, "cosmossdk.io/store") || strings.Contains(p, "cosmossdk.io/core/store") || strings.Contains(p, "cosmos-sdk/runtime")
}

func (a *ssaAnalysis) hasBody(f *ssa.Function) bool {
	if f == nil || len(f.Blocks) == 0 {
		return false
	}
	o := f
	for o.Parent() != nil {
		o = o.Parent()
	}
	if org := o.Origin(); org != nil {
		o = org
	}
	return o.Pkg != nil && a.ours[o.Pkg]
}

type env struct {
	params map[*ssa.Parameter]*sym
	free   map[*ssa.FreeVar]*sym
}

func (a *ssaAnalysis) envKey(f *ssa.Function, e *env) string {
	var b strings.Builder
	b.WriteString(f.String())
	b.WriteString("|")
	for _, p := range f.Params {
		b.WriteString(e.params[p].String() + ",")
	}
	for _, v := range f.FreeVars {
		b.WriteString(e.free[v].String() + ",")
	}
	return b.String()
}

// structFromAlloc collects what the function stores into the fields of a local struct (composite literals).
func (a *ssaAnalysis) structFromAlloc(al *ssa.Alloc, e *env, depth int) *sym {
	st, ok := deref(al.Type()).Underlying().(*types.Struct)
	if !ok {
		return unknownSym
	}
	out := &sym{kind: symStruct, fields: map[string]*sym{}}
	// the whole value stored at once (a by-value parameter or result spilled to a local): start from its fields
	for _, ref := range *al.Referrers() {
		if s, ok := ref.(*ssa.Store); ok && s.Addr == al {
			if base := a.eval(s.Val, e, depth+1); base.kind == symStruct {
				for k, v := range base.fields {
					out.fields[k] = v
				}
			}
		}
	}
	for _, ref := range *al.Referrers() {
		fa, ok := ref.(*ssa.FieldAddr)
		if !ok {
			continue
		}
		for _, r2 := range *fa.Referrers() {
			if s, ok := r2.(*ssa.Store); ok && s.Addr == fa {
				out.fields[st.Field(fa.Field).Name()] = a.eval(s.Val, e, depth+1)
			}
		}
	}
	return out
}

func deref(t types.Type) types.Type {
	if p, ok := t.Underlying().(*types.Pointer); ok {
		return p.Elem()
	}
	return t
}

func fieldOf(s *sym, name string) *sym {
	if s != nil && s.kind == symStruct {
		if f, ok := s.fields[name]; ok {
			return f
		}
	}
	return unknownSym
}

type evalKey struct {
	v ssa.Value
	e *env
}

func (a *ssaAnalysis) eval(v ssa.Value, e *env, depth int) *sym {
	if depth > 40 {
		return unknownSym
	}
	k := evalKey{v, e}
	if r, ok := a.memo[k]; ok {
		if r == nil {
			return unknownSym // being evaluated further up: a cycle
		}
		return r
	}
	a.memo[k] = nil
	r := a.eval1(v, e, depth)
	a.memo[k] = r
	return r
}

// structFromGlobal: a package-level variable of struct type (`var ownerRole = role{key: types.OwnerKey, ...}`) is
// initialised by stores in the package's synthetic init function; its fields are what those stores put there.  A store
// to it from any other function makes it unknown (the determinism scan reports such a write by itself).
func (a *ssaAnalysis) structFromGlobal(g *ssa.Global, depth int) *sym {
	st, ok := deref(g.Type()).Underlying().(*types.Struct)
	if !ok || g.Pkg == nil {
		return unknownSym
	}
	initFn := g.Pkg.Func("init")
	out := &sym{kind: symStruct, fields: map[string]*sym{}}
	empty := &env{params: map[*ssa.Parameter]*sym{}, free: map[*ssa.FreeVar]*sym{}}
	for _, mem := range g.Pkg.Members {
		fn, ok := mem.(*ssa.Function)
		if !ok {
			continue
		}
		fns := append([]*ssa.Function{fn}, fn.AnonFuncs...)
		for _, f := range fns {
			for _, b := range f.Blocks {
				for _, ins := range b.Instrs {
					stv, ok := ins.(*ssa.Store)
					if !ok {
						continue
					}
					if fa, ok := stv.Addr.(*ssa.FieldAddr); ok && fa.X == ssa.Value(g) {
						if f != initFn {
							return unknownSym
						}
						out.fields[st.Field(fa.Field).Name()] = a.eval(stv.Val, empty, depth+1)
					} else if stv.Addr == ssa.Value(g) {
						if f != initFn {
							return unknownSym
						}
						if base := a.eval(stv.Val, empty, depth+1); base.kind == symStruct {
							for k, v := range base.fields {
								out.fields[k] = v
							}
						}
					}
				}
			}
		}
	}
	return out
}

func (a *ssaAnalysis) eval1(v ssa.Value, e *env, depth int) *sym {
	switch x := v.(type) {
	case *ssa.Parameter:
		if s, ok := e.params[x]; ok && s != nil {
			return s
		}
		return unknownSym
	case *ssa.FreeVar:
		if s, ok := e.free[x]; ok && s != nil {
			return s
		}
		return unknownSym
	case *ssa.Const:
		if x.Value != nil && x.Value.Kind() == constant.String {
			if n, ok := a.constName[constant.StringVal(x.Value)]; ok {
				return &sym{kind: symKey, name: n}
			}
		}
		return unknownSym
	case *ssa.Global:
		if x.Pkg != nil && x.Pkg.Pkg.Path() == a.typesPath && isKeyName(x.Name()) {
			return &sym{kind: symKey, name: x.Name()}
		}
		if x.Pkg != nil && a.ours[x.Pkg] {
			if _, isStruct := deref(x.Type()).Underlying().(*types.Struct); isStruct {
				return a.structFromGlobal(x, depth)
			}
		}
		return unknownSym
	case *ssa.UnOp:
		if x.Op == token.MUL { // load
			if g, ok := x.X.(*ssa.Global); ok {
				return a.eval(g, e, depth+1)
			}
			if al, ok := x.X.(*ssa.Alloc); ok {
				if _, isStruct := deref(al.Type()).Underlying().(*types.Struct); isStruct {
					return a.structFromAlloc(al, e, depth)
				}
				// a local variable: the (single) value stored into it
				var val *sym
				for _, ref := range *al.Referrers() {
					if s, ok := ref.(*ssa.Store); ok && s.Addr == al {
						nv := a.eval(s.Val, e, depth+1)
						if val != nil && val.String() != nv.String() {
							return unknownSym
						}
						val = nv
					}
				}
				if val != nil {
					return val
				}
				return unknownSym
			}
			if fa, ok := x.X.(*ssa.FieldAddr); ok {
				return a.eval(fa, e, depth+1)
			}
			return a.eval(x.X, e, depth+1)
		}
		return unknownSym
	case *ssa.Alloc:
		if _, isStruct := deref(x.Type()).Underlying().(*types.Struct); isStruct {
			return a.structFromAlloc(x, e, depth) // &T{...}
		}
		return unknownSym
	case *ssa.FieldAddr:
		st, ok := deref(x.X.Type()).Underlying().(*types.Struct)
		if !ok {
			return unknownSym
		}
		return fieldOf(a.eval(x.X, e, depth+1), st.Field(x.Field).Name())
	case *ssa.Field:
		st, ok := x.X.Type().Underlying().(*types.Struct)
		if !ok {
			return unknownSym
		}
		return fieldOf(a.eval(x.X, e, depth+1), st.Field(x.Field).Name())
	case *ssa.Convert:
		return a.eval(x.X, e, depth+1)
	case *ssa.ChangeType:
		return a.eval(x.X, e, depth+1)
	case *ssa.ChangeInterface:
		return a.eval(x.X, e, depth+1)
	case *ssa.MakeInterface:
		return a.eval(x.X, e, depth+1)
	case *ssa.TypeAssert:
		return a.eval(x.X, e, depth+1)
	case *ssa.Slice:
		return a.eval(x.X, e, depth+1)
	case *ssa.Phi:
		var val *sym
		for _, ed := range x.Edges {
			nv := a.eval(ed, e, depth+1)
			if val != nil && val.String() != nv.String() {
				return unknownSym
			}
			val = nv
		}
		if val != nil {
			return val
		}
		return unknownSym
	case *ssa.Extract:
		t := a.eval(x.Tuple, e, depth+1)
		if t.kind == symTuple && x.Index < len(t.elems) {
			return t.elems[x.Index]
		}
		return unknownSym
	case *ssa.BinOp:
		// key + "/" and the like keep the class of the key part
		l, r := a.eval(x.X, e, depth+1), a.eval(x.Y, e, depth+1)
		if l.kind == symKey && r.kind != symKey {
			return l
		}
		if r.kind == symKey && l.kind != symKey {
			return r
		}
		return unknownSym
	case *ssa.Call:
		return a.evalCall(&x.Call, e, depth+1)
	case *ssa.MakeClosure:
		return unknownSym
	}
	return unknownSym
}

// evalCall: the value a call returns.
func (a *ssaAnalysis) evalCall(c *ssa.CallCommon, e *env, depth int) *sym {
	if c.IsInvoke() {
		return unknownSym
	}
	callee := c.StaticCallee()
	if callee == nil {
		if b, ok := c.Value.(*ssa.Builtin); ok && b.Name() == "append" && len(c.Args) > 0 {
			// append(prefixBytes, ...) keeps the class of its first argument; append([]byte{}, key...) that of the second
			f := a.eval(c.Args[0], e, depth+1)
			if f.kind == symKey {
				return f
			}
			if len(c.Args) > 1 {
				return a.eval(c.Args[1], e, depth+1)
			}
		}
		return unknownSym
	}
	name := callee.Name()
	pkgPath := ""
	if callee.Pkg != nil {
		pkgPath = callee.Pkg.Pkg.Path()
	} else if o := callee.Origin(); o != nil && o.Pkg != nil {
		pkgPath = o.Pkg.Pkg.Path()
	}
	switch {
	case name == "NewStore" && strings.Contains(pkgPath, "store/prefix") && len(c.Args) == 2:
		p := a.eval(c.Args[1], e, depth+1)
		if p.kind == symKey {
			return &sym{kind: symPrefix, name: p.name}
		}
		return &sym{kind: symPrefix, name: "UNKNOWN"}
	case name == "KVStoreAdapter" || name == "OpenKVStore" || name == "KVStore":
		if storePkgPath(pkgPath) || strings.Contains(pkgPath, "cosmos-sdk/types") {
			return &sym{kind: symPlain}
		}
	case name == "KeyPrefix" && pkgPath == a.typesPath && len(c.Args) == 1:
		return a.eval(c.Args[0], e, depth+1)
	}
	if a.hasBody(callee) {
		ne := a.bind(callee, c.Args, e, depth)
		return a.evalReturn(callee, ne, depth+1)
	}
	return unknownSym
}

func (a *ssaAnalysis) bind(callee *ssa.Function, args []ssa.Value, e *env, depth int) *env {
	ne := &env{params: map[*ssa.Parameter]*sym{}, free: map[*ssa.FreeVar]*sym{}}
	for i, p := range callee.Params {
		if i < len(args) {
			ne.params[p] = a.eval(args[i], e, depth+1)
		} else {
			ne.params[p] = unknownSym
		}
	}
	return ne
}

func (a *ssaAnalysis) evalReturn(f *ssa.Function, e *env, depth int) *sym {
	if depth > 40 {
		return unknownSym
	}
	rk := "ret|" + a.envKey(f, e)
	if r, ok := a.retMemo[rk]; ok {
		if r == nil {
			return unknownSym
		}
		return r
	}
	a.retMemo[rk] = nil
	r := a.evalReturn1(f, e, depth)
	a.retMemo[rk] = r
	return r
}

func (a *ssaAnalysis) evalReturn1(f *ssa.Function, e *env, depth int) *sym {
	var val *sym
	for _, b := range f.Blocks {
		for _, ins := range b.Instrs {
			r, ok := ins.(*ssa.Return)
			if !ok {
				continue
			}
			var nv *sym
			if len(r.Results) == 1 {
				nv = a.eval(r.Results[0], e, depth+1)
			} else {
				nv = &sym{kind: symTuple}
				for _, x := range r.Results {
					nv.elems = append(nv.elems, a.eval(x, e, depth+1))
				}
			}
			if val != nil && val.String() != nv.String() {
				return unknownSym
			}
			val = nv
		}
	}
	if val == nil {
		return unknownSym
	}
	return val
}

func (a *ssaAnalysis) record(store *sym, key *sym) {
	if os.Getenv("EXTRACT_DEBUG") != "" {
		fmt.Fprintf(os.Stderr, "write: store=%s key=%s\n", store, key)
	}
	switch {
	case store.kind == symPrefix:
		a.classes[store.name] = true
	case store.kind == symPlain && key.kind == symKey:
		a.classes[key.name] = true
	default:
		a.classes["UNKNOWN"] = true
	}
}

// walk: all writes of f under e, and of everything it calls.
func (a *ssaAnalysis) walk(f *ssa.Function, e *env, depth int) {
	if f == nil || len(f.Blocks) == 0 || depth > 60 {
		return
	}
	k := a.envKey(f, e)
	if a.seen[k] {
		return
	}
	a.seen[k] = true
	a.budget--
	if a.budget < 0 {
		a.classes["UNKNOWN"] = true
		return
	}
	for _, b := range f.Blocks {
		for _, ins := range b.Instrs {
			switch x := ins.(type) {
			case *ssa.MakeClosure:
				// a callback handed to somebody (query.Paginate, CacheContext ...): assume it runs
				if fn, ok := x.Fn.(*ssa.Function); ok {
					ne := &env{params: map[*ssa.Parameter]*sym{}, free: map[*ssa.FreeVar]*sym{}}
					for i, fv := range fn.FreeVars {
						if i < len(x.Bindings) {
							ne.free[fv] = a.eval(x.Bindings[i], e, depth+1)
						}
					}
					for _, p := range fn.Params {
						ne.params[p] = unknownSym
					}
					a.walk(fn, ne, depth+1)
				}
			case ssa.CallInstruction:
				c := x.Common()
				a.walkCall(c, e, depth)
			}
			// a function of ours used as a value (method value, callback): assume it runs with unknown arguments
			for _, op := range ins.Operands(nil) {
				if op == nil || *op == nil {
					continue
				}
				if fn, ok := (*op).(*ssa.Function); ok && a.hasBody(fn) {
					if ci, isCall := ins.(ssa.CallInstruction); isCall && ci.Common().Value == fn {
						continue
					}
					if _, isClosure := ins.(*ssa.MakeClosure); isClosure {
						continue
					}
					ne := &env{params: map[*ssa.Parameter]*sym{}, free: map[*ssa.FreeVar]*sym{}}
					for _, p := range fn.Params {
						ne.params[p] = unknownSym
					}
					a.walk(fn, ne, depth+1)
				}
			}
		}
	}
}

func (a *ssaAnalysis) walkCall(c *ssa.CallCommon, e *env, depth int) {
	if c.IsInvoke() {
		// an interface method: a store write if it is Set/Delete of a store interface
		if (c.Method.Name() == "Set" || c.Method.Name() == "Delete") && c.Method.Pkg() != nil && storePkgPath(c.Method.Pkg().Path()) {
			key := unknownSym
			if len(c.Args) >= 1 {
				key = a.eval(c.Args[0], e, depth+1)
			}
			a.record(a.eval(c.Value, e, depth+1), key)
		}
		return
	}
	callee := c.StaticCallee()
	if callee == nil {
		return
	}
	pkgPath := ""
	if callee.Pkg != nil {
		pkgPath = callee.Pkg.Pkg.Path()
	} else if o := callee.Origin(); o != nil && o.Pkg != nil {
		pkgPath = o.Pkg.Pkg.Path()
	}
	if (callee.Name() == "Set" || callee.Name() == "Delete") && callee.Signature.Recv() != nil && storePkgPath(pkgPath) {
		// a concrete store type (prefix.Store): receiver is the first argument
		key := unknownSym
		if len(c.Args) >= 2 {
			key = a.eval(c.Args[1], e, depth+1)
		}
		a.record(a.eval(c.Args[0], e, depth+1), key)
		return
	}
	// a typed-collection library writing on the module's behalf: its writes cannot be resolved here
	if strings.Contains(pkgPath, "cosmossdk.io/collections") {
		switch callee.Name() {
		case "Set", "Remove", "Clear", "Push", "Next":
			a.classes["UNKNOWN"] = true
		}
		return
	}
	if a.hasBody(callee) {
		a.walk(callee, a.bind(callee, c.Args, e, depth), depth+1)
	}
}

// ssaWriteSets: entry point name (as in the AST-based table) -> classes.
func ssaWriteSets(pkgs []*packages.Package, keeperPkg, modPkg, typesPkg *packages.Package, entries map[string]types.Object) (map[string][]string, error) {
	prog, spkgs := ssautil.Packages(pkgs, ssa.InstantiateGenerics)
	prog.Build()
	a := &ssaAnalysis{prog: prog, ours: map[*ssa.Package]bool{}, typesPath: typesPkg.PkgPath, constName: map[string]string{}}
	for i, p := range pkgs {
		if spkgs[i] == nil {
			return nil, fmt.Errorf("no SSA for %s", p.PkgPath)
		}
		a.ours[spkgs[i]] = true
	}
	scope := typesPkg.Types.Scope()
	for _, n := range scope.Names() {
		if c, ok := scope.Lookup(n).(*types.Const); ok && isKeyName(n) && c.Val().Kind() == constant.String {
			a.constName[constant.StringVal(c.Val())] = n
		}
	}
	out := map[string][]string{}
	for name, obj := range entries {
		fn, ok := obj.(*types.Func)
		if !ok {
			continue
		}
		sf := prog.FuncValue(fn)
		if sf == nil {
			out[name] = []string{"UNKNOWN"}
			continue
		}
		a.classes = map[string]bool{}
		a.seen = map[string]bool{}
		a.budget = 20000
		a.memo = map[evalKey]*sym{}
		a.retMemo = map[string]*sym{}
		e := &env{params: map[*ssa.Parameter]*sym{}, free: map[*ssa.FreeVar]*sym{}}
		for _, p := range sf.Params {
			e.params[p] = unknownSym
		}
		a.walk(sf, e, 0)
		var cl []string
		for c := range a.classes {
			cl = append(cl, c)
		}
		sort.Strings(cl)
		out[name] = cl
	}
	return out, nil
}
