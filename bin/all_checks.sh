#!/bin/bash
# usage: all_checks.sh <tier> <seed...> : runs every registered check on the unchanged tree, reports non-zero exits
tier=$1; shift
ROOT="$(cd "$(dirname "$0")/.." && pwd)"; cd "$ROOT"
python3 bin/setup.py >/dev/null 2>&1 || { echo "setup failed"; exit 2; }
for seed in "$@"; do
  for p in C01 C02 C03 C04 C05 C06 C07 C08 C09 C10 C11 C12 C13 C14 C15 C16 C17 C18 C19 C20; do
    out=$(VERIF_SEED=$seed timeout 3000 python3 bin/check.py $p $tier 2>&1); rc=$?
    echo "seed=$seed $p rc=$rc $(echo "$out" | tail -1 | cut -c1-200)"
    if [ $rc -ne 0 ]; then echo "$out" | grep -A2 "VIOLATION\|INFRA" | head -12 | cut -c1-400; fi
  done
done
echo "all_checks done"
