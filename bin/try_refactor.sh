#!/bin/bash
# usage: try_refactor.sh <dir with patch.diff> [props...] : a behaviour-preserving change must keep every check silent.
# Applies the patch in a scratch worktree of /repo, confirms build + suite, runs the quick checks against it.
set -u
D="$1"; shift
PROPS="${*:-C01 C02 C03 C04 C05 C06 C07 C08 C09 C10 C11 C12 C13 C14 C15 C16 C17 C18 C19 C20}"
WT=/tmp/refwt_$$
git -C /repo worktree add -q "$WT" HEAD || exit 2
trap 'git -C /repo worktree remove --force "$WT" >/dev/null 2>&1' EXIT
( cd "$WT" && git apply "$D/patch.diff" ) || { echo "PATCH DOES NOT APPLY"; exit 2; }
( cd "$WT" && go build ./x/... && go build -tags verif ./x/... ) || { echo "DOES NOT COMPILE"; exit 2; }
( cd "$WT" && go test -vet=off -count=1 ./x/... >/tmp/ref_suite.$$ 2>&1 ); echo "existing suite with change: exit $? (want 0)"; rm -f /tmp/ref_suite.$$
for P in $PROPS; do
  OUT=$(cd /verif && VERIF_REPO="$WT" timeout 3000 python3 bin/check.py $P quick 2>&1); RC=$?
  echo "check $P quick: exit $RC; $(echo "$OUT" | grep -c '^VIOLATION') violation line(s)"
  echo "$OUT" | grep -A1 '^VIOLATION\|INFRA' | head -6 | cut -c1-400
done
