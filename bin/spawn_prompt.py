#!/usr/bin/env python3
"""usage: spawn_prompt.py <property id> <suffix>   e.g.  spawn_prompt.py C14 b
Creates a scratch worktree /tmp/wt_<id><suffix> of /repo, an output directory /tmp/out_<id><suffix>, and prints the
path of a prompt file for a fresh sub-agent.  The prompt holds the property text (from properties.jsonl), the
task, and one line per earlier seeded change of that property saying which spot is taken -- nothing else from /verif."""
import json, os, subprocess, sys, glob
pid, suf = sys.argv[1], sys.argv[2]
tag = pid + suf
ROOT = os.path.dirname(os.path.dirname(os.path.abspath(__file__)))
prop = next(json.loads(l) for l in open(os.path.join(ROOT, 'properties.jsonl')) if json.loads(l)['id'] == pid)
text = "%s — %s\n\nStatement: %s\n\nQuantifier: %s\n" % (pid, prop['title'], prop['statement'], prop['quantifier'])
taken = []
for d in sorted(glob.glob(os.path.join(ROOT, 'seeded', pid + '-*'))):
    m = json.load(open(os.path.join(d, 'meta.json')))
    taken.append("  - " + m['needs_to_manifest'])
wt, out = '/tmp/wt_' + tag, '/tmp/out_' + tag
subprocess.run(['git', '-C', '/repo', 'worktree', 'add', '-q', wt, 'HEAD'], check=True)
os.makedirs(out, exist_ok=True)
prompt = f"""You are helping to test a verification framework by seeding a realistic bug. Work ONLY inside the git worktree {wt} (a checkout of the Go repository circlefin/noble-cctp, a Cosmos-SDK module implementing Circle's Cross-Chain Transfer Protocol; the module code is under x/cctp). Do not touch /repo or /verif, and do not read anything under /verif.

The following semantic property is supposed to hold of the code:

{text}
Your task: make a small, realistic change to the non-test Go source under {wt}/x/cctp (the kind of slip a maintainer could make in a refactor or a 'small optimisation') that BREAKS this property while
  (a) the code still compiles: `cd {wt} && go build ./x/...`
  (b) the existing test suite still passes completely, unedited: `cd {wt} && go test -vet=off -count=1 ./x/...`  (do not edit or delete any existing *_test.go file)
  (c) the breakage needs something SPECIFIC to manifest — a particular multi-step sequence of operations, an unusual input or boundary value, a particular position in a list, a particular combination of state, or two cooperating code sites that each look fine alone — not something that ordinary use would expose at once (so: do not simply make a handler always fail or always succeed).
Also write a demonstration: a NEW Go test file (e.g. x/cctp/keeper/zz_demo_{tag}_test.go, package keeper_test or keeper, using the repo's own test helpers under testutil/ and the patterns of the existing tests) containing a test that FAILS with your change and PASSES on the original code. Verify both claims yourself: run the demo test with your change (must fail), then revert the source change with `git diff -- x/ ":!*_test.go" > {out}/patch.diff && git apply -R {out}/patch.diff` (keep the demo), run it again (must pass), then re-apply with `git apply {out}/patch.diff`. Do NOT use `git stash` (the stash is shared between worktrees and other agents are working in sibling worktrees).

Semantics note: on chain, every message runs on a branch of the state that is committed only if the handler returns no error; store writes and events of a handler call that returns an error (or panics) are discarded. So a breakage that only corrupts state on a path that then returns an error does NOT count — the property must be violated by the committed outcome of transactions (or by queries, decoders, genesis import/export, as the property says).

Environment notes: the sandbox has no network; all Go dependencies are already in the module cache. Run go commands from inside {wt} with the default environment (do NOT set GOFLAGS=-mod=mod there; the repo uses a go.work file). The full suite takes about 15 seconds.

When done, leave the worktree with your source change and the demo test in place (uncommitted), and ALSO write these files:
  {out}/patch.diff   — `git diff` of the non-test source change only (not the demo test)
  {out}/demo_test.go — a copy of your demo test file, with a first-line comment giving the path where it lives in the repo
  {out}/README.md    — 5-15 lines: what you changed, why it breaks the property, what exactly is needed for it to manifest, and the exact commands you ran with their observed outcomes (suite passes with change; demo fails with change; demo passes without).
Keep the change minimal (a few lines). Your final answer should be a short summary of the change and of what it needs to manifest.
"""
if taken:
    prompt += "\nAdditional constraint: these ways of breaking the property have been used already; pick a DIFFERENT code site and a different kind of trigger (a different clause of the property if it has several):\n" + "\n".join(taken) + "\n"
pf = '/tmp/prompt_%s.txt' % tag
open(pf, 'w').write(prompt)
print(pf)
