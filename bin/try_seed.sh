#!/bin/bash
# usage: try_seed.sh <dir with patch.diff and demo_test.go> <tier> <property ids...>
# Confirms a seeded change in a scratch worktree (compiles, suite passes, demo fails with / passes without),
# then runs the given checks against the patched tree and reports whether each raises a VIOLATION.
set -u
D="$1"; TIER="$2"; shift 2
WT=/tmp/seedwt_$$
git -C /repo worktree add -q "$WT" HEAD || exit 2
trap 'git -C /repo worktree remove --force "$WT" >/dev/null 2>&1' EXIT
DEMO_PATH=$(head -1 "$D/demo_test.go" | grep -o 'x/cctp[^ ]*_test.go' | head -1)
[ -z "$DEMO_PATH" ] && DEMO_PATH=x/cctp/keeper/zz_demo_test.go
cp "$D/demo_test.go" "$WT/$DEMO_PATH"
DEMO_PKG=./$(dirname "$DEMO_PATH")
DEMO_RE=$(grep -o '^func Test[A-Za-z0-9_]*' "$D/demo_test.go" | sed 's/func //' | paste -sd'|')
( cd "$WT" && go test -vet=off -count=1 -run "^($DEMO_RE)\$" $DEMO_PKG >/tmp/seed_demo_orig.$$ 2>&1 ); R0=$?
( cd "$WT" && git apply "$D/patch.diff" ) || { echo "PATCH DOES NOT APPLY"; exit 2; }
( cd "$WT" && go build ./x/... ) || { echo "DOES NOT COMPILE"; exit 2; }
( cd "$WT" && go test -vet=off -count=1 -run "^($DEMO_RE)\$" $DEMO_PKG >/tmp/seed_demo_mut.$$ 2>&1 ); R1=$?
rm "$WT/$DEMO_PATH"
( cd "$WT" && go test -vet=off -count=1 ./x/... >/tmp/seed_suite.$$ 2>&1 ); R2=$?
echo "demo on original: exit $R0 (want 0); demo with change: exit $R1 (want non-0); existing suite with change: exit $R2 (want 0)"
rm -f /tmp/seed_demo_orig.$$ /tmp/seed_demo_mut.$$ /tmp/seed_suite.$$
for P in "$@"; do
  OUT=$(cd /verif && VERIF_REPO="$WT" timeout 3000 python3 bin/check.py $P $TIER 2>&1)
  RC=$?
  echo "check $P $TIER: exit $RC; $(echo "$OUT" | grep -c '^VIOLATION') violation line(s)"
  echo "$OUT" | grep -A1 '^VIOLATION' | head -4 | cut -c1-330
done
