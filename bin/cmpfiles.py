#!/usr/bin/env python3
import sys
sys.path.insert(0, __import__('os').path.dirname(__file__))
import obs
ops=open(sys.argv[1]).read().split('\n'); impl=open(sys.argv[2]).read().split('\n'); model=open(sys.argv[3]).read().split('\n')
n=0
for d in obs.compare(ops, impl, model):
    n+=1
    if n<=int(sys.argv[4]) if len(sys.argv)>4 else n<=10:
        i=d[0]
        print("MISMATCH at line", i+1, d[1], d[2], "field", d[3])
        print("  op   :", ops[i][:400] if i < len(ops) else None)
        print("  impl :", str(d[4])[:600])
        print("  model:", str(d[5])[:600])
print("mismatches:", n)
