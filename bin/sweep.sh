#!/bin/bash
# usage: sweep.sh <seed-from> <seed-to> <budget>  -- runs every scenario over a seed range on impl+model,
# prints any mismatch.  Builds into ./.work of the current checkout (works inside a `vp run` snapshot).
set -u
ROOT="$(cd "$(dirname "$0")/.." && pwd)"
cd "$ROOT"
(cd lean && lake build driver >/dev/null 2>&1) || { echo "lean build failed"; exit 2; }
bin/build_harness.sh "$ROOT/.work/harness.bin" || { echo "harness build failed"; exit 2; }
d="$ROOT/.work/sweep"; mkdir -p "$d"
bad=0
for seed in $(seq $1 $2); do
  for s in $("$ROOT/.work/harness.bin" scenarios); do
    (
    "$ROOT/.work/harness.bin" run --scenario $s --seed $seed --budget $3 --ops $d/$s.$seed.ops --obs $d/$s.$seed.impl || echo "RUNFAIL $s $seed"
    "$ROOT/lean/.lake/build/bin/driver" < $d/$s.$seed.ops > $d/$s.$seed.model
    r=$(python3 bin/cmpfiles.py $d/$s.$seed.ops $d/$s.$seed.impl $d/$s.$seed.model 2 | cut -c1-700)
    miss=$(grep -c oracle-miss $d/$s.$seed.model)
    if ! echo "$r" | grep -q "mismatches: 0" || [ "$miss" != "0" ]; then echo "== $s seed=$seed miss=$miss"; echo "$r"; else rm -f $d/$s.$seed.*; fi
    ) &
  done
  wait
done
echo "sweep done"
