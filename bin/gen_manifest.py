#!/usr/bin/env python3
"""Regenerates MANIFEST.json from bin/props.py and the Props/*.lean files that exist."""
import json, os, sys
HERE = os.path.dirname(os.path.abspath(__file__)); ROOT = os.path.dirname(HERE)
sys.path.insert(0, HERE)
import props as P

TEXT = {
 'C01': ("verifier accepts exactly the valid attestations (both directions) and validity implies threshold-many pairwise distinct enabled signers; receive/replace use the stored configuration", "7 C01"),
 'C02': ("at most one successful receive per (domain, nonce) over every history; used bit monotone; used only if genesis or a success; key injectivity on uint32 x uint64; query/list exactness", "7 C02"),
 'C03': ("receive succeeds iff the full acceptance predicate holds (stated with the reference decoders), for every fault plan; otherwise no effect", "7 C03"),
 'C04': ("a successful module-addressed receive issues exactly one Mint with exactly the stated fields; no other transaction mints; total minted = sum of stated amounts over any history", "7 C04"),
 'C05': ("a successful deposit is exactly transfer+burn of the stated amount and one module-sent message stating it; ledger effect; sender = submitter; total burnt = sum of deposits over any history", "7 C05"),
 'C06': ("every MessageSent / DepositForBurn payload, read with the literal-offset reference decoder, carries exactly the requested content; replacement event names the original's burn token", "7 C06"),
 'C07': ("k-th successful producer gets start+k-1 (mod 2^64) over every history; counter = start + #successes; failures and replacements consume nothing; replacements reuse the original nonce", "7 C07"),
 'C08': ("deposit succeeds iff the documented precondition record holds (both directions; the one fact needed about the hash, 32-byte digests, is a named hypothesis in general and PROVED for the Keccak-256 the model runs: native_keccakLen); limit inclusive / limit+1 rejected for every limit", "7 C08"),
 'C09': ("replacements succeed only for the submitter's own currently-attested Noble message, preserve the documented fields (reference decoder), write nothing, call no dependency, respect the pause flags", "7 C09"),
 'C10': ("a privileged transaction that succeeds was submitted by the holder of its role; every other submitter fails and changes nothing (no finiteness assumption on accounts)", "7 C10"),
 'C11': ("the stored roles refine the lifecycle automaton for every transaction and history; two-step ownership, supersession, no replay, valid addresses only, nothing else touches a role", "7 C11"),
 'C12': ("each pause flag blocks exactly the flows it names (and the burn flag does not affect non-module receives), changes only by the pauser's action on that flag, pausing idempotent, admin stays available", "7 C12"),
 'C13': ("1 <= threshold <= #attesters is preserved by every transaction of every type, hence over every history and every chain of multi-message transactions from a genesis that satisfies it (inv_from_genesis); boundary corollaries", "7 C13"),
 'C14': ("for ALL fault plans: success needs every dependency call to have succeeded; any hit fault or late validation failure is an error; the rollback itself is the SDK contract encoded in `deliver` (assumed, exercised by a real CacheContext)", "7 C14"),
 'C15': ("every write of every successful handler lies in the documented write set of its type (all states, all inputs); replacements write nothing; failed transactions commit nothing; monitor: recorder around the real store service", "7 C15"),
 'C16': ("module codec = literal-offset CCTP reference codec on every byte string / value; both round trips; wrong sizes rejected; regenerated constants = CCTP offsets", "7 C16"),
 'C17': ("genesis validate/init/export: collisions rejected, export(init g) = normalised g, init(export st) = st except the known pending-owner finding; the same over chains of multi-message transactions; the default genesis validates, initialises and round-trips", "7 C17"),
 'C18': ("the model is a function of (genesis, history): agreement of every replay with it implies replays agree; plus replay-vs-replay comparison of app hash/responses/events and a static scan (no map range, time, rand, goroutine, package-level write, write through a keeper receiver); every op runs under a varying block header, Go context and execution mode that the model ignores; scheduler effects explored not proved", "7 C18"),
 'C19': ("registries refine finite maps; single-item queries find an entry iff it exists; pagination returns every entry exactly once", "7 C19"),
 'C20': ("no handler, query, decoder or CLI parser of the model panics in any state reachable from ANY genesis that initialises through ANY chain of multi-message transactions (no_panic_reachable: no invariant left as a hypothesis), on any input within the wire's own bounds (library panics outside the model are explored, not proved)", "7 C20"),
}

def main():
    claimed, na = [], []
    for pid in sorted(P.PROPS):
        spec = P.PROPS[pid]
        if os.path.exists(os.path.join(ROOT, 'lean', 'Cctp', 'Props', pid + '.lean')) and pid not in P.NOT_READY:
            txt, ref = TEXT[pid]
            claimed.append({
                'property_id': pid,
                'quick_cmd': 'python3 bin/check.py %s quick' % pid,
                'thorough_cmd': 'python3 bin/check.py %s thorough' % pid,
                'evidence_file': 'evidence/%s.json' % pid,
                'replay_cmd_template': 'python3 bin/check.py %s quick --replay {path}' % pid,
                'engine': 'lean4-model+go-correspondence',
                'level_claimed': {'category': spec['level'],
                                  'text': 'Machine-checked Lean 4 theorems about an executable model of x/cctp: ' + txt + '. The model is tied to /repo on every run by (1) facts regenerated from the source and re-proved, (2) a differential correspondence run of the real keeper against the model on generated histories and matrices, (3) direct monitors of the property on the implementation trace.',
                                  'design_ref': 'DESIGN.md section ' + ref},
                'level_note': 'Trusted: Lean kernel (axioms propext, Classical.choice, Quot.sound only, audited per theorem on every run); the hand-written model describes the Go code (checked differentially, not proved); Ext functions are parameters; the SDK rollback contract, KV ordering and protobuf round trip are assumed; bank/FTF are a ledger written from their source.',
                'technique': 'Lean 4 proof (induction / invariants / refinement) over a hand-written executable model + Go<->Lean correspondence check + regenerated source facts',
            })
        else:
            na.append({'property_id': pid, 'reason': P.NOT_READY.get(pid, 'theorems not written yet; see DESIGN.md section 13')})
    m = {'version': 1,
         'setup_cmd': 'python3 bin/setup.py',
         'hooks': {'guard': 'verif', 'enable': 'the Go harness is built with `go build -tags verif` against /repo (bin/build_harness.sh)',
                   'baseline_off_cmd': 'cd /repo && go test -vet=off -count=1 ./x/...',
                   'source_commits': P.HOOK_COMMITS, 'add_only': True},
         'engines': [{'name': 'lean4-model+go-correspondence', 'path': 'lean/ harness/ extract/ bin/',
                      'serves_properties': [c['property_id'] for c in claimed],
                      'kind_free_text': 'Lean 4 model and theorems (lean/), Go harness running the real keeper (harness/), source-fact extractor (extract/), orchestration (bin/check.py)'}],
         'checks': claimed,
         'not_applicable': na,
         'notes': 'See DESIGN.md. Known findings: known_findings.jsonl. Seeded changes used to test the checks: seeded/.'}
    json.dump(m, open(os.path.join(ROOT, 'MANIFEST.json'), 'w'), indent=1)
    print('claimed', [c['property_id'] for c in claimed], 'not', [n['property_id'] for n in na])

main()
