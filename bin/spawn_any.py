#!/usr/bin/env python3
"""usage: spawn_any.py <tag> "<theme>"  -- a fresh sub-agent gets ALL 20 property texts and may break any of them; theme steers variety."""
import json, os, subprocess, sys
tag, theme = sys.argv[1], sys.argv[2]
ROOT = os.path.dirname(os.path.dirname(os.path.abspath(__file__)))
props = [json.loads(l) for l in open(os.path.join(ROOT, 'properties.jsonl'))]
text = "\n\n".join("%s — %s\nStatement: %s\nQuantifier: %s" % (p['id'], p['title'], p['statement'], p['quantifier']['text'] if isinstance(p['quantifier'], dict) else p['quantifier']) for p in props)
wt, out = '/tmp/wt_' + tag, '/tmp/out_' + tag
subprocess.run(['git', '-C', '/repo', 'worktree', 'add', '-q', wt, 'HEAD'], check=True)
os.makedirs(out, exist_ok=True)
prompt = f"""You are helping to test a verification framework by seeding a realistic bug. Work ONLY inside the git worktree {wt} (a checkout of the Go repository circlefin/noble-cctp, a Cosmos-SDK module implementing Circle's Cross-Chain Transfer Protocol; the module code is under x/cctp). Do not touch /repo or /verif, and do not read anything under /verif.

The following 20 semantic properties are supposed to hold of the code:

{text}

Your task: make a small, realistic change to the non-test Go source under {wt}/x/cctp (the kind of slip a maintainer could make in a refactor, a 'small optimisation', a dependency-API migration or a feature tweak) that BREAKS AT LEAST ONE of these properties — you choose which — while
  (a) the code still compiles: `cd {wt} && go build ./x/...`
  (b) the existing test suite still passes completely, unedited: `cd {wt} && go test -vet=off -count=1 ./x/...`  (do not edit or delete any existing *_test.go file)
  (c) the breakage needs something SPECIFIC to manifest — a particular multi-step sequence of operations, an unusual input or boundary value, a particular position in a list, a particular combination of state, or two cooperating code sites that each look fine alone — not something that ordinary use would expose at once.
Theme for this attempt (to keep different attempts apart): {theme}. Be inventive and unpredictable within the theme; prefer a spot and a trigger that a reviewer would wave through.

Also write a demonstration: a NEW Go test file (e.g. x/cctp/keeper/zz_demo_{tag}_test.go, using the repo's own test helpers under testutil/ and the patterns of the existing tests) containing a test that FAILS with your change and PASSES on the original code. Verify both claims yourself: run the demo test with your change (must fail), then revert the source change with `git diff -- x/ ":!*_test.go" > {out}/patch.diff && git apply -R {out}/patch.diff` (keep the demo), run it again (must pass), then re-apply with `git apply {out}/patch.diff`. Do NOT use `git stash` (it is shared between sibling worktrees).

Semantics note: on chain, every message runs on a branch of the state that is committed only if the handler returns no error; store writes and events of a handler call that returns an error (or panics) are discarded. So a breakage that only corrupts state on a path that then returns an error does NOT count — the property must be violated by the committed outcome of transactions (or by queries, decoders, genesis import/export, as the property says). State kept outside the store (Go memory) is NOT rolled back.

Environment notes: no network; all Go dependencies are in the module cache. Run go commands from inside {wt} with the default environment (do NOT set GOFLAGS=-mod=mod there; the repo uses a go.work file). The full suite takes about 15 seconds.

When done, leave the worktree with your source change and the demo test in place (uncommitted), and ALSO write:
  {out}/patch.diff   — `git diff` of the non-test source change only
  {out}/demo_test.go — a copy of your demo test file, with a first-line comment giving the path where it lives in the repo
  {out}/README.md    — 5-15 lines: which property (id) you broke and which clause, what you changed, why it breaks it, what exactly is needed for it to manifest, and the commands you ran with their outcomes.
Keep the change minimal. Your final answer: the property id(s) broken, a short summary of the change and of what it needs to manifest.
"""
pf = '/tmp/prompt_%s.txt' % tag
open(pf, 'w').write(prompt)
print(pf)
