#!/usr/bin/env python3
"""Offline set-up after a fresh restore: build the extractor, the Lean library + driver, the Go harness."""
import os, subprocess, sys
HERE = os.path.dirname(os.path.abspath(__file__)); ROOT = os.path.dirname(HERE)
sys.path.insert(0, HERE)
import check
def main():
    os.makedirs(check.WORK, exist_ok=True)
    with check.Lock('build'):
        check.run_extractor()
        r = subprocess.run(['lake', 'build', 'Cctp', 'driver'] + ['Cctp.Props.' + f[:-5] for f in sorted(os.listdir(os.path.join(check.LEAN, 'Cctp', 'Props'))) if f.endswith('.lean')],
                           cwd=check.LEAN, capture_output=True, text=True)
        if r.returncode != 0:
            print(r.stdout[-5000:], r.stderr[-5000:]); sys.exit(1)
        check.build_harness()
    print('setup ok')
main()
