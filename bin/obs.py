"""Parsing, canonicalisation and comparison of observation lines (implementation vs model).

Comparison rule (DESIGN.md 5.4): compare what the properties talk about, nothing else.
  * always: the outcome class ok / err / panic
  * successful tx: response, events (as a multiset), dependency calls, and the state after (dump)
  * failed tx: nothing else (the dump that follows shows nothing was committed)
  * never: error texts, '#...' evidence-only fields, write logs (C15 is an upper bound, checked separately)
"""
import re

def parse_fields(line):
    """'out=ok resp=.. k=v ...' -> dict; fields starting with '#' are evidence-only."""
    d = {}
    for tok in line.split():
        if '=' in tok:
            k, v = tok.split('=', 1)
            d[k] = v
        else:
            d[tok] = ''
    return d

def canon_ledger(s):
    if s in ('-', ''):
        return ()
    return tuple(sorted(x for x in s.split(';') if not x.endswith('=0')))

def canon_obs(kind, line):
    """Canonical comparable form of an observation line for an op of the given kind."""
    f = parse_fields(line)
    f = {k: v for k, v in f.items() if not k.startswith('#')}
    if kind == 'dump':
        return {'store': f.get('store', ''), 'ledger': canon_ledger(f.get('ledger', '-')),
                'supply': canon_ledger(f.get('supply', '-'))}
    if kind == 'tx':
        out = f.get('out', '?')
        if out != 'ok':
            return {'out': out}
        evs = f.get('events', '-')
        evs = tuple(sorted(evs.split('|'))) if evs != '-' else ()
        return {'out': out, 'resp': f.get('resp', '-'), 'events': evs, 'deps': f.get('deps', '-')}
    out = f.get('out', None)
    if out is not None and out != 'ok':
        return {'out': out}
    return f

def op_kind(opline):
    p = opline.split()
    if not p:
        return ('', '')
    if p[0] in ('tx', 'query', 'sim') and len(p) > 1:
        return (p[0], p[1])
    return (p[0], '')

def compare(ops, impl, model):
    """Yield (index, kind, sub, field, impl_value, model_value) for every disagreement."""
    n = min(len(ops), len(impl), len(model))
    for i in range(n):
        kind, sub = op_kind(ops[i])
        if kind in ('', '#'):
            continue
        if kind == 'sim':
            kind = 'tx'  # a simulated (discarded) transaction reports the same observation line as a delivered one
        a = canon_obs(kind, impl[i])
        b = canon_obs(kind, model[i])
        if a != b:
            keys = sorted(set(a) | set(b), key=lambda k: (k != 'out', k))
            for k in keys:
                if a.get(k) != b.get(k):
                    yield (i, kind, sub, k, a.get(k), b.get(k))
                    break
    if not (len(ops) == len(impl) == len(model)):
        yield (n, 'length', '', 'lines', len(impl), len(model))

def store_entries(dump_line):
    f = parse_fields(dump_line)
    s = f.get('store', '-')
    if s in ('-', ''):
        return {}
    out = {}
    for ent in s.split(';'):
        k, v = ent.split('=', 1)
        out[k] = v
    return out
