#!/bin/bash
# usage: runscn.sh <scenario> <seed> <budget> [arg]  -- dev helper: run scenario on impl + model and compare
s=$1; seed=${2:-1}; b=${3:-2000}; arg=${4:-}
d=/verif/.work/t; mkdir -p $d
/verif/.work/harness.bin run --scenario $s --seed $seed --budget $b --ops $d/$s.ops --obs $d/$s.impl --stats $d/$s.stats ${arg:+--arg $arg} || exit 1
/verif/lean/.lake/build/bin/driver < $d/$s.ops > $d/$s.model || exit 1
python3 /verif/bin/cmpfiles.py $d/$s.ops $d/$s.impl $d/$s.model 3 | cut -c1-900
echo "ops: $(wc -l < $d/$s.ops) panics: $(grep -c 'out=panic' $d/$s.impl) oracle-miss: $(grep -c oracle-miss $d/$s.model)"
