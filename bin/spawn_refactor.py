#!/usr/bin/env python3
"""usage: spawn_refactor.py <tag> "<focus>"   e.g.  spawn_refactor.py R4 "x/cctp/genesis.go and x/cctp/types/genesis.go"
Creates a scratch worktree /tmp/wt_<tag> of /repo and prints the path of a prompt for a fresh sub-agent that is to
produce a behaviour-preserving refactoring (a sample on which every check must stay silent).  Nothing from /verif."""
import os, subprocess, sys
tag, focus = sys.argv[1], sys.argv[2]
wt, out = '/tmp/wt_' + tag, '/tmp/out_' + tag
subprocess.run(['git', '-C', '/repo', 'worktree', 'add', '-q', wt, 'HEAD'], check=True)
os.makedirs(out, exist_ok=True)
prompt = f"""You are helping to test a verification framework for false alarms. Work ONLY inside the git worktree {wt} (a checkout of the Go repository circlefin/noble-cctp, a Cosmos-SDK module implementing Circle's Cross-Chain Transfer Protocol; the module code is under x/cctp). Do not touch /repo or /verif, and do not read anything under /verif.

Your task: make a substantial BEHAVIOUR-PRESERVING refactoring of the non-test Go source under {wt}/x/cctp, concentrated on: {focus}. Aim for 100-300 changed lines of the kind a maintainer does in a clean-up: extract shared helpers, inline temporaries, rename locals and unexported identifiers, reorder independent pure checks where no store read, panic or error class can be affected, replace hand-rolled loops by equivalent library calls (or the reverse), restructure if/else chains, change how byte slices are assembled while producing byte-identical results, change error message wording (but keep each error's registered error type/code and keep exactly which inputs are rejected), introduce small generic helpers, move code between files of the same package.

It MUST preserve, for every input and every state:
  - which calls succeed, which return an error, which panic (error TEXT may change; the error class ok/error/panic may not);
  - responses, emitted events and their attributes, the exact store keys and values written and deleted by successful calls, the arguments and order of calls to the bank and fiat-token-factory dependencies (including on failing paths);
  - all encoders/decoders byte for byte, genesis validation/import/export results, every query result including pagination;
  - exported identifiers and signatures used by other packages and by tests (the file x/cctp/client/cli/export_verif.go, build tag `verif`, references cli.parseAddress: keep that name).
Do not change *_test.go files, generated files (*.pb.go, *.pulsar.go), go.mod/go.sum, or anything outside x/cctp.

Requirements: `cd {wt} && go build ./x/... && go build -tags verif ./x/...` succeed; `cd {wt} && go test -vet=off -count=1 ./x/...` passes with the tests unedited. Be careful and conservative about semantics: if you are not sure a rewrite is equivalent for ALL inputs (nil vs empty slices where observable, integer widths, slice aliasing, panics on short inputs, map/iteration order, evaluation order of store reads), do not make it. Do NOT use `git stash` (it is shared between sibling worktrees). Run go commands with the default environment (do not set GOFLAGS; the repo uses go.work); there is no network.

When done, leave the change uncommitted in the worktree and write:
  {out}/patch.diff — `git diff` of your change
  {out}/README.md  — a numbered list of the refactorings, each with a one-sentence reason why it cannot change behaviour.
Your final answer: a short summary of what you changed."""
pf = '/tmp/prompt_%s.txt' % tag
open(pf, 'w').write(prompt)
print(pf)
