#!/bin/bash
# usage: keep_seed.sh <out dir> <seed id e.g. C11-b> <property> <needs> <caught_by> [is_violation=true]
# Stores a confirmed seeded change under /verif/seeded/<id>/ with its meta.json.
set -eu
D="$1"; ID="$2"; P="$3"; NEEDS="$4"; BY="$5"; ISV="${6:-true}"
T=/verif/seeded/$ID
mkdir -p "$T"
cp "$D/patch.diff" "$D/demo_test.go" "$T/"
[ -f "$D/README.md" ] && cp "$D/README.md" "$T/"
python3 - "$T" "$ID" "$P" "$NEEDS" "$BY" "$ISV" <<'PY'
import json, sys
t, i, p, needs, by, isv = sys.argv[1:7]
json.dump({
 "property": p,
 "source": "fresh sub-agent given only the property text (plus, for -b/-c variants, a hint which spot had been used already) and its own scratch worktree",
 "needs_to_manifest": needs,
 "confirmed": "bin/try_seed.sh: patch applies to HEAD of /repo in a scratch worktree, compiles, existing suite passes with it, demo test fails with it and passes without it",
 "ran": "bin/try_seed.sh /verif/seeded/%s quick %s" % (i, p),
 "caught_by": by,
 "is_violation": isv == "true",
}, open(t + "/meta.json", "w"), indent=1)
PY
echo kept $T
