#!/usr/bin/env python3
"""usage: spawn_preserving.py <tag> "<theme>"  -- a fresh sub-agent gets ALL 20 property texts and must make an OBSERVABLE behaviour
change that violates NONE of them (a sample on which every check must stay silent although behaviour changed)."""
import json, os, subprocess, sys
tag, theme = sys.argv[1], sys.argv[2]
ROOT = os.path.dirname(os.path.dirname(os.path.abspath(__file__)))
props = [json.loads(l) for l in open(os.path.join(ROOT, 'properties.jsonl'))]
text = "\n\n".join("%s — %s\nStatement: %s\nQuantifier: %s" % (p['id'], p['title'], p['statement'], p['quantifier']['text'] if isinstance(p['quantifier'], dict) else p['quantifier']) for p in props)
wt, out = '/tmp/wt_' + tag, '/tmp/out_' + tag
subprocess.run(['git', '-C', '/repo', 'worktree', 'add', '-q', wt, 'HEAD'], check=True)
os.makedirs(out, exist_ok=True)
prompt = f"""You are helping to test a verification framework for FALSE ALARMS. Work ONLY inside the git worktree {wt} (a checkout of the Go repository circlefin/noble-cctp, a Cosmos-SDK module implementing Circle's Cross-Chain Transfer Protocol; the module code is under x/cctp). Do not touch /repo or /verif, and do not read anything under /verif.

The following 20 semantic properties hold of the code and MUST CONTINUE TO HOLD after your change:

{text}

Your task: make a change to the non-test Go source under {wt}/x/cctp that DOES change observable behaviour in some way, but violates NONE of the 20 properties above — the kind of change a maintainer ships in a minor release. Theme for this attempt: {theme}. Examples of the genre (pick within the theme, combine several, 60-200 changed lines): different error messages or a different registered error code for a rejection that stays a rejection; extra diagnostics (logger calls, telemetry counters kept out of consensus state); a different ORDER in which two events of one transaction are emitted, or in which two independent checks are made when both lead to a rejection; additional read-only store accesses; different gas use; stricter or laxer handling in places NO property constrains (e.g. CLI flags and help texts, amino/legacy codec names, module wiring, doc strings, AutoCLI options); performance rewrites with identical results. Think carefully about each property — in particular the 'exactly when' properties (C03, C08) fix precisely which inputs are accepted, C15 fixes which store entries may be written, C06/C04 fix event CONTENTS (not order), C18 forbids new sources of nondeterminism, C20 forbids new panics, C17 fixes genesis defaults — and do not touch what they pin down.
Do not change *_test.go files, generated files (*.pb.go, *.pulsar.go), proto files, go.mod/go.sum, or anything outside x/cctp; keep exported identifiers used by tests and the file x/cctp/client/cli/export_verif.go (build tag verif; it references cli.parseAddress).

Requirements: `cd {wt} && go build ./x/... && go build -tags verif ./x/...` succeed; `cd {wt} && go test -vet=off -count=1 ./x/...` passes with the tests unedited (if a test pins an error text or an order you wanted to change, leave that one alone). Do NOT use `git stash`. Run go commands with the default environment (the repo uses go.work); there is no network.

When done, leave the change uncommitted in the worktree and write:
  {out}/patch.diff — `git diff` of your change
  {out}/README.md  — a numbered list of the behaviour changes, and for each one sentence on WHICH observable behaviour changed and why none of the 20 properties is affected.
Your final answer: a short summary."""
pf = '/tmp/prompt_%s.txt' % tag
open(pf, 'w').write(prompt)
print(pf)
