"""Per-property configuration: scenarios, projections (what is compared), direct monitors, signatures."""
import json, os, re
import obs as O

TRUSTED_BASE = [
    "Lean 4.33 kernel; axioms per theorem limited to propext, Classical.choice, Quot.sound (audited by #print axioms on every run)",
    "the hand-written Lean model describes /repo's Go code: CHECKED by the correspondence run (differential, bounded by the generators), not proved",
    "Ext parameters (Keccak-256, secp256k1 recovery, bech32, Unicode case mapping, denom validation, base58): theorems hold for every Ext; executable instances are native Lean (differentially tested) or, for ecrecover and non-ASCII case mapping, supplied by the Go libraries",
    "SDK contracts assumed by `deliver`: a failed message's branch (writes, events) is discarded; KV iteration is lexicographic; protobuf round-trips stored values; `from` is the signer",
    "bank / fiat-token-factory are represented by a ledger written from reading their source; the Go fakes implement the same semantics",
    "tooling: extractor, Go harness (incl. canonicalisation), bin/check.py, the driver's parser/printer",
]

USER_FLOWS = ['SendMessage', 'SendMessageWithCaller', 'DepositForBurn', 'DepositForBurnWithCaller', 'ReceiveMessage',
              'ReplaceMessage', 'ReplaceDepositForBurn']
ADMIN = ['AcceptOwner', 'AddRemoteTokenMessenger', 'DisableAttester', 'EnableAttester', 'LinkTokenPair', 'PauseBurningAndMinting',
         'PauseSendingAndReceivingMessages', 'RemoveRemoteTokenMessenger', 'UnlinkTokenPair', 'UnpauseBurningAndMinting',
         'UnpauseSendingAndReceivingMessages', 'UpdateOwner', 'UpdateAttesterManager', 'UpdateTokenController', 'UpdatePauser',
         'UpdateMaxMessageBodySize', 'SetMaxBurnAmountPerMessage', 'UpdateSignatureThreshold']
PRODUCERS = ['SendMessage', 'SendMessageWithCaller', 'DepositForBurn', 'DepositForBurnWithCaller']
REPLACERS = ['ReplaceMessage', 'ReplaceDepositForBurn']
DEPOSITS = ['DepositForBurn', 'DepositForBurnWithCaller']

def alt(l):
    return '(' + '|'.join(l) + ')'

# Each property: level, scenarios [(name, quick budget, thorough budget, arg)], tags = regexes over mismatch tags
# (what the property talks about), only_impl_ok = tags compared only when the implementation is the more
# permissive side (for "only if" statements).
PROPS = {
    'C01': dict(level='proof', scenarios=[('attest', 1500, 20000, ''), ('history', 2500, 20000, 'recv'), ('attesters', 800, 8000, ''), ('selftest', 600, 6000, '')],
                tags=[r'^verify$', r'^tx:(ReceiveMessage|ReplaceMessage|ReplaceDepositForBurn):out$',
                      # "currently enabled attester" / "threshold" are what the enable / disable / threshold transactions left in the store
                      r'^tx:(EnableAttester|DisableAttester|UpdateSignatureThreshold):out$',
                      r'^after:tx:(EnableAttester|DisableAttester|UpdateSignatureThreshold):store:(Attester|SignatureThreshold)$'],
                ops=[('verify', ''), ('tx', 'ReceiveMessage'), ('tx', 'ReplaceMessage'), ('tx', 'ReplaceDepositForBurn')]),
    'C02': dict(level='proof', scenarios=[('history', 4000, 30000, 'recv'), ('bulk', 300, 3000, ''), ('selftest', 300, 3000, '')],
                tags=[r'^tx:ReceiveMessage:out$', r'^query:UsedNonces?$', r'^store:UsedNonce$', r'^genesis-export:used$', r'^key$'],
                ops=[('tx', 'ReceiveMessage'), ('query', 'UsedNonce'), ('query', 'UsedNonces'), ('key', ''), ('genesis-export', '')]),
    'C03': dict(level='proof', scenarios=[('recvmatrix', 3000, 40000, ''), ('history', 2500, 20000, 'recv')],
                tags=[r'^tx:ReceiveMessage:(out|deps)$', r'^after:tx:ReceiveMessage:(store:UsedNonce|ledger|supply)$'],
                ops=[('tx', 'ReceiveMessage')]),
    'C04': dict(level='proof', scenarios=[('history', 4000, 30000, 'recv'), ('recvmatrix', 1500, 20000, '')],
                tags=[r'^tx:[A-Za-z]+:deps$', r'^ev:(MintAndWithdraw|MessageReceived)$', r'^ledger$', r'^supply$'],
                ops=[('tx', 'ReceiveMessage')]),
    'C05': dict(level='proof', scenarios=[('history', 4000, 30000, 'send'), ('depmatrix', 1500, 20000, ''), ('replace', 1500, 20000, '')],
                tags=[r'^tx:' + alt(PRODUCERS + REPLACERS) + r':deps$', r'^ev:MessageSent$', r'^ledger$', r'^supply$'],
                # an emitting transaction that succeeds where it must not emits a message the property forbids
                only_impl_ok=[r'^tx:' + alt(PRODUCERS + REPLACERS) + r':out$'],
                ops=[('tx', t) for t in PRODUCERS + REPLACERS]),
    'C06': dict(level='proof', scenarios=[('history', 4000, 30000, 'send'), ('depmatrix', 1500, 20000, ''), ('replace', 1500, 20000, '')],
                tags=[r'^tx:' + alt(PRODUCERS + REPLACERS) + r':resp$', r'^ev:(MessageSent|DepositForBurn)$'],
                # a transaction that emits where the model emits nothing has emitted a message nobody requested in that form
                only_impl_ok=[r'^tx:' + alt(PRODUCERS + REPLACERS) + r':out$'],
                ops=[('tx', t) for t in PRODUCERS + REPLACERS]),
    'C07': dict(level='proof', scenarios=[('nonces', 2500, 30000, ''), ('history', 2500, 20000, 'send')],
                tags=[r'^tx:' + alt(PRODUCERS + REPLACERS) + r':(out|resp)$', r'^ev:MessageSent$', r'^query:NextAvailableNonce$', r'^store:NextAvailableNonce$'],
                ops=[('tx', t) for t in PRODUCERS + REPLACERS] + [('query', 'NextAvailableNonce')]),
    'C08': dict(level='proof', scenarios=[('depmatrix', 3000, 40000, ''), ('history', 2000, 20000, 'send')],
                tags=[r'^tx:' + alt(DEPOSITS) + r':out$'],
                ops=[('tx', t) for t in DEPOSITS]),
    'C09': dict(level='proof', scenarios=[('replace', 3000, 40000, ''), ('history', 2500, 30000, 'replace')],
                tags=[r'^tx:' + alt(REPLACERS) + r':(resp|deps)$', r'^after:tx:' + alt(REPLACERS) + r':.*$', r'^replace:ev:(MessageSent|DepositForBurn)$'],
                only_impl_ok=[r'^tx:' + alt(REPLACERS) + r':out$'],
                ops=[('tx', t) for t in REPLACERS]),
    'C10': dict(level='proof', scenarios=[('roles', 3000, 40000, ''), ('history', 2000, 20000, 'admin')],
                tags=[r'^after:tx:' + alt(ADMIN) + r':store:.*$'],
                only_impl_ok=[r'^tx:' + alt(ADMIN) + r':out$'],
                ops=[('tx', t) for t in ADMIN]),
    'C11': dict(level='proof', scenarios=[('roles', 3000, 40000, 'lifecycle'), ('history', 2000, 20000, 'admin')],
                tags=[r'^tx:(UpdateOwner|AcceptOwner|UpdateAttesterManager|UpdatePauser|UpdateTokenController):out$', r'^store:role$', r'^query:Roles$'],
                ops=[('tx', t) for t in ['UpdateOwner', 'AcceptOwner', 'UpdateAttesterManager', 'UpdatePauser', 'UpdateTokenController']] + [('query', 'Roles')]),
    'C12': dict(level='proof', scenarios=[('pause', 2500, 30000, ''), ('history', 2000, 20000, '')],
                tags=[r'^tx:' + alt(USER_FLOWS + ['PauseBurningAndMinting', 'PauseSendingAndReceivingMessages', 'UnpauseBurningAndMinting', 'UnpauseSendingAndReceivingMessages']) + r':out$',
                      r'^store:flag$', r'^query:(BurningAndMintingPaused|SendingAndReceivingMessagesPaused)$'],
                ops=[('tx', t) for t in USER_FLOWS] + [('tx', 'PauseBurningAndMinting'), ('tx', 'UnpauseBurningAndMinting'),
                     ('tx', 'PauseSendingAndReceivingMessages'), ('tx', 'UnpauseSendingAndReceivingMessages')]),
    'C13': dict(level='proof', scenarios=[('attesters', 2500, 30000, ''), ('history', 2000, 20000, 'admin')],
                tags=[r'^tx:(EnableAttester|DisableAttester|UpdateSignatureThreshold):out$', r'^store:(Attester|SignatureThreshold)$', r'^query:(Attesters?|SignatureThreshold)$'],
                ops=[('tx', 'EnableAttester'), ('tx', 'DisableAttester'), ('tx', 'UpdateSignatureThreshold')]),
    'C14': dict(level='proof', scenarios=[('faults', 3000, 40000, ''), ('history', 2000, 20000, 'faults')],
                tags=[r'^tx:' + alt(DEPOSITS + ['ReceiveMessage']) + r':(out|deps)$', r'^after:tx:' + alt(DEPOSITS + ['ReceiveMessage']) + r':.*$'],
                ops=[('tx', t) for t in DEPOSITS + ['ReceiveMessage']]),
    'C15': dict(level='proof', scenarios=[('history', 5000, 40000, '')],
                tags=[],
                ops=[('tx', t) for t in USER_FLOWS + ADMIN] + [('query', None), ('genesis-export', '')]),
    'C16': dict(level='proof', scenarios=[('codec', 4000, 60000, '')],
                tags=[r'^msg-parse$', r'^msg-bytes$', r'^burn-parse$', r'^burn-bytes$'],
                ops=[('msg-parse', ''), ('msg-bytes', ''), ('burn-parse', ''), ('burn-bytes', '')]),
    'C17': dict(level='proof', scenarios=[('genesis', 2500, 30000, ''), ('history', 1500, 15000, 'export'), ('bulk', 300, 3000, '')],
                tags=[r'^genesis-validate$', r'^genesis-init$', r'^genesis-export(:.*)?$', r'^after:genesis-init:.*$', r'^roundtrip$'],
                # genesis-default is NOT a comparison key: what the default genesis contains is governed by no property; the ops
                # that follow it (validate, init, export, re-import) take the implementation's own default as their input
                ops=[('genesis-validate', ''), ('genesis-init', ''), ('genesis-export', '')]),
    'C18': dict(level='other', scenarios=[('history', 3000, 20000, '')],
                # agreement with the model on everything the properties pin down; the CONTENT of events that no property
                # constrains (those of administrative actions, diagnostics) is compared replay against replay only
                tags=[r'^(?!ev:)(?!tx:[A-Za-z]+:events$).*$', r'^ev:(MessageSent|DepositForBurn|MintAndWithdraw|MessageReceived)$'],
                ops=[('tx', None), ('query', None)],
                explanation='see DESIGN.md C18: determinism is shown by agreement of every replay with the (functional) Lean model plus replay-vs-replay comparison of app hash, responses and events; scheduler/map-order effects are explored, not proved'),
    'C19': dict(level='proof', scenarios=[('registry', 3000, 40000, ''), ('history', 2500, 20000, 'query'), ('bulk', 300, 3000, ''), ('selftest', 300, 3000, '')],
                tags=[r'^query:.*$', r'^key$', r'^ext:tokenPadded$', r'^store:(Attester|PerMessageBurnLimit|TokenPair|RemoteTokenMessenger|UsedNonce)$',
                      r'^tx:(EnableAttester|DisableAttester|LinkTokenPair|UnlinkTokenPair|AddRemoteTokenMessenger|RemoveRemoteTokenMessenger|SetMaxBurnAmountPerMessage):out$'],
                ops=[('query', None), ('key', '')]),
    'C20': dict(level='proof', scenarios=[('crash', 3000, 40000, ''), ('history', 2500, 20000, ''), ('codec', 1000, 10000, ''), ('selftest', 500, 5000, '')],
                tags=[r'^panic$'],
                ops=[('tx', None), ('query', None), ('msg-parse', ''), ('burn-parse', ''), ('cli-parse', ''), ('verify', '')]),
}


def load_known_findings(path):
    out = {}
    if os.path.exists(path):
        for l in open(path):
            l = l.strip()
            if not l or l.startswith('#') or l.startswith('fixed:'):
                continue
            try:
                j = json.loads(l)
            except Exception:
                continue
            out[(j['property'], j['signature'])] = j
    return out


# ---- every specialised matrix whose transactions a property talks about runs for that property too ----
# (seeds C02-c, C06-c and C14-c were first missed only because the generator that exposes them lived in another
#  property's scenario list)
ADMIN_ROLE_TXS = ['UpdateOwner', 'AcceptOwner', 'UpdateAttesterManager', 'UpdatePauser', 'UpdateTokenController']
REGISTRY_TXS = ['EnableAttester', 'DisableAttester', 'AddRemoteTokenMessenger', 'RemoveRemoteTokenMessenger', 'LinkTokenPair',
                'UnlinkTokenPair', 'SetMaxBurnAmountPerMessage']
SCENARIO_TXS = {
    'recvmatrix': (['ReceiveMessage'], ''), 'depmatrix': (DEPOSITS, ''), 'replace': (REPLACERS, ''),
    'faults': (DEPOSITS + ['ReceiveMessage'], ''), 'nonces': (PRODUCERS + REPLACERS, ''),
    'pause': (['PauseBurningAndMinting', 'UnpauseBurningAndMinting', 'PauseSendingAndReceivingMessages', 'UnpauseSendingAndReceivingMessages'], ''),
    'roles': (ADMIN_ROLE_TXS, 'lifecycle'), 'attesters': (['EnableAttester', 'DisableAttester', 'UpdateSignatureThreshold'], ''),
    'registry': (REGISTRY_TXS, ''),
    # multi-message transactions: every property that talks about transactions holds of them too
    'batch': (USER_FLOWS + ADMIN, ''),
}
for _pid, _spec in PROPS.items():
    _have = set(sc[0] for sc in _spec['scenarios'])
    _txs = set(s for (k, s) in _spec.get('ops', []) if k == 'tx')
    for _scn, (_ts, _arg) in SCENARIO_TXS.items():
        if _scn not in _have and _txs & set(_ts):
            _spec['scenarios'].append((_scn, 1200, 6000, _arg))
    if 'bulk' not in _have and any(k in ('genesis-export', 'genesis-init') or (k == 'query' and (s or '').endswith('s') and s != 'Roles') for (k, s) in _spec.get('ops', [])):
        _spec['scenarios'].append(('bulk', 300, 3000, ''))


PROPS['C15']['scenarios'].append(('genesis', 1200, 8000, ''))
PROPS['C19']['scenarios'].append(('genesis', 600, 6000, ''))
PROPS['C20']['scenarios'].append(('genesis', 600, 6000, ''))
for _pid in ('C18', 'C19', 'C20'):
    PROPS[_pid]['scenarios'].append(('batch', 1200, 6000, ''))
PROPS['C18'].setdefault('thorough_reps', 8)
for _scn, _arg in [('recvmatrix', ''), ('depmatrix', ''), ('replace', ''), ('roles', 'lifecycle'), ('nonces', ''), ('faults', '')]:
    PROPS['C18']['scenarios'].append((_scn, 500, 4000, _arg))
PROPS['C20'].setdefault('thorough_reps', 12)
for _scn in ['recvmatrix', 'depmatrix', 'replace', 'registry', 'attesters', 'bulk']:
    if _scn not in set(sc[0] for sc in PROPS['C20']['scenarios']):
        PROPS['C20']['scenarios'].append((_scn, 400, 4000, ''))


def relevant_op(pid, kind, sub):
    if kind == 'sim':
        kind = 'tx'
    for (k, s) in PROPS[pid].get('ops', []):
        if k == kind and (s is None or s == sub or s == ''):
            if s == '' and kind in ('tx', 'query') and sub != '':
                continue
            return True
    return False


# ---- store key classes ----

ROLE_KEYS = {b'owner', b'pending-owner', b'attester-manager', b'pauser', b'token-controller'}
SCALARS = {b'BurningAndMintingPaused/value/': 'flag', b'SendingAndReceivingMessagesPaused/value/': 'flag',
           b'MaxMessageBodySize/value/': 'MaxMessageBodySize', b'NextAvailableNonce/value/': 'NextAvailableNonce',
           b'SignatureThreshold/value/': 'SignatureThreshold'}
COLLS = {b'Attester/value/': 'Attester', b'PerMessageBurnLimit/value/': 'PerMessageBurnLimit', b'RemoteTokenMessenger/value/': 'RemoteTokenMessenger',
         b'TokenPair/value/': 'TokenPair', b'UsedNonce/value/': 'UsedNonce'}


def key_class(hexkey):
    try:
        k = bytes.fromhex(hexkey)
    except ValueError:
        return 'unknown'
    if k in ROLE_KEYS:
        return 'role'
    for p, c in SCALARS.items():
        if k.startswith(p):
            return c
    for p, c in COLLS.items():
        if k.startswith(p):
            return c
    return 'unknown'


def prev_op(ops, i):
    j = i - 1
    while j >= 0:
        k, s = O.op_kind(ops[j])
        if k not in ('dump', '#', '') and not (k == 'query'):
            return k, s, j
        j -= 1
    return '', '', -1


def event_names_diff(a, b):
    from collections import Counter
    ca, cb = Counter(a or ()), Counter(b or ())
    names = set()
    for e in (ca - cb) + (cb - ca):
        names.add(e.split('{', 1)[0])
    return names


def mismatch_tags(d, ops, impl, model):
    i, kind, sub, field, a, b = d
    tags = set()
    if kind == 'tx':
        ca, cb = O.canon_obs('tx', impl[i]), O.canon_obs('tx', model[i])
        if ca.get('out') != cb.get('out'):
            tags.add('tx:%s:out' % sub)
        else:
            tags.add('tx:%s:%s' % (sub, field))
        if ca.get('out') == 'ok' and cb.get('out') == 'ok':
            for f in ('resp', 'deps'):
                if ca.get(f) != cb.get(f):
                    tags.add('tx:%s:%s' % (sub, f))
            for n in event_names_diff(ca.get('events'), cb.get('events')):
                tags.add('ev:' + n)
                if sub in REPLACERS:
                    tags.add('replace:ev:' + n)
        if 'panic' in (ca.get('out'), cb.get('out')):
            tags.add('panic')
    elif kind == 'dump':
        ca, cb = O.canon_obs('dump', impl[i]), O.canon_obs('dump', model[i])
        pk, ps, pj = prev_op(ops, i)
        afters = ['after:%s:%s' % (pk, ps) if ps else 'after:%s' % pk]
        if pk == 'end':
            # the state after a multi-message transaction is the state after each of its messages
            j = pj - 1
            while j >= 0 and O.op_kind(ops[j])[0] not in ('begin', 'end', 'config'):
                k2, s2 = O.op_kind(ops[j])
                if k2 == 'tx':
                    afters.append('after:tx:%s' % s2)
                j -= 1
        if ca['store'] != cb['store']:
            ea, eb = O.store_entries(impl[i]), O.store_entries(model[i])
            for k in set(ea) | set(eb):
                if ea.get(k) != eb.get(k):
                    c = key_class(k)
                    tags.add('store:' + c)
                    for after in afters:
                        tags.add(after + ':store:' + c)
        if ca['ledger'] != cb['ledger']:
            tags.add('ledger')
            for after in afters:
                tags.add(after + ':ledger')
        if ca['supply'] != cb['supply']:
            tags.add('supply')
            for after in afters:
                tags.add(after + ':supply')
    elif kind == 'query':
        tags.add('query:' + sub)
        if 'panic' in (O.parse_fields(impl[i]).get('out'), O.parse_fields(model[i]).get('out')):
            tags.add('panic')
    elif kind == 'genesis-export':
        tags.add('genesis-export')
        fa, fb = O.parse_fields(impl[i]), O.parse_fields(model[i])
        for k in set(fa) | set(fb):
            if not k.startswith('#') and fa.get(k) != fb.get(k):
                tags.add('genesis-export:' + k)
    else:
        tags.add(kind)
        if kind == 'ext':
            m = re.search(r' fn=(\S+)', ops[i])
            tags.add('ext:' + (m.group(1) if m else '?'))
        if 'panic' in (O.parse_fields(impl[i]).get('out'), O.parse_fields(model[i]).get('out')):
            tags.add('panic')
    return tags


def relevant_mismatch(pid, d, ops, impl, model):
    spec = PROPS[pid]
    tags = mismatch_tags(d, ops, impl, model)
    for t in tags:
        for pat in spec.get('tags', []):
            if re.match(pat, t):
                return True
        for pat in spec.get('only_impl_ok', []):
            if re.match(pat, t):
                i = d[0]
                if O.parse_fields(impl[i]).get('out') == 'ok' and O.parse_fields(model[i]).get('out') != 'ok':
                    return True
    return False


def determined(pid, d):
    """A mismatch on an observable the property pins down exactly is a concrete failing input: the model
    provably satisfies the property, the implementation behaves differently on this history."""
    return True


def signature(pid, d, ops):
    i, kind, sub, field = d[0], d[1], d[2], d[3]
    if kind == 'dump':
        pk, ps, _ = prev_op(ops, i)
        return 'correspondence:%s:state-after:%s:%s' % (pid, ps or pk, field)
    return 'correspondence:%s:%s:%s:%s' % (pid, kind, sub, field)


# ------------------------------------------------------------------------------------------------
# direct monitors: predicates of the property evaluated on the implementation's own trace

def _demote(line):
    """the observation of a message inside a transaction that was discarded as a whole: whatever it reported, nothing of
    it happened (its store writes were made on the branch, and are still subject to C15)."""
    f = O.parse_fields(line)
    if f.get('out') != 'ok':
        return line
    out = 'out=err #discarded=1'
    if f.get('writes', '-') not in ('-', ''):
        out += ' #writes=' + f['writes']
    if 'doc' in f:
        out += ' doc=' + f['doc']
    return out


def effective(ops, impl, model):
    """Multi-message transactions (`begin` .. `end`): the monitors read the trace as the chain experienced it.  Messages of a
    transaction that was discarded (a later message failed, or the history ends before `end`) count as failed, and the dumps
    and queries made on its branch are not chain states.  A committed transaction reads as its messages in sequence."""
    if not any(l.startswith('begin') for l in ops):
        return ops, impl, model
    ops2, impl2, model2 = list(ops), list(impl), list(model)
    n = min(len(ops), len(impl))

    def discard(idx):
        for j in idx:
            kind, _ = O.op_kind(ops[j])
            if kind == 'tx':
                impl2[j] = _demote(impl[j])
                if j < len(model2):
                    model2[j] = _demote(model[j])
            else:
                ops2[j] = '# (on the branch of a discarded transaction) ' + ops[j][:60]
                impl2[j] = '#'
                if j < len(model2):
                    model2[j] = '#'

    inner = None
    for i in range(n):
        kind, _ = O.op_kind(ops[i])
        if kind == 'config':
            inner = None
        elif kind == 'begin':
            if inner is None:
                inner = []
        elif kind == 'end':
            if inner is not None:
                if O.parse_fields(impl[i]).get('out') != 'committed':
                    discard(inner)
                inner = None
        elif inner is not None and kind not in ('', '#', 'sim'):
            inner.append(i)
    if inner:
        discard(inner)
    return ops2, impl2, model2


def cut_after(ops, idx):
    """where to cut a history so that op `idx` keeps its meaning: after the dump that follows it and, if it sits inside a
    multi-message transaction, after that transaction's `end` (and the dump after that)."""
    j = min(len(ops), idx + 2)
    opened = False
    for l in ops[:j]:
        k = O.op_kind(l)[0]
        if k == 'begin':
            opened = True
        elif k in ('end', 'config'):
            opened = False
    if opened:
        while j < len(ops):
            j += 1
            if O.op_kind(ops[j - 1])[0] == 'end':
                return min(len(ops), j + 1)
    return j


def monitor(pid, ops, impl, model):
    f = MONITORS.get(pid)
    if not f:
        return []
    return f(*effective(ops, impl, model))


def _kv(opline):
    return O.parse_fields(opline)


def mon_c20(ops, impl, model):
    out = []
    for i, l in enumerate(ops):
        if i >= len(impl):
            break
        kind, sub = O.op_kind(l)
        if kind in ('tx', 'query', 'msg-parse', 'burn-parse', 'cli-parse', 'verify', 'genesis-validate'):
            if O.parse_fields(impl[i]).get('out') == 'panic':
                sig = 'panic:%s:%s' % (kind, sub)
                if kind == 'query' and 'reverse=1' in l and re.search(r'\bkey=[0-9a-f]+', l):
                    sig = 'panic:query:paginate-reverse-with-key'
                out.append((i, 'the implementation panicked on: ' + l[:300], sig))
    return out



def _hexkey(b):
    return b.hex()

K_BURNP = (b'BurningAndMintingPaused/value/' * 2).hex()
K_SENDP = (b'SendingAndReceivingMessagesPaused/value/' * 2).hex()
K_NEXT = (b'NextAvailableNonce/value/' * 2).hex()
K_THR = (b'SignatureThreshold/value/' * 2).hex()
P_ATT = b'Attester/value/'.hex()
P_USED = b'UsedNonce/value/'.hex()
ROLE_OF = {}
for _t in ['UpdateOwner', 'UpdateAttesterManager', 'UpdatePauser', 'UpdateTokenController', 'UpdateMaxMessageBodySize',
           'AddRemoteTokenMessenger', 'RemoveRemoteTokenMessenger']:
    ROLE_OF[_t] = b'owner'.hex()
for _t in ['EnableAttester', 'DisableAttester', 'UpdateSignatureThreshold']:
    ROLE_OF[_t] = b'attester-manager'.hex()
for _t in ['PauseBurningAndMinting', 'UnpauseBurningAndMinting', 'PauseSendingAndReceivingMessages', 'UnpauseSendingAndReceivingMessages']:
    ROLE_OF[_t] = b'pauser'.hex()
for _t in ['LinkTokenPair', 'UnlinkTokenPair', 'SetMaxBurnAmountPerMessage']:
    ROLE_OF[_t] = b'token-controller'.hex()
ROLE_OF['AcceptOwner'] = b'pending-owner'.hex()


def walk(ops, impl):
    """Yield (i, kind, sub, opfields, implfields, store_before) where store_before is the implementation's
    own last dump (dict hexkey -> value string) before op i, or None right after a config."""
    store = None
    for i, l in enumerate(ops):
        if i >= len(impl):
            break
        kind, sub = O.op_kind(l)
        if kind in ('', '#'):
            continue
        if kind == 'config':
            store = None
        yield (i, kind, sub, _kv(l), O.parse_fields(impl[i]), store)
        if kind == 'dump':
            store = O.store_entries(impl[i])


def mon_c15(ops, impl, model):
    out = []
    for i, l in enumerate(ops):
        if i >= len(impl) or i >= len(model):
            break
        kind, sub = O.op_kind(l)
        fi = O.parse_fields(impl[i])
        if kind == 'tx':
            doc = O.parse_fields(model[i]).get('doc', '-')
            docset = set() if doc in ('-', '') else set(doc.split(','))
            w = fi.get('writes') if fi.get('out') == 'ok' else fi.get('#writes')
            if w and w != '-':
                for k in w.split(','):
                    if k not in docset:
                        out.append((i, 'tx %s wrote store key %s (class %s) outside its documented write set {%s}' % (sub, k, key_class(k), doc),
                                    'writes-outside:%s:%s' % (sub, key_class(k))))
                        break
        elif kind in ('query', 'genesis-export'):
            if '#qwrites' in fi:
                out.append((i, '%s %s wrote to the store: %s' % (kind, sub, fi['#qwrites']), 'query-writes:%s:%s' % (kind, sub)))
    return out


def _msg_pair(hexmsg):
    b = bytes.fromhex(hexmsg)
    if len(b) < 116:
        return None
    return (int.from_bytes(b[4:8], 'big'), int.from_bytes(b[12:20], 'big'))


def mon_c02(ops, impl, model):
    out = []
    succ = {}
    used_prev = None
    for (i, kind, sub, f, fi, store) in walk(ops, impl):
        if kind == 'config':
            succ = {}
            used_prev = None
        if kind == 'tx' and sub == 'ReceiveMessage' and fi.get('out') == 'ok':
            p = _msg_pair(f.get('message', ''))
            if p is not None:
                succ[p] = succ.get(p, 0) + 1
                if succ[p] > 1:
                    out.append((i, 'a second receive succeeded for (source domain, nonce) = %s' % (p,), 'double-receive'))
                if store is not None:
                    k = (b'UsedNonce/value/' + p[0].to_bytes(4, 'big') + p[1].to_bytes(8, 'big') + b'/').hex()
                    if k in store:
                        out.append((i, 'a receive succeeded for the already used pair %s' % (p,), 'receive-of-used'))
        if kind == 'dump':
            used = set(k for k in O.store_entries(impl[i]) if k.startswith(P_USED))
            if used_prev is not None and not used_prev <= used:
                out.append((i, 'a used (source domain, nonce) pair stopped being used: %s' % sorted(used_prev - used)[:2], 'used-set-shrank'))
            used_prev = used
    return out


def mon_c07(ops, impl, model):
    out = []
    expected = None
    for (i, kind, sub, f, fi, store) in walk(ops, impl):
        if kind == 'config':
            expected = None
        if kind == 'dump':
            v = O.store_entries(impl[i]).get(K_NEXT)
            cur = int(v.split(':')[2]) if v and v.startswith('nonce:') else (0 if v is None else None)
            if expected is not None and cur is not None and cur != expected:
                out.append((i, 'next-available-nonce is %s, expected %s (start + number of successful sends/deposits)' % (cur, expected), 'counter-drift'))
            expected = cur
        if kind == 'tx' and sub in PRODUCERS and fi.get('out') == 'ok' and expected is not None:
            resp = fi.get('resp', '')
            n = int(resp.split(':')[1]) if resp.startswith('nonce:') else None
            if n != expected:
                out.append((i, '%s returned nonce %s, expected %s' % (sub, n, expected), 'nonce-not-consecutive'))
            for ev in fi.get('events', '').split('|'):
                if ev.startswith('MessageSent{x'):
                    b = bytes.fromhex(ev[len('MessageSent{x'):-1])
                    if len(b) >= 20 and int.from_bytes(b[12:20], 'big') != n:
                        out.append((i, '%s: nonce in the emitted message (%d) differs from the response nonce (%s)' % (sub, int.from_bytes(b[12:20], 'big'), n), 'message-nonce-mismatch'))
            expected = (expected + 1) % (1 << 64)
        if kind == 'tx' and sub in REPLACERS and fi.get('out') == 'ok':
            orig = bytes.fromhex(f.get('message', ''))
            for ev in fi.get('events', '').split('|'):
                if ev.startswith('MessageSent{x') and len(orig) >= 20:
                    b = bytes.fromhex(ev[len('MessageSent{x'):-1])
                    if b[12:20] != orig[12:20]:
                        out.append((i, '%s: the replacement carries nonce %d, the original %d' % (sub, int.from_bytes(b[12:20], 'big'), int.from_bytes(orig[12:20], 'big')), 'replacement-new-nonce'))
    return out


def _inv13(store):
    if store is None:
        return None
    v = store.get(K_THR)
    if v is None or not v.startswith('thr:'):
        return False
    t = int(v.split(':')[1])
    cnt = sum(1 for k in store if k.startswith(P_ATT))
    return 1 <= t <= cnt


def mon_c13(ops, impl, model):
    out = []
    last = None
    last_tx = None
    for (i, kind, sub, f, fi, store) in walk(ops, impl):
        if kind == 'config':
            last = None
        if kind == 'tx':
            last_tx = (i, sub)
        if kind == 'dump':
            cur = _inv13(O.store_entries(impl[i]))
            if last is True and cur is False and last_tx is not None:
                out.append((last_tx[0], 'after %s the threshold is no longer between 1 and the number of enabled attesters' % last_tx[1], 'threshold-invariant-broken:%s' % last_tx[1]))
            if kind == 'dump':
                last = cur
    return out


def mon_c10(ops, impl, model):
    out = []
    for (i, kind, sub, f, fi, store) in walk(ops, impl):
        if kind == 'tx' and sub in ROLE_OF and fi.get('out') == 'ok' and store is not None:
            holder = store.get(ROLE_OF[sub])
            if holder != 'role:' + f.get('from', ''):
                out.append((i, '%s succeeded for submitter %s while the role slot holds %s' % (sub, f.get('from', '')[:40], holder), 'unauthorised-success:%s' % sub))
    return out


def mon_c12(ops, impl, model):
    out = []
    module_padded = None
    for (i, kind, sub, f, fi, store) in walk(ops, impl):
        if kind == 'config':
            module_padded = '00' * 12 + f.get('module', '')
        if kind == 'tx' and fi.get('out') == 'ok' and store is not None:
            sp = store.get(K_SENDP) == 'flag:1'
            bp = store.get(K_BURNP) == 'flag:1'
            if sp and sub in USER_FLOWS:
                out.append((i, '%s succeeded while sending-and-receiving was paused' % sub, 'flow-while-send-paused:%s' % sub))
            if bp and sub in DEPOSITS + ['ReplaceDepositForBurn']:
                out.append((i, '%s succeeded while burning-and-minting was paused' % sub, 'flow-while-burn-paused:%s' % sub))
            if bp and sub == 'ReceiveMessage' and 'Mint{' in fi.get('deps', ''):
                out.append((i, 'a mint happened while burning-and-minting was paused', 'mint-while-burn-paused'))
    return out


def mon_c17(ops, impl, model):
    out = []
    for i, l in enumerate(ops):
        if i >= len(impl):
            break
        kind, sub = O.op_kind(l)
        if kind == 'snapdiff':
            d = O.parse_fields(impl[i]).get('diff', '-')
            if d not in ('-', ''):
                for k in d.split(','):
                    name = bytes.fromhex(k).decode('latin1')
                    sig = 'genesis-roundtrip/missing-key/%s' % (name if key_class(k) == 'role' else key_class(k))
                    out.append((i, 'export then import into an empty chain does not reproduce store key %r' % name, sig))
    return out


def mon_c19(ops, impl, model):
    """paginated list queries return every entry exactly once for every page size, key and offset mode."""
    out = []
    mode = None
    acc = []
    full = {}
    for i, l in enumerate(ops):
        if i >= len(impl):
            break
        kind, sub = O.op_kind(l)
        if kind == '#':
            f = _kv(l)
            if 'pages' in f:
                if mode is not None and mode[0] in full and acc != full[mode[0]] and mode[1] == 'key':
                    out.append((i, 'following next_key with limit %s over %s returned %d items, the full list has %d' % (mode[2], mode[0], len(acc), len(full[mode[0]])), 'pagination-incomplete:%s' % mode[0]))
                mode = (f['pages'], f.get('mode'), f.get('limit')) if f['pages'] != 'end' else None
                acc = []
            continue
        if kind == 'query' and mode is not None and sub == mode[0]:
            r = O.parse_fields(impl[i]).get('resp', '')
            m = re.match(r'page:\[(.*)\]:next=([0-9a-f]*):total=(\d+)', r)
            if m:
                items = [x for x in m.group(1).split(';') if x]
                if mode[1] == 'key':
                    acc += items
                else:
                    total = int(m.group(3))
                    full.setdefault(sub, None)
        if kind == 'query' and sub in ('Attesters', 'PerMessageBurnLimits', 'TokenPairs', 'UsedNonces', 'RemoteTokenMessengers') and 'reverse=1' in l and 'countTotal=1' in l and 'key=' not in l:
            r = O.parse_fields(impl[i]).get('resp', '')
            m = re.match(r'page:\[(.*)\]:next=([0-9a-f]*):total=(\d+)', r)
            if m:
                full[sub] = list(reversed([x for x in m.group(1).split(';') if x]))
    return out


MONITORS = {'C20': mon_c20, 'C15': mon_c15, 'C02': mon_c02, 'C07': mon_c07, 'C13': mon_c13, 'C10': mon_c10, 'C12': mon_c12,
            'C17': mon_c17}

HOOK_COMMITS = ['cc2d018']
# properties whose Props file exists but whose check is not registered yet: id -> reason
NOT_READY = {}
