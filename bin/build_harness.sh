#!/bin/bash
# Builds the Go harness against $VERIF_REPO (default /repo) with -tags verif.
# go.mod is regenerated from the repository's own go.mod on every build (same require block,
# replace directives pointing at the repository), go.sum is copied.
set -euo pipefail
REPO="${VERIF_REPO:-/repo}"
HERE="$(cd "$(dirname "$0")/.." && pwd)"
OUT="${1:-$HERE/.work/harness.bin}"
SRC="$HERE/harness"
mkdir -p "$(dirname "$OUT")"
export GOFLAGS=-mod=mod GOPROXY=off GOSUMDB=off GOTOOLCHAIN=local GOWORK=off
{
  echo "module verif/harness"
  echo
  grep -E '^go [0-9]' "$REPO/go.mod"
  echo
  # both require blocks of the repository, verbatim
  awk '/^require \(/{p=1} p{print} /^\)/{if(p){p=0;print ""}}' "$REPO/go.mod"
  echo "require github.com/circlefin/noble-cctp v0.0.0"
  echo
  echo "replace ("
  echo "	github.com/circlefin/noble-cctp => $REPO"
  echo "	github.com/circlefin/noble-cctp/api => $REPO/api"
  grep -E '^\s*github.com/syndtr/goleveldb =>' "$REPO/go.mod" || true
  echo ")"
} > "$SRC/go.mod.new"
if ! cmp -s "$SRC/go.mod.new" "$SRC/go.mod" 2>/dev/null; then mv "$SRC/go.mod.new" "$SRC/go.mod"; else rm "$SRC/go.mod.new"; fi
cp "$REPO/go.sum" "$SRC/go.sum"
cd "$SRC"
go build -tags verif ${VERIF_GOBUILD_FLAGS:-} -o "$OUT" . 
