#!/bin/bash
# usage: selftest.sh [seed ids...]   (default: every sample under seeded/)
# Regression test of the checks themselves: every seeded violation must be reported by the quick check of (one of) the
# properties it breaks, every must-stay-silent sample must leave all 20 quick checks silent.  Works in scratch
# worktrees of /repo under /tmp and removes them.  Prints one line per sample and a summary.
ROOT="$(cd "$(dirname "$0")/.." && pwd)"; cd "$ROOT"
python3 bin/setup.py >/dev/null 2>&1 || { echo "setup failed"; exit 2; }
IDS="$@"; [ -z "$IDS" ] && IDS=$(ls seeded)
ok=0; bad=0
for id in $IDS; do
  d=seeded/$id
  [ -f $d/meta.json ] || continue
  isv=$(python3 -c "import json;print(json.load(open('$d/meta.json'))['is_violation'])")
  props=$(python3 -c "
import json;p=json.load(open('$d/meta.json'))['property']
print(' '.join(p) if isinstance(p,list) else p)")
  WT=/tmp/selftest_$$; git -C /repo worktree add -q $WT HEAD || exit 2
  if ! (cd $WT && git apply $ROOT/$d/patch.diff 2>/dev/null); then echo "$id: PATCH DOES NOT APPLY"; bad=$((bad+1)); git -C /repo worktree remove --force $WT; continue; fi
  if [ "$isv" = "True" ]; then
    hit=""
    for p in $props; do
      out=$(VERIF_REPO=$WT timeout 3000 python3 bin/check.py $p quick 2>&1)
      if echo "$out" | grep -q '^VIOLATION' ; then
        if echo "$out" | grep '^VIOLATION' | grep -qv 'no-failing-input-found'; then hit="$p (failing input)"; else hit="$p (no-failing-input-found only)"; fi
        break
      fi
    done
    if [ -n "$hit" ]; then echo "$id: caught by $hit"; ok=$((ok+1)); else echo "$id: MISSED (tried: $props)"; bad=$((bad+1)); fi
  else
    [ "$props" = "all" ] && props="C01 C02 C03 C04 C05 C06 C07 C08 C09 C10 C11 C12 C13 C14 C15 C16 C17 C18 C19 C20"
    noisy=""
    for p in $props; do
      out=$(VERIF_REPO=$WT timeout 3000 python3 bin/check.py $p quick 2>&1); rc=$?
      if [ $rc -ne 0 ]; then noisy="$noisy $p(rc=$rc)"; fi
    done
    if [ -z "$noisy" ]; then echo "$id: silent on: $(echo $props | wc -w) checks"; ok=$((ok+1)); else echo "$id: FALSE ALARM on$noisy"; bad=$((bad+1)); fi
  fi
  git -C /repo worktree remove --force $WT >/dev/null 2>&1
done
echo "selftest: $ok as expected, $bad not"
[ $bad -eq 0 ]
