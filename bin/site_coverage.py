#!/usr/bin/env python3
"""Which error-return sites of the implementation (regenerated from the source by the extractor: function + message
literal) did the implementation's own outputs reach?  usage: site_coverage.py <sites.json> <impl files...>
Evidence only: the report names rejection branches that no generated input exercised."""
import json, re, sys

def sanitise(s):
    return ''.join('_' if c in ' =' else c for c in s if c in ' =' or 33 <= ord(c) <= 126)

def coverage(sites, impl_lines):
    msgs = set()
    for l in impl_lines:
        m = re.search(r'#msg=(\S*)', l)
        if m:
            msgs.add(m.group(1))
    reached, unreached = [], []
    for s in sites:
        lit = sanitise(s['lit'])
        if len(lit) < 4:
            continue
        # the harness truncates messages at 200 characters; a literal is matched by its first 40
        key = lit[:40]
        (reached if any(key in m for m in msgs) else unreached).append(s)
    return reached, unreached, len(msgs)

if __name__ == '__main__':
    sites = json.load(open(sys.argv[1]))
    lines = []
    for f in sys.argv[2:]:
        lines += open(f, errors='replace').read().splitlines()
    r, u, n = coverage(sites, lines)
    print("distinct error messages seen: %d; sites reached %d / %d" % (n, len(r), len(r) + len(u)))
    for s in u:
        print("  UNREACHED %-34s %-40s %s" % (s['pos'], s['func'], s['lit'][:70]))
